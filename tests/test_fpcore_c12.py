"""
Self-tests of mc.model.fpcore_c12 (the FPCore-text reference evaluator that
arbitrates titanfp-vs-FPy disagreements in the C12 check) on cores whose value
is computed by hand from the FPCore standard; no fpy2 involved.

Run:  cd /verif && /venv/bin/python -m pytest -q -p no:cacheprovider tests/test_fpcore_c12.py
"""

import os
import sys
from fractions import Fraction as Q

import pytest

sys.path.insert(0, os.path.dirname(os.path.dirname(os.path.abspath(__file__))))

from mc.model import fpcore_c12 as REF  # noqa: E402
from mc.model.xreal import X  # noqa: E402


def ev(text, *args):
    return REF.evaluate(text, [X.from_pyfloat(a) if isinstance(a, float) else a for a in args])


def num(v):
    assert isinstance(v, X) and v.isfin
    return v.q


def test_annotation_applies_to_its_expression_only():
    # 8401.64 * 1/3 = 2800.546...; binary16 spacing there is 2; toZero -> 2800.
    # the outer product is binary64 again.
    t = '(FPCore (u v) (let ([a (! :precision binary16 :round toZero (* u v))]) (* a v)))'
    assert num(ev(t, 8401.64, 1 / 3)) == Q(2800.0 * (1 / 3))


def test_annotation_inherits_other_properties():
    # 5/2 under integer: nearestEven -> 2, toPositive -> 3; the inner annotation sets only the precision
    t = '(FPCore (u v) (! :round toPositive (! :precision integer (/ u v))))'
    assert num(ev(t, 5.0, 2.0)) == 3
    t = '(FPCore (u v) (! :precision integer (/ u v)))'
    assert num(ev(t, 5.0, 2.0)) == 2
    assert num(ev(t, 7.0, 2.0)) == 4


def test_literals_round_where_they_stand_variables_do_not():
    t = '(FPCore (u) (! :precision binary16 (array 0.1 u)))'
    a, b = ev(t, 0.1)
    assert a.q == Q(1638, 2 ** 14)          # 0.1 / 2^-14 = 1638.4 -> 1638 (nearestEven, 11 bits)
    assert b.q == Q(0.1)


def test_overflow_follows_the_rounding_mode():
    t = '(FPCore (u v) (! :precision binary16 :round toZero (* u v)))'
    assert num(ev(t, 8401.64, 8401.64)) == 65504
    t = '(FPCore (u v) (! :precision binary16 :round nearestEven (* u v)))'
    assert ev(t, 8401.64, 8401.64).isinf
    t = '(FPCore (u v) (! :precision binary16 :round toPositive (* u v)))'
    assert num(ev(t, -8401.64, 8401.64)) == -65504


def test_exact_cancellation_sign():
    t = '(FPCore (u) (! :round toNegative (- u u)))'
    z = ev(t, 1.5)
    assert z.iszero and z.s
    t = '(FPCore (u) (- u u))'
    z = ev(t, 1.5)
    assert z.iszero and not z.s


def test_sqrt_is_correctly_rounded():
    import math
    t = '(FPCore (u) (sqrt u))'
    for x in (2.0, 3.0, 0.1, 8401.64, 1e-300, 2.0 ** 1000 * 1.1):
        assert num(ev(t, x)) == Q(math.sqrt(x))
    t = '(FPCore (u) (! :precision binary16 :round toZero (sqrt u)))'
    assert num(ev(t, 2.0)) == Q(1448, 1024)


def test_let_is_simultaneous_letstar_sequential():
    assert num(ev('(FPCore (u) (let ([a 1] [b u]) b))', 7.0)) == 7
    assert num(ev('(FPCore (u) (let* ([a 2] [b (+ a u)]) b))', 7.0)) == 9
    with pytest.raises(REF.RefError):
        ev('(FPCore (u) (let ([a 2] [b (+ a u)]) b))', 7.0)


def test_while_and_for():
    # sum 0..3 and a running product; updates are simultaneous in `for`
    t = '(FPCore (n) (for ([i n]) ([s 0 (+ s i)] [p 1 (* p (+ s 1))]) (array s p)))'
    s, p = ev(t, 4.0)
    assert num(s) == 6 and num(p) == 1 * 1 * 2 * 4          # p uses the *old* s: (0+1)(0+1)(1+1)(3+1)
    t = '(FPCore (n) (for* ([i n]) ([s 0 (+ s i)] [p 1 (* p (+ s 1))]) (array s p)))'
    s, p = ev(t, 4.0)
    assert num(s) == 6 and num(p) == 1 * 2 * 4 * 7
    t = '(FPCore (x) (while (< x 40) ([x x (+ (* x 2) 1)]) x))'
    assert num(ev(t, 1.0)) == 63
    with pytest.raises(REF.Diverged):
        ev('(FPCore (x) (while (< x 40) ([x x (* x 1)]) x))', 1.0)


def test_tensor_ref_size_and_index_order():
    t = '(FPCore () (let ([m (array (array 1 2) (array 3 4))]) (array (ref m 0 1) (ref m 1 0) (size m 0) (dim m))))'
    a, b, n, d = ev(t)
    assert (num(a), num(b), num(n), num(d)) == (2, 3, 2, 2)
    t = '(FPCore () (tensor ([i 2] [j 3]) (+ (* i 10) j)))'
    rows = ev(t)
    assert [[int(x.q) for x in r] for r in rows] == [[0, 1, 2], [10, 11, 12]]
    with pytest.raises(REF.RefError):
        ev('(FPCore () (ref (array 1 2) 2))')
    with pytest.raises(REF.RefError):
        ev('(FPCore (u) (ref u 0))', 1.0)
    with pytest.raises(REF.RefError):
        ev('(FPCore (u) (+ u w))', 1.0)


def test_integer_context_has_no_nan():
    with pytest.raises(REF.Undefined):
        ev('(FPCore (u) (! :precision integer (+ u 1)))', float('nan'))


def test_tensor_argument_and_empty_tensor():
    t = '(FPCore ((xs 3)) (for ([i (size xs 0)]) ([s 0 (+ s (ref xs i))]) s))'
    assert num(ev(t, (X.fin(1), X.fin(2), X.fin(4)))) == 7
    t = '(FPCore ((xs 0)) (for ([i (size xs 0)]) ([s 5 (+ s (ref xs i))]) s))'
    assert num(ev(t, ())) == 5


def test_agrees_with_titanfp_where_titanfp_has_no_quirk():
    titan = pytest.importorskip('titanfp.arithmetic.mpmf')
    from titanfp.fpbench import fpcparser
    cores = [
        '(FPCore (u v) (! :precision binary16 :round toZero (let ([a (+ u v)]) (! :precision binary64 :round nearestEven (* a u)))))',
        '(FPCore (u v) (! :precision binary32 :round toPositive (fma u v (sqrt (fabs u)))))',
        '(FPCore (u v) (! :precision integer :round toZero (/ u v)))',
        '(FPCore (u v) (if (< u v) (! :precision binary16 (/ u v)) (- u v)))',
    ]
    for text in cores:
        for (u, v) in ((8401.64, 1 / 3), (1 / 3, 0.1), (-2.25, 1.7), (7.0, 2.0)):
            m = titan.Interpreter().interpret(fpcparser.compile1(text),
                                              [titan.MPMF(x) for x in (u, v)])
            want = (-1 if m.negative else 1) * Q(int(m.c)) * Q(2) ** int(m.exp)
            assert num(ev(text, u, v)) == want, (text, u, v)
