"""
Self-tests of mc.engine.sched and mc.engine.histories on toy programs whose
schedule / history spaces are known in closed form (no fpy2 involved).

Run:  cd /verif && /venv/bin/python -m pytest -q -p no:cacheprovider tests/test_sched_c18.py
"""

import os
import sys

import pytest

sys.path.insert(0, os.path.dirname(os.path.dirname(os.path.abspath(__file__))))

from mc.engine import histories, sched  # noqa: E402


# ---- toy racy program: counter += 1 as read(); write() ---------------------

class Box:
    def __init__(self):
        self.v = 0


def toy_read(box):
    return box.v


def toy_write(box, v):
    box.v = v


def toy_classify(code):
    if code.co_name in ('toy_read', 'toy_write'):
        return (code.co_name, False)
    return None


def make_toy(nthreads=2):
    def make():
        box = Box()

        def body():
            t = toy_read(box)
            toy_write(box, t + 1)
            return t
        return [body] * nthreads, box
    return make


def explore(nthreads, bound, shard=(0, 1)):
    finals = {}
    traces = set()

    def visit(ex, box):
        finals[box.v] = finals.get(box.v, 0) + 1
        assert ex.devs not in traces          # every schedule exactly once
        traces.add(ex.devs)
    stats = sched.explore(make_toy(nthreads), toy_classify, bound, visit, shard=shard)
    return stats, finals


def test_bound0_two_threads_is_serial():
    stats, finals = explore(2, 0)
    assert stats.executions == 2 and finals == {2: 2}
    assert stats.points_min == stats.points_max == 4


def test_bound1_finds_lost_update_and_counts():
    stats, finals = explore(2, 1)
    # 2 serial orders + one preemption at each of the 2 points of whichever thread starts
    assert stats.by_preemptions == {0: 2, 1: 4}
    # preempting *before* the read is harmless; preempting between read and write loses an update
    assert finals == {2: 4, 1: 2}
    assert stats.bound_completed == 1


def test_bound2_count():
    stats, finals = explore(2, 2)
    # level 2: first thread preempted at p (2 ways x 2 starts), second preempted at q (2 ways)
    assert stats.by_preemptions == {0: 2, 1: 4, 2: 8}


def test_sharding_partitions_the_space():
    whole, _ = explore(2, 2)
    parts = [explore(2, 2, shard=(k, 3))[0] for k in range(3)]
    assert sum(p.executions for p in parts) == whole.executions
    three, _ = explore(3, 1)
    parts3 = [explore(3, 1, shard=(k, 4))[0] for k in range(4)]
    assert sum(p.executions for p in parts3) == three.executions
    assert three.by_preemptions[0] == 6                   # 3! serial orders


def test_replay_is_deterministic_and_divergence_is_an_error():
    seen = []

    def visit(ex, box):
        seen.append((ex.devs, ex.trace_digest(), box.v, list(ex.results)))
    sched.explore(make_toy(2), toy_classify, 1, visit)
    for devs, dig, v, results in seen:
        ex, box = sched.run_schedule(make_toy(2), toy_classify, devs)
        assert (ex.trace_digest(), box.v, ex.results) == (dig, v, results)
    devs = [d for d, _, _, _ in seen if d and d[-1][2][1].startswith('call:')][0]
    bad = devs[:-1] + ((devs[-1][0], devs[-1][1], (devs[-1][2][0], 'call:something_else')),)
    with pytest.raises(sched.SchedulerError):
        sched.run_schedule(make_toy(2), toy_classify, bad)
    with pytest.raises(sched.SchedulerError):
        sched.run_schedule(make_toy(2), toy_classify, ((999, 1, None),))     # never reached


def test_body_exception_is_an_observation():
    def make():
        def boom():
            toy_read(Box())
            raise ValueError('x')
        return [boom, lambda: 1], None
    ex, _ = sched.run_schedule(make, toy_classify, ())
    assert ex.results[0][0] == 'raise' and ex.results[1] == ('ok', 1)


# ---- histories --------------------------------------------------------------

def test_history_bfs_is_exhaustive_and_prunes_failing_states():
    menu = ['a', 'b', 'c']

    def replay(h):
        fails = ['bb'] if any(x == y == 'b' for x, y in zip(h, h[1:])) else []
        return tuple(h), fails
    visited = []
    total = 0
    for k in range(4):
        st = histories.bfs(menu, 3, replay, lambda h, o, f: visited.append(h), shard=(k, 4), root_len=2)
        total += st.states
    # 3 + 9 + 27 minus the 3 extensions of the failing state ('b','b')
    assert total == len(visited) == 3 + 9 + 27 - 3
    assert len(set(visited)) == len(visited)
    assert histories.space_size(3, 3) == 39
