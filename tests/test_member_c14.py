"""Self-test of the C14 membership models (run: cd /verif && /venv/bin/python -W ignore -m tests.test_member_c14).

* member(params, x) for encodable formats agrees with the decoded value set and
  with the Spec-based closed form on the same parameters;
* the vectorised window test used by part F agrees with the scalar abs_member on
  every shape and every grid point, and on products on the 2^-8 grid.
"""
from fractions import Fraction

import numpy as np

from mc.model.xreal import X
from mc.model.member_c14 import member, abs_member, abs_window_members
from mc.model import encoding as E
from mc.checks.c14 import SHAPES, fin_mask, GRID, WINDOW


def main():
    n = 0
    # IEEE small words: closed form (p, emin, max) vs decoded set
    for es in (2, 3, 4):
        for nbits in range(es + 2, es + 6):
            p = {'cls': 'efloat', 'es': es, 'nbits': nbits, 'inf': True, 'kind': 'IEEE_754', 'eoffset': 0}
            prec = nbits - es
            emax = (1 << (es - 1)) - 1
            top = (Fraction(2) - E.pow2(1 - prec)) * E.pow2(emax)
            q = {'cls': 'mpbfloat', 'pmax': prec, 'emin': 1 - emax, 'pos': top, 'neg': -top, 'nan': True, 'inf': True}
            lo = E.pow2(1 - emax - prec + 1)
            for k in range(-600, 601):
                x = X.fin(k * lo / 2) if k else X.zero(False)
                assert member(p, x) == member(q, x), (p, x)
                n += 1
            for x in (X.zero(True), X.inf(False), X.inf(True), X.nan(), X.fin(top * 2), X.fin(Fraction(1, 3))):
                assert member(p, x) == member(q, x), (p, x)
    # fixed point
    for signed in (True, False):
        p = {'cls': 'fixed', 'signed': signed, 'scale': -1, 'nbits': 3}
        vals = {Fraction(k, 2) for k in (range(-4, 4) if signed else range(0, 8))}
        for k in range(-40, 41):
            x = X.fin(Fraction(k, 4)) if k else X.zero(False)
            assert member(p, x) == (x.q in vals), (p, x)
        assert not member(p, X.zero(True)) and not member(p, X.nan()) and not member(p, X.inf(False))
    # vectorised window membership vs scalar model
    den = 1 << GRID
    ks = np.arange(-WINDOW * den, WINDOW * den + 1, dtype=np.int64)
    ks = ks[ks != 0]
    prod = (ks[:, None] * ks[None, ::7]).ravel()
    for s in SHAPES:
        a = s + (False, False, False, False)
        m = fin_mask(ks, GRID, s)
        for k, got in zip(ks, m):
            assert bool(got) == abs_member(a, X.fin(Fraction(int(k), den))), (s, k)
            n += 1
        m2 = fin_mask(prod[::97], 2 * GRID, s)
        for k, got in zip(prod[::97], m2):
            assert bool(got) == abs_member(a, X.fin(Fraction(int(k), den * den))), (s, k)
            n += 1
        assert len(abs_window_members(a)) == int(m.sum()) + 1
    print('ok', n, 'comparisons')


if __name__ == '__main__':
    main()
