"""setup_cmd: nothing to build (pure Python); verifies the toolchain and the models."""
import sys


def main():
    import fpy2  # noqa: F401  the working tree under /repo
    import gmpy2  # noqa: F401
    from mc.model import xreal
    from fractions import Fraction as Q
    X = xreal.X
    assert X.fin(Q(1, 2)).add(X.fin(Q(1, 3))).q == Q(5, 6)
    assert X.inf().mul(X.zero()).isnan
    assert X.zero(True).add(X.zero(True)).s and not X.zero(True).add(X.zero()).s
    try:
        from mc.model import selftest_models
        selftest_models.main()
    except ImportError:
        pass
    print('selftest ok; fpy2 from', fpy2.__file__)


if __name__ == '__main__':
    main()
    sys.exit(0)
