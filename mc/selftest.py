"""setup_cmd: nothing to build (pure Python); verifies the toolchain and the models."""
import sys


def main():
    import fpy2  # noqa: F401  the working tree under /repo
    import gmpy2  # noqa: F401
    from mc.model import xreal
    from fractions import Fraction as Q
    X = xreal.X
    assert X.fin(Q(1, 2)).add(X.fin(Q(1, 3))).q == Q(5, 6)
    assert X.inf().mul(X.zero()).isnan
    assert X.zero(True).add(X.zero(True)).s and not X.zero(True).add(X.zero()).s
    try:
        from mc.model import selftest_models
        selftest_models.main()
    except ImportError:
        pass
    # self-tests of the scheduler / history explorer, the FPCore text evaluator and the format-membership model
    import os
    import subprocess
    root = os.path.dirname(os.path.dirname(os.path.abspath(__file__)))
    tests = [os.path.join(root, 'tests', t) for t in ('test_sched_c18.py', 'test_fpcore_c12.py', 'test_member_c14.py')]
    r = subprocess.run([sys.executable, '-W', 'ignore', '-m', 'pytest', '-q', '-p', 'no:cacheprovider', *tests],
                       cwd=root, capture_output=True, text=True)
    print(r.stdout.strip().splitlines()[-1] if r.stdout.strip() else r.stderr[-400:])
    assert r.returncode == 0, r.stdout[-2000:]
    print('selftest ok; fpy2 from', fpy2.__file__)


if __name__ == '__main__':
    main()
    sys.exit(0)
