"""
C01 — Rounding under any context is correct rounding.

Space: every configuration of the small-format families (DESIGN §4.1) x 8 rounding
modes x every overflow mode the family accepts x a per-binade operand grid
(§4.2: every multiple of quantum/8 in every binade from below the smallest value to
past the overflow threshold, non-dyadic perturbations, both signs, zeros, infinities,
NaN) presented as Float / RealFloat / Fraction / int / float, through `round`,
`round_at(n)`, `round_integer` and `round(exact=True)`.

Oracle: mc.model.rounding (exact rationals; written from the mode names and the class
docstrings).  For encodable formats (IEEE, EFloat, Fixed, SMFixed, Exp) the value set
is *defined* as {decode(b)} over all bit patterns (C16 ties decode to an independent
layout model), so `maxval` arithmetic in the contexts is not trusted here.
"""

from __future__ import annotations

import itertools
from fractions import Fraction

from ..engine.runner import BaseCheck, ShardResult
from ..engine.adapt import to_x, show
from ..model.xreal import X
from ..model import rounding as R

import fpy2 as fp
from fpy2.number import Float, RealFloat, RM, OV
from fpy2.number import (IEEEContext, EFloatContext, EFloatNanKind, MPFloatContext, MPSFloatContext,
                         MPBFloatContext, MPFixedContext, MPBFixedContext, FixedContext, SMFixedContext,
                         ExpContext, REAL)

MODES = list(R.MODES)
Q = Fraction


def rf(q: Fraction) -> RealFloat:
    """exact RealFloat of a dyadic rational"""
    q = Fraction(q)
    d = q.denominator
    assert d & (d - 1) == 0, q
    return RealFloat(s=q < 0, exp=-(d.bit_length() - 1), c=abs(q.numerator))


def fl(q) -> Float:
    return Float(x=rf(q))


# ---------------------------------------------------------------------------
# configurations: (family, params dict) -> (ctx constructor, Spec)

def _decoded(ctx):
    vals = []
    for b in range(1 << ctx.total_bits()):
        vals.append(to_x(ctx.decode(b)))
    return vals


def _spec_from_decoded(kind, vals, **kw):
    fin = [v.q for v in vals if v.isfin]
    return dict(maxpos=max(fin), maxneg=min(fin),
                has_nan=any(v.isnan for v in vals), has_inf=any(v.isinf for v in vals),
                has_negzero=any(v.iszero and v.s for v in vals), **kw)


def both_signs(q):
    q = Fraction(q)
    if q == 0:
        return [X.zero(False), X.zero(True)]
    return [X.fin(q), X.fin(-q)]


def _xsub(v: Float):
    """admissible values when a special is substituted by `v` (sign left open)"""
    x = to_x(v)
    if x.isnan:
        return [x]
    if x.isinf:
        return [X.inf(False), X.inf(True)]
    return both_signs(x.q)


class Config:
    """One context configuration minus (mode, overflow)."""

    def __init__(self, family: str, params: dict):
        self.family = family
        self.params = params

    def key(self):
        return (self.family, tuple(sorted((k, str(v)) for k, v in self.params.items())))

    def text(self):
        return f'{self.family}({", ".join(f"{k}={v}" for k, v in self.params.items())})'

    def overflow_modes(self):
        if self.family in ('MPFloat', 'MPSFloat', 'MPFixed', 'REAL'):
            return ['OVERFLOW']          # no bound: the mode is not a parameter
        if self.family in ('IEEE', 'EFloat', 'MPBFloat'):
            return ['OVERFLOW', 'SATURATE', 'ASSERT']
        if self.family == 'Exp':
            return ['OVERFLOW', 'SATURATE']
        return ['OVERFLOW', 'SATURATE', 'WRAP', 'ASSERT']

    def build(self, mode: str, ovf: str, k: int = 0, rng=None):
        """-> (ctx, spec).  Raises ValueError when the constructor rejects."""
        rm = RM[mode]
        ov = OV[ovf]
        P = self.params
        f = self.family

        def opt(name):
            v = P.get(name)
            return None if v is None else fl(Q(v)) if not isinstance(v, str) or v not in ('inf', 'nan') else \
                (Float(isinf=True) if v == 'inf' else Float(isnan=True))

        if f == 'REAL':
            return REAL, R.Spec('real', has_nan=True, has_inf=True, label='REAL')
        if f == 'IEEE':
            ctx = IEEEContext(P['es'], P['nbits'], rm, ov, k, rng=rng)
            vals = _decoded(ctx)
            p = P['nbits'] - P['es']
            emin = 2 - (1 << (P['es'] - 1))
            return ctx, R.Spec('float', p=p, emin=emin, **_spec_from_decoded('float', vals))
        if f == 'EFloat':
            kind = EFloatNanKind[P['nan_kind']]
            nanv, infv = opt('nan_value'), opt('inf_value')
            ctx = EFloatContext(P['es'], P['nbits'], P['inf'], kind, P['eoffset'], rm, ov, k, rng=rng,
                                nan_value=nanv, inf_value=infv)
            vals = _decoded(ctx)
            d = _spec_from_decoded('float', vals)
            p = P['nbits'] - P['es']
            pos = sorted(v.q for v in vals if v.isfin and v.q > 0)
            if not pos:
                raise ValueError('degenerate: no non-zero values')
            emin = R.ilog2(pos[0]) + p - 1
            maxv = lambda s: both_signs(d['maxpos'])   # noqa: E731
            if d['has_nan']:
                nan_sub = 'ERR'
            elif nanv is not None:
                nan_sub = _xsub(nanv)
            elif d['has_inf']:
                nan_sub = [X.inf(False), X.inf(True)]
            else:
                nan_sub = both_signs(d['maxpos'])
            if d['has_inf']:
                inf_sub = 'ERR'
            elif infv is not None:
                inf_sub = _xsub(infv)
            elif d['has_nan']:
                inf_sub = [X.nan()]
            else:
                inf_sub = both_signs(d['maxpos'])
            return ctx, R.Spec('float', p=p, emin=emin, nan_sub=nan_sub, inf_sub=inf_sub, **d)
        if f in ('MPFloat', 'MPSFloat', 'MPBFloat'):
            nanv, infv = opt('nan_value'), opt('inf_value')
            kw = dict(enable_nan=P.get('nan', True), enable_inf=P.get('inf', True), nan_value=nanv, inf_value=infv)
            sp = dict(has_nan=kw['enable_nan'], has_inf=kw['enable_inf'],
                      nan_sub='ERR' if nanv is None else _xsub(nanv),
                      inf_sub='ERR' if infv is None else _xsub(infv))
            if f == 'MPFloat':
                return MPFloatContext(P['p'], rm, k, rng=rng, **kw), R.Spec('float', p=P['p'], **sp)
            if f == 'MPSFloat':
                return MPSFloatContext(P['p'], P['emin'], rm, k, rng=rng, **kw), R.Spec('float', p=P['p'], emin=P['emin'], **sp)
            mx = Q(P['maxval'])
            ng = Q(P['neg_maxval']) if P.get('neg_maxval') is not None else -mx
            ctx = MPBFloatContext(P['p'], P['emin'], rf(mx), rm, ov, k, rng=rng,
                                  neg_maxval=(rf(ng) if P.get('neg_maxval') is not None else None), **kw)
            return ctx, R.Spec('float', p=P['p'], emin=P['emin'], maxpos=mx, maxneg=ng, **sp)
        if f in ('MPFixed', 'MPBFixed'):
            nanv, infv = opt('nan_value'), opt('inf_value')
            kw = dict(enable_nan=P.get('nan', False), enable_inf=P.get('inf', False),
                      enable_neg_zero=P.get('negzero', True), nan_value=nanv, inf_value=infv)
            sp = dict(has_nan=kw['enable_nan'], has_inf=kw['enable_inf'], has_negzero=kw['enable_neg_zero'],
                      nan_sub='ERR' if nanv is None else _xsub(nanv),
                      inf_sub='ERR' if infv is None else _xsub(infv))
            if f == 'MPFixed':
                return MPFixedContext(P['nmin'], rm, k, rng=rng, **kw), R.Spec('fixed', nmin=P['nmin'], **sp)
            mx = Q(P['maxval'])
            ng = Q(P['neg_maxval']) if P.get('neg_maxval') is not None else -mx
            ctx = MPBFixedContext(P['nmin'], rf(mx), rm, ov, k, rng=rng,
                                  neg_maxval=(rf(ng) if P.get('neg_maxval') is not None else None), **kw)
            return ctx, R.Spec('fixed', nmin=P['nmin'], maxpos=mx, maxneg=ng, **sp)
        if f in ('Fixed', 'SMFixed'):
            nanv, infv = opt('nan_value'), opt('inf_value')
            if f == 'Fixed':
                ctx = FixedContext(P['signed'], P['scale'], P['nbits'], rm, ov, k, rng=rng, nan_value=nanv, inf_value=infv)
            else:
                ctx = SMFixedContext(P['scale'], P['nbits'], rm, ov, k, rng=rng, nan_value=nanv, inf_value=infv)
            vals = _decoded(ctx)
            d = _spec_from_decoded('fixed', vals)
            return ctx, R.Spec('fixed', nmin=P['scale'] - 1,
                               nan_sub='ERR' if nanv is None else _xsub(nanv),
                               inf_sub='ERR' if infv is None else _xsub(infv), **d)
        if f == 'Exp':
            infv = opt('inf_value')
            ctx = ExpContext(P['nbits'], P['eoffset'], rm, ov, inf_value=infv)
            vals = _decoded(ctx)
            fin = sorted(v.q for v in vals if v.isfin)
            spec = R.Spec('float', p=1, maxpos=fin[-1], maxneg=fin[0], has_nan=True, has_inf=False,
                          has_negzero=False, inf_sub=[X.nan()] if infv is None else [to_x(infv)], label='Exp')
            return ctx, spec
        raise ValueError(f)


def configs(tier: str) -> list[Config]:
    quick = tier == 'quick'
    out = []
    out.append(Config('REAL', {}))
    for es in ((2, 3) if quick else (1, 2, 3, 4)):
        for nbits in range(es + 1, (6 if quick else 7) + 1):
            out.append(Config('IEEE', {'es': es, 'nbits': nbits}))
    for es in range(0, 4):
        for nbits in range(1, (5 if quick else 7) + 1):
            if es >= nbits:
                continue
            for inf in (False, True):
                for kind in ('IEEE_754', 'MAX_VAL', 'NEG_ZERO', 'NONE'):
                    for eoff in ((0, 2) if quick else (-3, 0, 2)):
                        if quick and (nbits == 5 or eoff != 0):
                            continue
                        if nbits == 7 and eoff != 0:
                            continue        # the widest formats: offset 0 only (keeps thorough near 25 min)
                        out.append(Config('EFloat', {'es': es, 'nbits': nbits, 'inf': inf, 'nan_kind': kind,
                                                     'eoffset': eoff}))
                        if eoff == 0 and 3 <= nbits <= 5 and (not quick or (nbits == 4 and es == 2)):
                            for nv, iv in ((0, None), (None, 0), ('inf', None), (1, 1)):
                                out.append(Config('EFloat', {'es': es, 'nbits': nbits, 'inf': inf, 'nan_kind': kind,
                                                             'eoffset': eoff, 'nan_value': nv, 'inf_value': iv}))
    for p in ((1, 2, 3) if quick else (1, 2, 3, 4, 5)):
        out.append(Config('MPFloat', {'p': p}))
        out.append(Config('MPFloat', {'p': p, 'nan': False, 'inf': False}))
        out.append(Config('MPFloat', {'p': p, 'nan': False, 'inf': False, 'nan_value': 0, 'inf_value': 1}))
    for p in ((1, 2, 3) if quick else (1, 2, 3, 4)):
        for emin in (-3, 0, 2):
            out.append(Config('MPSFloat', {'p': p, 'emin': emin}))
            out.append(Config('MPSFloat', {'p': p, 'emin': emin, 'nan': False, 'inf': False, 'nan_value': 0,
                                           'inf_value': Q(2) ** emin}))
            top = emin + 2
            full = (Q(2) ** p - 1) * Q(2) ** (top - p + 1)           # top of a binade
            mids = [full, Q(2) ** top]                                   # a power of two
            if p >= 2:
                mids.append(Q(2) ** top + Q(2) ** (top - p + 1))        # mid-binade
            for mx in mids:
                out.append(Config('MPBFloat', {'p': p, 'emin': emin, 'maxval': mx}))
            out.append(Config('MPBFloat', {'p': p, 'emin': emin, 'maxval': full, 'neg_maxval': -Q(2) ** (top - 1)}))
            out.append(Config('MPBFloat', {'p': p, 'emin': emin, 'maxval': full, 'nan': False, 'inf': False}))
            out.append(Config('MPBFloat', {'p': p, 'emin': emin, 'maxval': full, 'nan': False, 'inf': False,
                                           'nan_value': 0, 'inf_value': Q(2) ** emin}))
    for nmin in (-3, -1, 0, 2):
        for negzero in (True, False):
            out.append(Config('MPFixed', {'nmin': nmin, 'negzero': negzero}))
        out.append(Config('MPFixed', {'nmin': nmin, 'nan': True, 'inf': True}))
        out.append(Config('MPFixed', {'nmin': nmin, 'nan_value': 0, 'inf_value': Q(2) ** (nmin + 2)}))
        u = Q(2) ** (nmin + 1)
        for mx in (3 * u, 4 * u, 7 * u):
            out.append(Config('MPBFixed', {'nmin': nmin, 'maxval': mx}))
        out.append(Config('MPBFixed', {'nmin': nmin, 'maxval': 5 * u, 'neg_maxval': -2 * u}))
        out.append(Config('MPBFixed', {'nmin': nmin, 'maxval': 5 * u, 'negzero': False, 'nan': True, 'inf': True}))
        out.append(Config('MPBFixed', {'nmin': nmin, 'maxval': 5 * u, 'nan_value': 0, 'inf_value': 2 * u}))
    # NaN and infinity options that differ from each other
    for nan, inf in ((True, False), (False, True)):
        out += [Config('MPBFixed', {'nmin': -1, 'maxval': 5, 'nan': nan, 'inf': inf}),
                Config('MPFixed', {'nmin': -2, 'nan': nan, 'inf': inf}),
                Config('MPBFloat', {'p': 2, 'emin': 0, 'maxval': 6, 'nan': nan, 'inf': inf}),
                Config('MPSFloat', {'p': 2, 'emin': -1, 'nan': nan, 'inf': inf}),
                Config('MPFloat', {'p': 2, 'nan': nan, 'inf': inf})]
    for nbits in range(1, (4 if quick else 5) + 1):
        for scale in (-2, 0, 1):
            for signed in (True, False):
                if signed and nbits < 2:
                    continue
                out.append(Config('Fixed', {'signed': signed, 'scale': scale, 'nbits': nbits}))
            if nbits >= 2:
                out.append(Config('SMFixed', {'scale': scale, 'nbits': nbits}))
        out.append(Config('Fixed', {'signed': nbits >= 2, 'scale': 0, 'nbits': nbits, 'nan_value': 0, 'inf_value': 1}))
    for nbits in range(1, 5):
        for eoff in (-2, 0, 3):
            out.append(Config('Exp', {'nbits': nbits, 'eoffset': eoff}))
    return out


def quick_configs(seed: int) -> list[Config]:
    """complete quick core + a seed-rotated 1/96 slice of the thorough-only configurations"""
    core = configs('quick')
    have = {c.key() for c in core}
    extra = [c for c in configs('thorough') if c.key() not in have]
    return core + [c for i, c in enumerate(extra) if i % 96 == seed % 96]


# ---------------------------------------------------------------------------
# operand grid (per binade)

def grid(spec: R.Spec, fine: int = 8) -> list[Fraction]:
    """positive magnitudes"""
    pts: set[Fraction] = set()
    if spec.kind == 'real':
        return [Q(k, 8) for k in range(1, 20)] + [Q(1, 3), Q(10) ** 20 + Q(1, 7)]
    if spec.kind == 'fixed':
        u = Q(2) ** (spec.nmin + 1)
        top = (spec.maxpos if spec.maxpos is not None else 6 * u)
        bot = (-spec.maxneg if spec.maxneg is not None else 6 * u)
        k = int(max(top, bot) / u) + 4
        for j in range(1, k * fine + 1):
            pts.add(j * u / fine)
        pts.update([u / 16, u / 64, 3 * k * u + u / 2, 2 * k * u])
    else:
        p = spec.p
        if spec.emin is not None:
            lowe = spec.emin
            qs = Q(2) ** (spec.emin - p + 1)
            for j in range(1, fine * (1 << (p - 1)) + 1):
                pts.add(j * qs / fine)
            pts.update([qs / 16, qs / 32, qs / 64])
        else:
            lowe = -4
        if spec.maxpos is not None:
            m = max(spec.maxpos, -spec.maxneg)
            tope = (R.ilog2(m) if m > 0 else lowe) + 3
        else:
            tope = lowe + 7
        for e in range(lowe, tope + 1):
            q = Q(2) ** (e - p + 1)
            for j in range(0, fine * (1 << (p - 1))):
                pts.add(Q(2) ** e + j * q / fine)
        pts.add(Q(2) ** (tope + 40))
    dy = sorted(pts)
    nd = []
    for i, b in enumerate(dy):
        # non-dyadic operands (the Fraction -> MPFR round-to-odd path) on BOTH sides of every grid point:
        # just above, and a seventh of a quantum below (so every quarter-cell holds one)
        e = R.ilog2(b)
        k = spec.quantum_exp(e, None)
        q = Q(2) ** k
        nd.append(b + q / 3072)
        if b - q / 7 > 0:
            nd.append(b - q / 7)
    return dy + nd


def forms(q: Fraction, s: bool, tier: str):
    """yield (form-name, python object) presenting the value (-1)^s * q"""
    v = -q if s else q
    d = q.denominator
    dyadic = d & (d - 1) == 0
    if dyadic:
        r = rf(v)
        yield 'Float', Float(x=r)
        yield 'RealFloat', r
        yield 'Fraction', v
        # redundant encoding
        yield 'Float*4', Float(s=r.s, exp=r.exp - 2, c=r.c << 2)
        if d == 1:
            yield 'int', int(v)
        try:
            f = float(v)
            if Fraction(f) == v:
                yield 'float', f
        except OverflowError:
            pass
    else:
        yield 'Fraction', v


SPECIALS = [('Float', '+0', lambda: Float(s=False, c=0, exp=0)), ('Float', '-0', lambda: Float(s=True, c=0, exp=0)),
            ('RealFloat', '-0', lambda: RealFloat(s=True, c=0, exp=5)), ('int', '+0', lambda: 0),
            ('float', '-0', lambda: -0.0), ('Fraction', '+0', lambda: Fraction(0)),
            ('Float', '+inf', lambda: Float(isinf=True)), ('Float', '-inf', lambda: Float(s=True, isinf=True)),
            ('float', '+inf', lambda: float('inf')), ('float', '-inf', lambda: float('-inf')),
            ('Float', 'nan', lambda: Float(isnan=True)), ('float', 'nan', lambda: float('nan'))]
SPECIAL_X = {'+0': X.zero(False), '-0': X.zero(True), '+inf': X.inf(False), '-inf': X.inf(True), 'nan': X.nan()}


class Check(BaseCheck):
    pid = 'C01'
    rule = ('(context configuration, mode, overflow mode, entry point, operand, operand form); configurations and the '
            'per-binade operand grid are enumerated completely.  nontrivial = distinct (configuration, mode, overflow, '
            'entry, operand) whose admissible outcome is inexact, an overflow arm, a substituted special or an error')
    assumptions = ['value sets of encodable formats are taken from decode() over all bit patterns (checked by C16)',
                   'RTE/RTO on overflow may go to infinity or to the largest value (documentation leaves it open)',
                   'sign carried by a substituted special value and flags of special operands are not judged',
                   'error type not judged beyond ValueError/OverflowError']

    def __init__(self, tier, seed):
        super().__init__(tier, seed)
        self.cfgs = quick_configs(seed) if tier == 'quick' else configs(tier)

    def bounds(self):
        fam = {}
        for c in self.cfgs:
            fam[c.family] = fam.get(c.family, 0) + 1
        return {'configurations': len(self.cfgs), 'by_family': fam, 'modes': 8,
                'grid': 'per binade, multiples of quantum/8 (+ quantum/3072, - quantum/7 on every 4th point)'}

    def shards(self):
        # one shard per (config index, mode-half)
        n = len(self.cfgs)
        return [(i, h) for i in range(n) for h in range(8)]

    # ---- one rounding ------------------------------------------------
    def check_one(self, r: ShardResult, cfg: Config, ctx, spec, mode, ovf, entry, n, form, obj, x: X, optext: str):
        r.count('evaluations')
        r.count('transitions')
        exact = entry == 'exact'
        if spec.label == 'Exp':
            outs = exp_model(spec, x, mode, ovf, n)
        else:
            outs = R.round_model(spec, x, mode, ovf, n)
        case = {'family': cfg.family, 'params': {k: str(v) for k, v in cfg.params.items()}, 'mode': mode,
                'overflow': ovf, 'entry': entry, 'n': n, 'form': form, 'operand': optext}
        arm = _arm(outs, x)
        sig = {'family': cfg.family, 'arm': arm}
        if spec.kind == 'real' and x.isfin and x.q.denominator & (x.q.denominator - 1):
            # a Float cannot hold a non-dyadic rational: REAL may refuse it ("or an error")
            outs = outs + [('ERR', None, None)]

        def bad(kind, detail):
            s = dict(sig)
            s['kind'] = kind
            if arm in ('overflow', 'special'):
                s['overflow_mode'] = ovf
            r.violate(s, case, f'{cfg.text()} rm={mode} ov={ovf} {entry}(n={n}) of {form}:{optext}: {detail}; '
                               f'admissible {_fmt_outs(outs)}')
        try:
            if entry == 'round':
                y = ctx.round(obj)
            elif entry == 'exact':
                y = ctx.round(obj, exact=True)
            elif entry == 'round_at':
                y = ctx.round_at(obj, n)
            elif entry == 'round_integer':
                y = ctx.round_integer(obj)
            else:
                raise AssertionError(entry)
        except (ValueError, OverflowError) as e:
            r.outcomes[f'{arm}:raises'] += 1
            if exact:
                # must raise iff every admissible outcome is inexact or an error
                if all(o[0] != 'ERR' and o[1] is False for o in outs) and not any(o[0] == 'ERR' for o in outs):
                    bad('exact-raised', f'exact=True raised {e!r} although the operand is representable')
                return
            if not any(o[0] == 'ERR' for o in outs):
                bad('raised', f'raised {e!r}')
            return
        except Exception as e:
            if spec.kind == 'real' and entry in ('round_at', 'round_integer'):
                return   # REAL documents that round_at is not offered
            bad('raised-other', f'raised {type(e).__name__}: {e}')
            return
        try:
            xy = to_x(y)
        except Exception as e:
            bad('result-type', f'returned {y!r}')
            return
        r.outcomes[f'{arm}:{xy.kind}'] += 1
        if exact and all(o[0] == 'ERR' or o[1] is True for o in outs):
            bad('exact-silent', f'exact=True returned {show(y)} although the rounding is inexact')
            return
        ok_val = [o for o in outs if o[0] != 'ERR' and o[0].same(xy)]
        if not ok_val:
            bad('value', f'returned {show(y)} = {xy}')
            return
        if not any((o[1] is None or o[1] == bool(y.inexact)) for o in ok_val):
            bad('inexact-flag', f'returned {xy} with inexact={y.inexact}')
        elif not any((o[2] is None or o[2] == bool(y.overflow)) for o in ok_val):
            bad('overflow-flag', f'returned {xy} with overflow={y.overflow}')
        # membership: model and implementation
        if not R.is_member(spec, xy):
            bad('not-member', f'returned {xy} which is not in the format')
        else:
            try:
                if not ctx.representable_under(y):
                    bad('representable_under', f'representable_under({show(y)}) is False for a rounding result')
            except Exception as e:
                bad('representable_under', f'representable_under({show(y)}) raised {e!r}')

    def run_config(self, r: ShardResult, cfg: Config, modes):
        quick = self.tier == 'quick'
        for ovf in cfg.overflow_modes():
            for mode in modes:
                try:
                    ctx, spec = cfg.build(mode, ovf)
                except ValueError as e:
                    r.count('rejected_configurations')
                    r.outcomes['constructor-rejects'] += 1
                    continue
                g = grid(spec, 4 if quick else 8)
                if spec.kind == 'fixed':
                    ns = [spec.nmin - 1, spec.nmin, spec.nmin + 1, spec.nmin + 3, -1]
                elif spec.emin is not None:
                    b = spec.emin - spec.p
                    ns = [b - 1, b, b + 1, b + 3, -1]
                else:
                    ns = [-3, -1, 0, 2]
                ns = sorted(set(ns))
                r.count('contexts')
                for mag in g:
                    for s in (False, True):
                        x = X.fin(-mag if s else mag)
                        optext = str(x.q)
                        nontriv = _arm(R.round_model(spec, x, mode, ovf, None) if spec.label != 'Exp'
                                       else exp_model(spec, x, mode, ovf, None), x) != 'exact'
                        r.count('states')
                        if nontriv:
                            r.count('nontrivial')
                        first = True
                        fs = list(forms(mag, s, self.tier))
                        if quick and len(fs) > 2:
                            rot = 1 + (mag.numerator + mag.denominator + int(s)) % (len(fs) - 1)
                            fs = [fs[0], fs[rot]]
                        nondyadic = bool(mag.denominator & (mag.denominator - 1))
                        for form, obj in fs:
                            self.check_one(r, cfg, ctx, spec, mode, ovf, 'round', None, form, obj, x, optext)
                            # positions, round_integer and exact=True are exercised on the first form of an
                            # operand; the other forms (conversion paths) go through `round`
                            if first:
                                if spec.kind != 'real':
                                    # quick: a non-dyadic operand visits one rotating position only
                                    nsel = ns if not (quick and nondyadic) else \
                                        [ns[(mag.numerator + mag.denominator) % len(ns)]]
                                    for n in nsel:
                                        self.check_one(r, cfg, ctx, spec, mode, ovf, 'round_at', n, form, obj, x, optext)
                                    self.check_one(r, cfg, ctx, spec, mode, ovf, 'round_integer', -1, form, obj, x,
                                                   optext)
                                self.check_one(r, cfg, ctx, spec, mode, ovf, 'exact', None, form, obj, x, optext)
                            first = False
                for form, name, mk in SPECIALS:
                    x = SPECIAL_X[name]
                    r.count('states')
                    if not x.iszero:
                        r.count('nontrivial')
                    self.check_one(r, cfg, ctx, spec, mode, ovf, 'round', None, form, mk(), x, name)
                    if spec.kind != 'real':
                        self.check_one(r, cfg, ctx, spec, mode, ovf, 'round_at', ns[1], form, mk(), x, name)
                    self.check_one(r, cfg, ctx, spec, mode, ovf, 'exact', None, form, mk(), x, name)

    def run_shard(self, shard) -> ShardResult:
        r = ShardResult()
        i, h = shard
        cfg = self.cfgs[i]
        modes = [MODES[h]]
        self.run_config(r, cfg, modes)
        if i % 40 == 0 and h == 0:
            r.sample({'configuration': cfg.text(), 'modes': modes, 'overflow_modes': cfg.overflow_modes(),
                      'entries': ['round', 'round_at(n)', 'round_integer', 'round(exact=True)']})
        return r

    def replay(self, case):
        P = {}
        for k, v in case['params'].items():
            if v in ('True', 'False'):
                P[k] = v == 'True'
            elif v == 'None':
                P[k] = None
            elif k == 'nan_kind' or v in ('inf', 'nan'):
                P[k] = v
            else:
                P[k] = Fraction(v) if '/' in v else int(v)
        cfg = Config(case['family'], P)
        ctx, spec = cfg.build(case['mode'], case['overflow'])
        name = case['operand']
        r = ShardResult()
        if name in SPECIAL_X:
            x = SPECIAL_X[name]
            objs = [(f, mk()) for f, nm, mk in SPECIALS if nm == name and f == case['form']]
        else:
            q = Fraction(name)
            x = X.fin(q)
            objs = [(f, o) for f, o in forms(abs(q), q < 0, 'thorough') if f == case['form']]
        for form, obj in objs:
            self.check_one(r, cfg, ctx, spec, case['mode'], case['overflow'], case['entry'], case['n'], form, obj, x,
                           name)
        if r.violations:
            return True, '\n'.join(v.detail for v in r.violations)
        return False, f'case {case}: implementation is within the admissible outcomes'


def _arm(outs, x: X) -> str:
    if not x.isfin:
        return 'special'
    if any(o[2] for o in outs) or (any(o[0] == 'ERR' for o in outs)):
        return 'overflow'
    if x.iszero:
        return 'zero'
    if any(o[1] for o in outs):
        return 'inexact'
    return 'exact'


def _fmt_outs(outs):
    return '{' + ', '.join(f'{o[0]}[inexact={o[1]},overflow={o[2]}]' for o in outs) + '}'


def exp_model(spec: R.Spec, x: X, mode: str, ovf: str, n):
    """ExpContext: members are 2^k (emin <= k <= emax) and NaN.  The class documents only
    that; what is below the smallest member is treated like the region above the largest
    (admissible: NaN or the nearest end)."""
    if x.isnan:
        return [(X.nan(), None, None)]
    if x.isinf:
        if x.s:
            return [(X.nan(), None, None)]
        return [(v, None, None) for v in spec.inf_sub]
    if x.iszero or x.q < 0:
        return [(X.nan(), None, None)]
    unb = R.Spec('float', p=1)
    lo, hi, kept, half, sticky = R.neighbours(unb, x.q, n)
    up = R.choose(kept, half, sticky, mode, False)
    mag = hi if up else lo
    inexact = bool(half or sticky)
    if mag == 0:
        return [(X.nan(), None, None)]
    if mag > spec.maxpos:
        if ovf == 'SATURATE':
            return [(X.fin(spec.maxpos), True, True)]
        t = R.toward_infinity_on_overflow(mode, False)
        outs = []
        if t in (True, None):
            outs.append((X.nan(), None, None))
        if t in (False, None):
            outs.append((X.fin(spec.maxpos), True, True))
        return outs
    if mag < spec.maxneg:   # maxneg holds the smallest member here
        if ovf == 'SATURATE':
            return [(X.fin(spec.maxneg), True, None)]
        return [(X.nan(), None, None), (X.fin(spec.maxneg), True, None)]
    return [(X.fin(mag), inexact, False)]
