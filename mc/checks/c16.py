"""
C16 - Encodings and ordinals are order-preserving bijections.

Space (complete for the stated widths):
  * every configuration of EFloatContext(es, nbits, inf, nan_kind, eoffset) with
    nbits <= 7 (quick) / <= 9 (thorough), es in -1..nbits (so the ill-formed
    corners are in the box), both inf settings, the four NaN kinds, a set of
    exponent offsets; IEEEContext(es, nbits) over the same widths;
    FixedContext(signed, scale, nbits) and SMFixedContext(scale, nbits) for
    nbits <= 8 and a few scales; ExpContext(nbits, eoffset) for nbits <= 6
    (thorough adds 7 and 8 at eoffset 0);
  * for each accepted configuration: EVERY bit pattern, EVERY value of the
    decoded value set in several unnormalised operand forms, a set of
    non-members built from the sorted value set, and the min/max queries;
  * all 65 536 binary16 patterns (model and numpy.float16; thorough also runs the
    value-set checks of the small formats on binary16);
  * binary32 / binary64: {every exponent} x {mantissa 0, 1, half, max-1, max} x
    both signs against struct / numpy (a declared structured subset of those
    two spaces, not all 2^32 / 2^64 patterns).

Oracle: mc.model.encoding - decoders written from the published layouts; the
value set of a format is {decode(b)}; extremes, ordinals (by sorting),
neighbours and membership are derived from that set.

Not demanded (the statement leaves it open): which integers the ordinals are
(only: strictly increasing, contiguous, both zeros on one ordinal); the
exception type at the ends of next_up / next_down (raising, or the correctly
signed infinity, are both accepted; a finite value or NaN is not); what the
queries do when no value of the requested sign exists (raise or a zero);
behaviour of encode / normalize / to_ordinal on non-members; NaN payload and
sign; stepping *from* an infinity.
"""

from __future__ import annotations

import math
import struct
from fractions import Fraction

from ..engine.runner import BaseCheck, ShardResult
from ..engine.adapt import to_x
from ..model.xreal import X
from ..model.encoding import (NAN_KINDS, EFloatLayout, ExpLayout, FixedLayout, SMFixedLayout, ValueSet,
                              make_layout, pow2)

import fpy2 as fp
from fpy2.number import Float, RealFloat
from fpy2.number.context.efloat import EFloatNanKind

REJECT = (ValueError,)                 # how a constructor says "no such format"
END_OK = (ValueError, TypeError)       # documented ways of refusing a call


# ---------------------------------------------------------------------------
# configurations
# ---------------------------------------------------------------------------

def ctor_text(family: str, p: dict) -> str:
    if family == 'efloat':
        return f"EFloatContext({p['es']}, {p['nbits']}, {p['inf']}, EFloatNanKind.{p['kind']}, {p['eoffset']})"
    if family in ('ieee', 'binary16', 'binary32', 'binary64'):
        return f"IEEEContext({p['es']}, {p['nbits']})"
    if family == 'fixed':
        return f"FixedContext({p['signed']}, {p['scale']}, {p['nbits']})"
    if family == 'smfixed':
        return f"SMFixedContext({p['scale']}, {p['nbits']})"
    if family == 'exp':
        return f"ExpContext({p['nbits']}, {p['eoffset']})"
    raise ValueError(family)


def build_ctx(family: str, p: dict):
    if family == 'efloat':
        return fp.EFloatContext(p['es'], p['nbits'], p['inf'], EFloatNanKind[p['kind']], p['eoffset'])
    if family in ('ieee', 'binary16', 'binary32', 'binary64'):
        return fp.IEEEContext(p['es'], p['nbits'])
    if family == 'fixed':
        return fp.FixedContext(p['signed'], p['scale'], p['nbits'])
    if family == 'smfixed':
        return fp.SMFixedContext(p['scale'], p['nbits'])
    if family == 'exp':
        return fp.ExpContext(p['nbits'], p['eoffset'])
    raise ValueError(family)


def layout_of(family: str, p: dict):
    if family.startswith('binary'):
        return make_layout('ieee', p)
    return make_layout(family, p)


def tier_bounds(tier: str) -> dict:
    if tier == 'quick':
        return {'efloat_nbits': 7, 'efloat_extra_nbits': 8, 'eoffsets': [-3, 0, 2], 'fixed_nbits': 8,
                'scales': [-2, 0, 1], 'exp_nbits': 6, 'exp_eoffsets': [-2, 0, 3], 'exp_extra': []}
    return {'efloat_nbits': 9, 'efloat_extra_nbits': None, 'eoffsets': [-3, -1, 0, 1, 2, 6], 'fixed_nbits': 10,
            'scales': [-5, -2, -1, 0, 1, 3], 'exp_nbits': 6, 'exp_eoffsets': [-5, -2, -1, 0, 1, 3, 8],
            'exp_extra': [(7, 0), (8, 0), (8, -1)], 'efloat_wide': [9]}


def configs(tier: str, seed: int) -> list[tuple[str, dict]]:
    B = tier_bounds(tier)
    out: list[tuple[str, dict]] = []

    def efloat_box(nbits_list, eoffsets, pick=None):
        k = 0
        for nbits in nbits_list:
            for es in range(-1, nbits + 1):
                for inf in (False, True):
                    for kind in NAN_KINDS:
                        for eo in eoffsets:
                            k += 1
                            if pick is not None and not pick(k):
                                continue
                            out.append(('efloat', {'es': es, 'nbits': nbits, 'inf': inf, 'kind': kind, 'eoffset': eo}))

    efloat_box(range(0, B['efloat_nbits'] + 1), B['eoffsets'])
    for nb in B.get('efloat_wide', []):
        efloat_box([nb], [0])                       # thorough: one width beyond the bound, eoffset 0
    if B['efloat_extra_nbits']:
        # the only place the seed matters: which quarter of the next width the quick tier adds
        efloat_box([B['efloat_extra_nbits']], [0, -1], pick=lambda k: k % 4 == seed % 4)
    for nbits in range(0, B['efloat_nbits'] + 1):
        for es in range(-1, nbits + 1):
            out.append(('ieee', {'es': es, 'nbits': nbits}))
    for nbits in range(0, B['fixed_nbits'] + 1):
        for scale in B['scales']:
            for signed in (False, True):
                out.append(('fixed', {'signed': signed, 'scale': scale, 'nbits': nbits}))
            out.append(('smfixed', {'scale': scale, 'nbits': nbits}))
    for nbits in range(0, B['exp_nbits'] + 1):
        for eo in B['exp_eoffsets']:
            out.append(('exp', {'nbits': nbits, 'eoffset': eo}))
    for nbits, eo in B['exp_extra']:
        out.append(('exp', {'nbits': nbits, 'eoffset': eo}))
    return out


# ---------------------------------------------------------------------------
# helpers
# ---------------------------------------------------------------------------

def frac_str(q: Fraction) -> str:
    return f'{q.numerator}/{q.denominator}'


def x_str(x: X) -> str:
    if x.isnan:
        return 'nan'
    if x.isinf:
        return '-inf' if x.s else '+inf'
    if x.q == 0:
        return '-0' if x.s else '+0'
    return frac_str(x.q)


def x_parse(t: str) -> X:
    if t == 'nan':
        return X.nan()
    if t in ('+inf', '-inf'):
        return X.inf(t[0] == '-')
    if t in ('+0', '-0'):
        return X.zero(t[0] == '-')
    return X.fin(Fraction(t))


def dyadic_parts(q: Fraction) -> tuple[int, int]:
    """|q| = c * 2^exp with c odd (q != 0, q dyadic)."""
    n, d = abs(q.numerator), q.denominator
    assert d & (d - 1) == 0, q
    exp = -(d.bit_length() - 1)
    while n % 2 == 0:
        n //= 2
        exp += 1
    return n, exp


def mk_float(x: X, form: int = 0) -> Float:
    """A context-less Float denoting x.  form k > 0: significand shifted left by k
    (an unnormalised encoding of the same number); for zeros: different exponents."""
    if x.isnan:
        return Float(isnan=True, s=bool(form % 2))
    if x.isinf:
        return Float(isinf=True, s=x.s)
    if x.q == 0:
        return Float(s=x.s, c=0, exp=(0, -7, 5, 1)[form % 4])
    c, exp = dyadic_parts(x.q)
    return Float(s=x.s, c=c << form, exp=exp - form)


def mk_real(q: Fraction) -> RealFloat:
    if q == 0:
        return RealFloat(s=False, c=0, exp=0)
    c, exp = dyadic_parts(q)
    return RealFloat(s=q < 0, c=c, exp=exp)


def fl_str(f: Float) -> str:
    if f.isnan:
        return f'Float(isnan=True, s={f.s})'
    if f.isinf:
        return f'Float(isinf=True, s={f.s})'
    return f'Float(s={f.s}, exp={f.exp}, c={f.c})'


FORMS = (0, 1, 3)


class Collector(ShardResult):
    """keeps every violation (used by replay, where nothing may be dropped)."""

    def violate(self, signature, case, detail):
        from ..engine.runner import Violation
        self.counts['violations_raw'] += 1
        self.violations.append(Violation(signature, case, detail))


# ---------------------------------------------------------------------------
# one format
# ---------------------------------------------------------------------------

# value sets worth sharing between the shards of one format (filled by the parent before the
# pool forks; pure model data, nothing of fpy2 in it)
_VS_CACHE: dict = {}


def precompute(family: str, p: dict):
    key = (family, tuple(sorted(p.items())))
    if key not in _VS_CACHE:
        fc = FormatChecker(ShardResult(), family, p)
        fc.V = ValueSet(fc.L)
        fc._outsiders = None
        _VS_CACHE[key] = (fc.V, fc.outsiders())


class FormatChecker:
    """All pointwise checks of one configuration against its decoded value set."""

    def __init__(self, r: ShardResult, family: str, p: dict):
        self.r, self.family, self.p = r, family, dict(p)
        self.text = ctor_text(family, p)
        self.L = layout_of(family, p)
        self.ctx = None
        self.V: ValueSet | None = None

    # ---- plumbing -------------------------------------------------------
    def shape(self) -> dict:
        """extra signature keys naming the configuration class (not the individual configuration)."""
        L = self.L
        if isinstance(L, EFloatLayout):
            pp = L.nbits - L.es
            deg = 'nbits<=2' if L.nbits <= 2 else 'p=1' if pp == 1 else 'es=0' if L.es == 0 else 'no'
            return {'nan_kind': L.kind, 'degenerate': deg}
        if isinstance(L, FixedLayout):
            return {'signed': L.signed}
        return {}

    def bad(self, op: str, kind: str, cls: str, at: list, detail: str):
        sig = {'family': self.family, 'op': op, 'kind': kind, 'class': cls}
        sig.update(self.shape())
        case = {'family': self.family, 'params': self.p, 'op': op, 'kind': kind, 'at': at}
        self.r.violate(sig, case, f'{self.text}: {detail}')

    def call(self, op: str, cls: str, at: list, fn, what: str):
        """run an API call that must succeed; a raise is a violation."""
        self.r.count('transitions')
        try:
            return True, fn()
        except Exception as e:  # noqa: BLE001
            self.bad(op, 'raises ' + type(e).__name__, cls, at, f'{what} raised {e!r}')
            return False, None

    def pattern_class(self, b: int) -> str:
        v = self.V.by_pattern[b]
        if v.isnan:
            return 'nan'
        if v.isinf:
            return 'inf'
        if v.q == 0:
            return 'zero'
        L = self.L
        if isinstance(L, EFloatLayout):
            _, E, _ = L.fields(b)
            if v.q == self.V.reals[-1] or v.q == self.V.reals[0]:
                return 'extreme'
            if E == 0:
                return 'subnormal'
            if E >= (1 << L.es) - 2:
                return 'top-binades'
            return 'normal'
        return 'finite'

    def is_edge_word(self, b: int) -> bool:
        """fixed-point / exponential words off the plain path: sign bit set, first and last codes."""
        n = self.L.nbits
        return bool((b >> (n - 1)) & 1) or b in (0, 1, (1 << n) - 1, (1 << n) - 2, (1 << (n - 1)) - 1)

    def value_class(self, v: X) -> str:
        if v.isnan:
            return 'nan'
        if v.isinf:
            return 'inf'
        if v.q == 0:
            return 'zero'
        if not isinstance(self.L, EFloatLayout):
            return 'finite'
        if v.q == self.V.reals[-1] or v.q == self.V.reals[0]:
            return 'extreme'
        if v.q == self.V.minmag(False) or v.q == self.V.minmag(True):
            return 'least-magnitude'
        return self.pattern_class(self.V.patterns[v.key()][0])

    # ---- configuration --------------------------------------------------
    def open(self) -> bool:
        """construct; judge acceptance against the layout.  True if there is a format to explore."""
        r, fam = self.r, self.family
        r.count('configs')
        r.count('evaluations')
        r.count('states')
        usable = self.L.usable()
        stage = 'constructor'
        try:
            r.count('transitions')
            ctx = build_ctx(fam, self.p)
            stage = 'format()'
            ctx.format()
            accepted = True
        except REJECT as e:
            accepted, why = False, e
        except Exception as e:  # noqa: BLE001
            self.bad('construct', 'raises ' + type(e).__name__, 'config', ['config'], f'{stage} raised {e!r}')
            return False
        if not accepted:
            r.count('configs_rejected')
            r.count('nontrivial')
            if usable and fam in ('efloat', 'ieee'):
                self.bad('construct', 'rejects-usable-layout', 'config', ['config'],
                         f'{stage} raised {why!r} but the layout has a usable value set '
                         f'(+0 at the all-zero word, every promised special has a code)')
            elif usable:
                # degenerate widths of the fixed/exp families whose rejection the classes state themselves
                r.count('rejected_though_layout_describable')
                r.outcomes[f'{fam}:rejected-degenerate({stage},nbits={self.p["nbits"]})'] += 1
            else:
                r.outcomes[f'{fam}:rejected-unusable'] += 1
            return False
        if not usable:
            r.count('nontrivial')
            self.bad('construct', 'accepts-unusable-layout', 'config', ['config'],
                     'constructor accepted a layout without a usable value set '
                     '(a special code takes the all-zero word, or a promised NaN/inf has no code)')
            return False
        r.count('configs_accepted')
        r.outcomes[f'{fam}:accepted'] += 1
        self.ctx = ctx
        self.fmt = ctx.format()
        key = (self.family, tuple(sorted(self.p.items())))
        cached = _VS_CACHE.get(key)
        self.V = cached[0] if cached else ValueSet(self.L)
        self.values = [self.V.by_pattern[bs[0]] for bs in self.V.patterns.values()]   # distinct values, pattern order
        self._ord_cache: dict[Fraction, int] = {}
        self._outsiders = cached[1] if cached else None
        return True

    # ---- every pattern --------------------------------------------------
    def do_pattern(self, b: int):
        r, V, ctx = self.r, self.V, self.ctx
        want = V.by_pattern[b]
        cls = self.pattern_class(b)
        at = ['pattern', b]
        r.count('evaluations')
        r.count('states')
        if cls != 'normal' and not (cls == 'finite' and not self.is_edge_word(b)):
            r.count('nontrivial')
        ok, d = self.call('decode', cls, at, lambda: ctx.decode(b), f'decode({b:#x})')
        if not ok:
            return
        try:
            xd = to_x(d)
        except Exception as e:  # noqa: BLE001
            self.bad('decode', 'result-type', cls, at, f'decode({b:#x}) returned {d!r}: {e!r}')
            return
        r.outcomes[f'{self.family}:decode:{cls}'] += 1
        if not want.same(xd):
            self.bad('decode', 'value', cls, at,
                     f'decode({b:#0{V.layout.nbits + 2}b}) = {fl_str(d)} denotes {xd}; layout says {want}')
            return
        # the pattern is the encoding of what it decodes to (up to NaN payload)
        ok, e = self.call('encode', cls, at, lambda: ctx.encode(d), f'encode(decode({b:#x}))')
        if ok:
            if want.isnan:
                good = isinstance(e, int) and 0 <= e < len(V.by_pattern) and V.by_pattern[e].isnan
            else:
                good = (e == b)
            if not good:
                self.bad('encode', 'encode-of-decode', cls, at,
                         f'encode(decode({b:#x})) = {e!r}; decode gave {fl_str(d)} = {want}')
        # a decoded value is a member (format level, without the same-context shortcut)
        bare = Float(x=d, ctx=None)
        ok, rep = self.call('representable', cls, at, lambda: self.fmt.representable_in(bare),
                            f'representable_in({fl_str(bare)})')
        if ok and rep is not True:
            self.bad('representable', 'member-rejected', cls, at,
                     f'representable_in({fl_str(bare)}) = {rep!r} but pattern {b:#x} decodes to it')

    # ---- every value, in several operand forms ----------------------------
    def ordinal_of(self, q: Fraction):
        if q not in self._ord_cache:
            x = mk_float(X.fin(q), 0)
            self.r.count('transitions')
            self._ord_cache[q] = self.ctx.to_ordinal(x)
        return self._ord_cache[q]

    def do_value(self, i: int):
        r, V, ctx = self.r, self.V, self.ctx
        v = self.values[i]
        cls = self.value_class(v)
        pats = V.patterns[v.key()]
        vs = x_str(v)
        r.count('states')
        if cls not in ('normal', 'finite'):
            r.count('nontrivial')
        ords = {}
        for form in FORMS:
            if (v.isnan or v.isinf) and form > 1:
                continue
            at = ['value', vs, form]
            x = mk_float(v, form)
            xs = fl_str(x)
            r.count('evaluations')
            if form > 0:
                r.count('unnormalised_operand_forms')
            # membership, both entry points
            for name, fn in (('representable_in', lambda: self.fmt.representable_in(x)),
                             ('representable_under', lambda: ctx.representable_under(x))):
                ok, rep = self.call('representable', cls, at, fn, f'{name}({xs})')
                if ok and rep is not True:
                    self.bad('representable', 'member-rejected', cls, at,
                             f'{name}({xs}) = {rep!r}; {vs} is decode({pats[0]:#x})')
            # encode, then decode back
            ok, e = self.call('encode', cls, at, lambda: ctx.encode(x), f'encode({xs})')
            if ok:
                if not (isinstance(e, int) and 0 <= e < len(V.by_pattern)):
                    self.bad('encode', 'not-a-pattern', cls, at, f'encode({xs}) = {e!r}')
                else:
                    if v.isnan:
                        good = V.by_pattern[e].isnan
                    else:
                        good = e in pats
                    if not good:
                        self.bad('encode', 'pattern', cls, at,
                                 f'encode({xs}) = {e:#x} which the layout reads as {V.by_pattern[e]}; '
                                 f'the value {vs} has pattern(s) {[hex(t) for t in pats]}')
                    ok2, d = self.call('decode', cls, at, lambda: ctx.decode(e), f'decode(encode({xs}))')
                    if ok2:
                        xd = to_x(d)
                        if not v.same(xd):
                            self.bad('decode', 'decode-of-encode', cls, at,
                                     f'decode(encode({xs})) = decode({e:#x}) = {fl_str(d)} denotes {xd}; expected {vs}')
            # normalisation keeps the value and yields a canonical member
            ok, y = self.call('normalize', cls, at, lambda: ctx.normalize(x), f'normalize({xs})')
            if ok:
                xy = to_x(y)
                if not v.same(xy):
                    self.bad('normalize', 'value', cls, at, f'normalize({xs}) = {fl_str(y)} denotes {xy}; expected {vs}')
                else:
                    ok2, c = self.call('canonical_under', cls, at, lambda: ctx.canonical_under(y),
                                       f'canonical_under(normalize({xs}))')
                    if ok2 and c is not True:
                        self.bad('canonical_under', 'normalize-not-canonical', cls, at,
                                 f'canonical_under({fl_str(y)}) = {c!r} for the result of normalize({xs})')
                    ok3, rep = self.call('representable', cls, at,
                                         lambda: self.fmt.representable_in(Float(x=y, ctx=None)),
                                         f'representable_in(normalize({xs}))')
                    if ok3 and rep is not True:
                        self.bad('representable', 'normalized-member-rejected', cls, at,
                                 f'representable_in({fl_str(y)}) = {rep!r} for the result of normalize({xs})')
            if not v.isfin:
                continue
            # ordinal
            ok, o = self.call('to_ordinal', cls, at, lambda: ctx.to_ordinal(x), f'to_ordinal({xs})')
            if ok:
                if not isinstance(o, int) or isinstance(o, bool):
                    self.bad('to_ordinal', 'not-an-int', cls, at, f'to_ordinal({xs}) = {o!r}')
                else:
                    ords[form] = o
            # neighbours
            self.step(x, xs, v, cls, at, up=True)
            self.step(x, xs, v, cls, at, up=False)
        if not v.isfin or not ords:
            return
        at = ['value', vs, 0]
        if len(set(ords.values())) != 1:
            self.bad('to_ordinal', 'depends-on-operand-form', cls, at,
                     f'to_ordinal of the forms of {vs} gives {ords}')
            return
        o = next(iter(ords.values()))
        # both zeros on one ordinal
        if v.q == 0 and V.has_pzero and V.has_nzero and v.s:
            try:
                oz = ctx.to_ordinal(mk_float(X.zero(False)))
                r.count('transitions')
                if oz != o:
                    self.bad('to_ordinal', 'zeros-differ', cls, at, f'to_ordinal(-0) = {o}, to_ordinal(+0) = {oz}')
            except Exception:  # noqa: BLE001  (reported where +0 is the subject)
                pass
        # strictly increasing and contiguous: the next larger value sits exactly one ordinal up
        nxt = V.up(v.q)
        if nxt is not None and not (v.q == 0 and v.s and V.has_pzero):
            try:
                on = self.ordinal_of(nxt)
            except Exception:  # noqa: BLE001  (reported where that value is the subject)
                on = None
            if on is not None:
                if on <= o:
                    self.bad('to_ordinal', 'not-increasing', cls, at,
                             f'to_ordinal({vs}) = {o} but the next larger value {frac_str(nxt)} has ordinal {on}')
                elif on != o + 1:
                    self.bad('to_ordinal', 'gap', cls, at,
                             f'to_ordinal({vs}) = {o} but the next larger value {frac_str(nxt)} has ordinal {on}')
        # from_ordinal is the inverse
        ok, y = self.call('from_ordinal', cls, at, lambda: ctx.from_ordinal(o), f'from_ordinal({o})')
        if ok:
            xy = to_x(y)
            if not (xy.isfin and xy.q == v.q and V.contains(xy)):
                self.bad('from_ordinal', 'not-inverse', cls, at,
                         f'from_ordinal(to_ordinal({vs}) = {o}) = {fl_str(y)} denotes {xy}')
        # the ends of the range
        for end, edge, step in (('top', V.up(v.q) is None, 1), ('bottom', V.down(v.q) is None, -1)):
            if not edge or (v.q == 0 and v.s and V.has_pzero):
                continue
            r.count('end_of_range_probes')
            for infval in (False, True):
                r.count('transitions')
                try:
                    y = ctx.from_ordinal(o + step, infval)
                except END_OK:
                    r.outcomes[f'{self.family}:from_ordinal:{end}+1,infval={infval}:raises'] += 1
                    continue
                except Exception as e:  # noqa: BLE001
                    self.bad('from_ordinal', 'end raises ' + type(e).__name__, cls, at,
                             f'from_ordinal({o + step}, infval={infval}) one past the {end} raised {e!r}')
                    continue
                xy = to_x(y)
                r.outcomes[f'{self.family}:from_ordinal:{end}+1,infval={infval}:{xy.kind}'] += 1
                if not (xy.isinf and xy.s == (step < 0)):
                    self.bad('from_ordinal', 'past-the-end', cls, at,
                             f'from_ordinal({o + step}, infval={infval}) is one past the {end} ordinal {o} '
                             f'but returned {fl_str(y)} = {xy}')
            # documented: with infval=True the infinities sit one ordinal past the extreme values
            has_inf = V.has_pinf if step > 0 else V.has_ninf
            if has_inf:
                xi = Float(isinf=True, s=step < 0)
                ok, oi = self.call('to_ordinal', 'inf', at, lambda: ctx.to_ordinal(xi, True),
                                   f'to_ordinal({fl_str(xi)}, infval=True)')
                if ok and oi != o + step:
                    self.bad('to_ordinal', 'infval-ordinal', 'inf', at,
                             f'to_ordinal({fl_str(xi)}, infval=True) = {oi}; the {end} value {vs} has ordinal {o}')
                ok, y = self.call('from_ordinal', 'inf', at, lambda: ctx.from_ordinal(o + step, True),
                                  f'from_ordinal({o + step}, infval=True)')
                if ok:
                    xy = to_x(y)
                    if not (xy.isinf and xy.s == (step < 0)):
                        self.bad('from_ordinal', 'infval-ordinal', 'inf', at,
                                 f'from_ordinal({o + step}, infval=True) = {fl_str(y)}; expected the infinity')

    def step(self, x: Float, xs: str, v: X, cls: str, at: list, up: bool):
        """next_up / next_down from a finite member."""
        r, V, ctx = self.r, self.V, self.ctx
        name = 'next_up' if up else 'next_down'
        want = V.up(v.q) if up else V.down(v.q)
        for allow_inf in (False, True):
            if want is not None and allow_inf:
                continue
            r.count('transitions')
            fn = ctx.next_up if up else ctx.next_down
            try:
                y = fn(x, allow_inf) if allow_inf else fn(x)
            except Exception as e:  # noqa: BLE001
                if want is None and isinstance(e, END_OK):
                    r.outcomes[f'{self.family}:{name}:end,allow_inf={allow_inf}:raises'] += 1
                    has_inf = V.has_pinf if up else V.has_ninf
                    if allow_inf and has_inf:
                        self.bad(name, 'end-no-infinity', cls, at,
                                 f'{name}({xs}, allow_inf=True) raised {e!r}; {x_str(v)} is the last finite value '
                                 f'and the format has the infinity beyond it')
                    continue
                self.bad(name, 'raises ' + type(e).__name__, cls, at,
                         f'{name}({xs}) raised {e!r}; the value set has {frac_str(want) if want is not None else "nothing"} next')
                continue
            xy = to_x(y)
            if want is None:
                r.outcomes[f'{self.family}:{name}:end,allow_inf={allow_inf}:{xy.kind}'] += 1
                if not (xy.isinf and xy.s == (not up)):
                    self.bad(name, 'past-the-end', cls, at,
                             f'{name}({xs}, allow_inf={allow_inf}) = {fl_str(y)} = {xy} but {x_str(v)} is the '
                             f'{"largest" if up else "smallest"} value of the decoded set')
                continue
            if not (xy.isfin and xy.q == want and V.contains(xy)):
                self.bad(name, 'wrong-neighbour', cls, at,
                         f'{name}({xs}) = {fl_str(y)} = {xy}; the next value of the decoded set '
                         f'{"above" if up else "below"} {x_str(v)} is {frac_str(want)}')

    # ---- non-members ------------------------------------------------------
    def outsiders(self) -> list[X]:
        if self._outsiders is None:
            V = self.V
            out = [X.fin(q) for q in V.outsiders()]
            if not V.has_nan:
                out.append(X.nan())
            if not V.has_pinf:
                out.append(X.inf(False))
            if not V.has_ninf:
                out.append(X.inf(True))
            if not V.has_nzero:
                out.append(X.zero(True))
            if not V.has_pzero:
                out.append(X.zero(False))
            self._outsiders = out
        return self._outsiders

    def do_outsider(self, j: int):
        r, ctx = self.r, self.ctx
        v = self.outsiders()[j]
        cls = 'outside:' + ('nan' if v.isnan else 'inf' if v.isinf else 'zero' if v.q == 0 else
                            'beyond' if (v.q > self.V.reals[-1] or v.q < self.V.reals[0]) else 'between')
        vs = x_str(v)
        r.count('states')
        r.count('evaluations')
        r.count('nontrivial')
        for form in (0, 2):
            if (v.isnan or v.isinf) and form:
                continue
            at = ['outsider', vs, form]
            x = mk_float(v, form)
            xs = fl_str(x)
            calls = [('representable_in', lambda: self.fmt.representable_in(x)),
                     ('representable_under', lambda: ctx.representable_under(x))]
            if v.isfin and v.q != 0 and form == 0:
                xr = mk_real(v.q)
                calls.append(('representable_in[RealFloat]', lambda: self.fmt.representable_in(xr)))
            for name, fn in calls:
                ok, rep = self.call('representable', cls, at, fn, f'{name}({xs})')
                if ok:
                    r.outcomes[f'{self.family}:{cls}:{rep!r}'] += 1
                    if rep is not False:
                        self.bad('representable', 'non-member-accepted', cls, at,
                                 f'{name}({xs}) = {rep!r} but no bit pattern decodes to {vs}')

    # ---- min / max queries --------------------------------------------------
    def do_queries(self):
        r, V, ctx = self.r, self.V, self.ctx
        r.count('states')
        r.count('evaluations')
        r.count('nontrivial')
        at = ['queries']

        def signed_query(name, fn, want):
            for s in (False, True):
                w = want(s)
                r.count('transitions')
                try:
                    y = fn(s)
                except END_OK as e:
                    r.outcomes[f'{self.family}:{name}(s={s}):raises'] += 1
                    if w is not None:
                        self.bad(name, 'raises ' + type(e).__name__, 'query', at + [name, s],
                                 f'{name}(s={s}) raised {e!r}; the decoded set says {frac_str(w)}')
                    continue
                except Exception as e:  # noqa: BLE001
                    self.bad(name, 'raises ' + type(e).__name__, 'query', at + [name, s], f'{name}(s={s}) raised {e!r}')
                    continue
                xy = to_x(y)
                r.outcomes[f'{self.family}:{name}(s={s}):{"none->zero" if w is None else "value"}'] += 1
                if w is None:
                    good = xy.isfin and xy.q == 0
                else:
                    good = xy.isfin and xy.q == w
                if not good:
                    self.bad(name, 'value', 'query', at + [name, s],
                             f'{name}(s={s}) = {fl_str(y)} = {xy}; the decoded set says '
                             f'{frac_str(w) if w is not None else "no non-zero value of that sign"}')

        signed_query('maxval', lambda s: ctx.maxval(s), V.maxmag)
        signed_query('minval', lambda s: ctx.minval(s), V.minmag)
        for name, fn, w in (('largest', ctx.largest, V.largest()), ('smallest', ctx.smallest, V.smallest())):
            ok, y = self.call(name, 'query', at + [name], fn, f'{name}()')
            if ok:
                xy = to_x(y)
                if not (xy.isfin and xy.q == w and V.contains(xy)):
                    self.bad(name, 'value', 'query', at + [name],
                             f'{name}() = {fl_str(y)} = {xy}; the decoded set says {frac_str(w)}')

    # ---- everything ---------------------------------------------------------
    def run_all(self, k: int = 0, n: int = 1):
        """all points of this format whose index is k mod n (n > 1 only for binary16)."""
        if not self.open():
            return
        for b in range(k, len(self.V.by_pattern), n):
            self.do_pattern(b)
        for i in range(k, len(self.values), n):
            self.do_value(i)
        for j in range(k, len(self.outsiders()), n):
            self.do_outsider(j)
        if k == 0:
            self.do_queries()

    def run_at(self, at: list):
        if at[0] == 'config':
            self.open()
            return
        if not self.open():
            return
        if at[0] == 'pattern':
            self.do_pattern(int(at[1]))
        elif at[0] == 'value':
            keys = [x_str(v) for v in self.values]
            self.do_value(keys.index(at[1]))
        elif at[0] == 'outsider':
            keys = [x_str(v) for v in self.outsiders()]
            self.do_outsider(keys.index(at[1]))
        elif at[0] == 'queries':
            self.do_queries()


# ---------------------------------------------------------------------------
# the platform's own encodings (binary16 / 32 / 64)
# ---------------------------------------------------------------------------

PLATFORM = {'binary16': (5, 16), 'binary32': (8, 32), 'binary64': (11, 64)}


def platform_float(nbits: int, b: int) -> float:
    if nbits == 16:
        return struct.unpack('<e', struct.pack('<H', b))[0]
    if nbits == 32:
        return struct.unpack('<f', struct.pack('<I', b))[0]
    return struct.unpack('<d', struct.pack('<Q', b))[0]


def platform_bits(nbits: int, f: float) -> int:
    if nbits == 16:
        return struct.unpack('<H', struct.pack('<e', f))[0]
    if nbits == 32:
        return struct.unpack('<I', struct.pack('<f', f))[0]
    return struct.unpack('<Q', struct.pack('<d', f))[0]


def numpy_value(nbits: int, b: int) -> float:
    import numpy as np
    dt = {16: (np.uint16, np.float16), 32: (np.uint32, np.float32), 64: (np.uint64, np.float64)}[nbits]
    return float(np.array([b], dtype=dt[0]).view(dt[1])[0])


def numpy_next(nbits: int, b: int, up: bool) -> float:
    import numpy as np
    dt = {16: (np.uint16, np.float16), 32: (np.uint32, np.float32), 64: (np.uint64, np.float64)}[nbits]
    f = np.array([b], dtype=dt[0]).view(dt[1])[0]
    with np.errstate(over='ignore'):
        return float(np.nextafter(f, dt[1](np.inf if up else -np.inf)))


def structured_patterns(es: int, nbits: int) -> list[int]:
    m = nbits - 1 - es
    mants = sorted({0, 1, 1 << (m - 1), (1 << m) - 2, (1 << m) - 1})
    out = []
    for s in (0, 1):
        for E in range(1 << es):
            for M in mants:
                out.append((s << (nbits - 1)) | (E << m) | M)
    return out


class PlatformChecker:
    """IEEEContext(es, nbits) against the machine's binary16/32/64, pattern by pattern."""

    def __init__(self, r: ShardResult, family: str):
        self.r, self.family = r, family
        self.es, self.nbits = PLATFORM[family]
        self.p = {'es': self.es, 'nbits': self.nbits}
        self.L = EFloatLayout(self.es, self.nbits, True, 'IEEE_754', 0)
        self.ctx = fp.IEEEContext(self.es, self.nbits)
        self.fmt = self.ctx.format()
        self.text = ctor_text(family, self.p)
        self.magmask = (1 << (self.nbits - 1)) - 1

    def bad(self, op, kind, cls, b, detail):
        sig = {'family': self.family, 'op': op, 'kind': kind, 'class': cls}
        case = {'family': self.family, 'params': self.p, 'op': op, 'kind': kind, 'at': ['pattern', b]}
        self.r.violate(sig, case, f'{self.text}: {detail}')

    def cls(self, b):
        _, E, M = self.L.fields(b)
        if E == (1 << self.es) - 1:
            return 'inf' if M == 0 else 'nan'
        if E == 0:
            return 'zero' if M == 0 else 'subnormal'
        if E >= (1 << self.es) - 3:
            return 'top-binades'
        return 'normal'

    def do_pattern(self, b: int):
        r, ctx = self.r, self.ctx
        cls = self.cls(b)
        r.count('states')
        r.count('evaluations')
        if cls != 'normal':
            r.count('nontrivial')
        model = self.L.decode(b)
        pf = platform_float(self.nbits, b)
        plat = X.from_pyfloat(pf)
        nv = X.from_pyfloat(numpy_value(self.nbits, b))
        if not (model.same(plat) and model.same(nv)):
            raise AssertionError(f'harness: layout model {model} vs struct {plat} vs numpy {nv} at {b:#x}')
        r.count('transitions')
        try:
            d = ctx.decode(b)
            xd = to_x(d)
        except Exception as e:  # noqa: BLE001
            self.bad('decode', 'raises ' + type(e).__name__, cls, b, f'decode({b:#x}) raised {e!r}')
            return
        r.outcomes[f'{self.family}:decode:{cls}'] += 1
        if not plat.same(xd):
            self.bad('decode', 'value', cls, b, f'decode({b:#x}) = {fl_str(d)} = {xd}; the platform reads {pf!r}')
            return
        # encode back; encode the platform's own float
        for what, x in (('decode', d), ('from_float', Float.from_float(pf))):
            r.count('transitions')
            try:
                e = ctx.encode(x)
            except Exception as ex:  # noqa: BLE001
                self.bad('encode', 'raises ' + type(ex).__name__, cls, b, f'encode({what} of {b:#x}) raised {ex!r}')
                continue
            good = self.L.decode(e).isnan if model.isnan else e == b
            if not good:
                self.bad('encode', 'pattern', cls, b, f'encode({fl_str(x)}) = {e:#x}; the platform encodes {pf!r} as {b:#x}')
        if model.isnan:
            return
        r.count('transitions')
        try:
            rep = self.fmt.representable_in(Float(x=d, ctx=None))
            if rep is not True:
                self.bad('representable', 'member-rejected', cls, b, f'representable_in(decode({b:#x})) = {rep!r}')
        except Exception as ex:  # noqa: BLE001
            self.bad('representable', 'raises ' + type(ex).__name__, cls, b, f'{ex!r}')
        if model.isinf:
            return
        bare = Float(x=d, ctx=None)
        # the midpoint to the next larger magnitude is not a member; normalisation keeps the value
        mag = b & self.magmask
        if model.q != 0:
            c, exp = dyadic_parts(model.q)
            mid = Float(s=model.s, c=(c << (self.nbits + 2)) + 1, exp=exp - (self.nbits + 2))
            r.count('transitions')
            try:
                rep = self.fmt.representable_in(mid)
                if rep is not False and c.bit_length() <= self.nbits - self.es:
                    self.bad('representable', 'non-member-accepted', cls, b,
                             f'representable_in({fl_str(mid)}) = {rep!r}: it has {c.bit_length() + self.nbits + 2} significant bits')
            except Exception as ex:  # noqa: BLE001
                self.bad('representable', 'raises ' + type(ex).__name__, cls, b, f'{ex!r}')
            un = Float(s=model.s, c=c << 3, exp=exp - 3)
            r.count('transitions')
            try:
                y = ctx.normalize(un)
                if not model.same(to_x(y)) or ctx.canonical_under(y) is not True or ctx.encode(y) != b:
                    self.bad('normalize', 'value', cls, b, f'normalize({fl_str(un)}) = {fl_str(y)}; value {model}')
            except Exception as ex:  # noqa: BLE001
                self.bad('normalize', 'raises ' + type(ex).__name__, cls, b, f'{ex!r}')
        # ordinals and neighbours: the pattern one magnitude code up / down
        r.count('transitions')
        try:
            o = ctx.to_ordinal(bare)
            back = ctx.from_ordinal(o)
        except Exception as ex:  # noqa: BLE001
            self.bad('to_ordinal', 'raises ' + type(ex).__name__, cls, b, f'{ex!r}')
            return
        if to_x(back).q != model.q:
            self.bad('from_ordinal', 'not-inverse', cls, b, f'from_ordinal(to_ordinal({fl_str(bare)}) = {o}) = {fl_str(back)}')
        for up in (True, False):
            name = 'next_up' if up else 'next_down'
            nf = numpy_next(self.nbits, b, up)
            if self.nbits == 64 and not math.isinf(pf):
                assert nf == math.nextafter(pf, math.inf if up else -math.inf)
            want = X.from_pyfloat(nf)
            r.count('transitions')
            try:
                y = (ctx.next_up if up else ctx.next_down)(bare)
            except END_OK:
                r.outcomes[f'{self.family}:{name}:end:raises'] += 1
                if not want.isinf:
                    self.bad(name, 'raises', cls, b, f'{name}({fl_str(bare)}) raised; the platform says {nf!r}')
                continue
            except Exception as ex:  # noqa: BLE001
                self.bad(name, 'raises ' + type(ex).__name__, cls, b, f'{ex!r}')
                continue
            xy = to_x(y)
            if not want.same(xy, zero_sign=False):
                self.bad(name, 'wrong-neighbour', cls, b, f'{name}({fl_str(bare)}) = {fl_str(y)} = {xy}; the platform says {nf!r}')
                continue
            if xy.isfin:
                r.count('transitions')
                try:
                    o2 = ctx.to_ordinal(y)
                    if o2 != o + (1 if up else -1):
                        self.bad('to_ordinal', 'gap', cls, b,
                                 f'to_ordinal({fl_str(bare)}) = {o} but its {name} {fl_str(y)} has ordinal {o2}')
                except Exception as ex:  # noqa: BLE001
                    self.bad('to_ordinal', 'raises ' + type(ex).__name__, cls, b, f'{ex!r}')

    def do_queries(self):
        import numpy as np
        r, ctx = self.r, self.ctx
        fi = np.finfo({16: np.float16, 32: np.float32, 64: np.float64}[self.nbits])
        mx = Fraction(float(fi.max))
        mn = Fraction(float(fi.smallest_subnormal))
        r.count('states')
        r.count('evaluations')
        r.count('nontrivial')
        for name, got, want in (('maxval', lambda: ctx.maxval(), mx), ('maxval(s=True)', lambda: ctx.maxval(True), -mx),
                                ('minval', lambda: ctx.minval(), mn), ('minval(s=True)', lambda: ctx.minval(True), -mn),
                                ('largest', lambda: ctx.largest(), mx), ('smallest', lambda: ctx.smallest(), -mx)):
            r.count('transitions')
            try:
                y = got()
                xy = to_x(y)
                if not (xy.isfin and xy.q == want):
                    self.bad(name.split('(')[0], 'value', 'query', -1, f'{name} = {fl_str(y)}; numpy.finfo says {want}')
            except Exception as ex:  # noqa: BLE001
                self.bad(name.split('(')[0], 'raises ' + type(ex).__name__, 'query', -1, f'{name} raised {ex!r}')


# ---------------------------------------------------------------------------
# the check
# ---------------------------------------------------------------------------

N_FORMAT_SHARDS = 40
N_B16_SHARDS = 16
N_B64_SHARDS = 4


class Check(BaseCheck):
    pid = 'C16'
    rule = ('every configuration of the EFloat / IEEE / Fixed / SMFixed / Exp constructor boxes up to the width bound; '
            'for each accepted one every bit pattern, every value of the decoded set in operand forms c<<0,1,3, '
            'non-members derived from the sorted set, and the min/max queries; all binary16 patterns; a structured '
            'subset of binary32/64.  nontrivial = a point (pattern / value / non-member / query / configuration) off the '
            'plain normal-number path: NaN/inf/zero codes, subnormals, the top two binades (where special codes eat '
            'into the range), extreme and least-magnitude values, sign-bit-set or first/last fixed-point and '
            'exponential words, every non-member, every query set, every rejected configuration; operand forms and '
            'end-of-range probes are counted separately')
    assumptions = [
        'the EFloat layout is sign|exponent|mantissa with bias 2^(es-1)-1-eoffset (bias -eoffset for a zero-width '
        'exponent field) and the special codes of the EFloatNanKind docstrings; infinity, when enabled, is '
        'exponent-all-ones/mantissa-0 (IEEE_754), the code just below NaN (MAX_VAL), the all-ones code (NEG_ZERO, NONE)',
        'a configuration is usable iff the word has its fields, the all-zero word means +0, and every promised special '
        '(NaN unless NONE, both infinities when enabled) has a code; judged for EFloat/IEEE only - rejections of '
        'degenerate widths of Fixed/SMFixed/Exp that the layout could describe are recorded, not judged',
        'ordinals: only strict monotonicity, contiguity, zeros identified, from_ordinal inverse are demanded; '
        'with infval=True the infinities (when members) sit one ordinal past the extremes as format.py documents',
        'at the ends next_up/next_down may raise ValueError/TypeError or return the correctly signed infinity',
        'binary32/binary64 are checked on a declared structured subset only (all exponents x 5 mantissas x 2 signs)',
        'struct/numpy implement IEEE 754 binary16/32/64 (cross-checked against the layout model on every pattern used)',
    ]
    trusted_base = ['mc.model.encoding', 'mc.model.xreal', 'numpy.float16/32/64', 'struct']

    def bounds(self):
        B = tier_bounds(self.tier)
        B = dict(B)
        B.update({'operand_forms': list(FORMS), 'binary16': 'all 65536 patterns',
                  'binary32': f'{len(structured_patterns(8, 32))} structured patterns',
                  'binary64': f'{len(structured_patterns(11, 64))} structured patterns',
                  'configurations': len(configs(self.tier, self.seed))})
        return B

    def selfcheck(self):
        """vacuity canary: pin the model to published numbers (OCP MX, IEEE 754), independent of fpy2."""
        def maxof(L):
            return ValueSet(L).largest()
        assert maxof(EFloatLayout(4, 8, False, 'MAX_VAL', 0)) == 448            # MX E4M3
        assert maxof(EFloatLayout(5, 8, True, 'IEEE_754', 0)) == 57344          # MX E5M2
        assert maxof(EFloatLayout(3, 6, False, 'NONE', 0)) == 28                # MX E3M2
        assert maxof(EFloatLayout(2, 6, False, 'NONE', 0)) == Fraction(15, 2)   # MX E2M3
        assert maxof(EFloatLayout(2, 4, False, 'NONE', 0)) == 6                 # MX E2M1
        assert ValueSet(EFloatLayout(2, 4, False, 'NONE', 0)).minmag(False) == Fraction(1, 2)
        assert maxof(EFloatLayout(5, 16, True, 'IEEE_754', 0)) == 65504
        e8 = ExpLayout(8, 0)
        assert e8.decode(127).q == 1 and e8.decode(0).q == pow2(-127) and e8.decode(254).q == pow2(127) and e8.decode(255).isnan
        i8 = ValueSet(FixedLayout(True, -6, 8))
        assert i8.largest() == Fraction(127, 64) and i8.smallest() == -2
        sm = ValueSet(SMFixedLayout(0, 4))
        assert sm.largest() == 7 and sm.smallest() == -7 and sm.has_nzero
        # the check must be able to fail: a wrong layout disagrees with the real decoder somewhere
        ctx = fp.IEEEContext(3, 6)
        wrong = EFloatLayout(3, 6, True, 'IEEE_754', 1)
        assert any(not wrong.decode(b).same(to_x(ctx.decode(b))) for b in range(64))

    def shards(self):
        cfgs = configs(self.tier, self.seed)
        cost = lambda c: 1 << max(0, min(c[1]['nbits'], 10))
        order = sorted(range(len(cfgs)), key=lambda i: (-cost(cfgs[i]), i))
        bins = [[0, []] for _ in range(N_FORMAT_SHARDS)]
        for i in order:
            tgt = min(range(N_FORMAT_SHARDS), key=lambda k: (bins[k][0], k))
            bins[tgt][0] += cost(cfgs[i]) + 4
            bins[tgt][1].append(i)
        if self.tier != 'quick':
            precompute('binary16', {'es': 5, 'nbits': 16})    # inherited by the forked workers
        shards = [('b16', k, N_B16_SHARDS) for k in range(N_B16_SHARDS)]
        shards += [('b64', k, N_B64_SHARDS) for k in range(N_B64_SHARDS)]
        shards += [('b32', 0, 1)]
        shards += [('formats', sorted(b[1])) for b in bins if b[1]]
        return shards

    def run_shard(self, shard) -> ShardResult:
        r = ShardResult()
        kind = shard[0]
        if kind == 'formats':
            cfgs = configs(self.tier, self.seed)
            for i in shard[1]:
                fam, p = cfgs[i]
                fc = FormatChecker(r, fam, p)
                fc.run_all()
                if fc.V is not None and p['nbits'] >= 4:
                    r.sample({'format': fc.text, 'patterns': len(fc.V.by_pattern), 'distinct_values': len(fc.values),
                              'finite_reals': len(fc.V.reals), 'largest': frac_str(fc.V.largest()),
                              'non_members_tried': len(fc.outsiders())}, limit=1)
        elif kind == 'b16':
            _, k, n = shard
            if self.tier != 'quick':
                # thorough: also the value-set checks (operand forms, non-members, sorted ordinals)
                fc = FormatChecker(r, 'binary16', {'es': 5, 'nbits': 16})
                fc.run_all(k, n)
            pc = PlatformChecker(r, 'binary16')
            for b in range(k, 1 << 16, n):
                pc.do_pattern(b)
            if k == 0:
                pc.do_queries()
        else:
            fam = 'binary32' if kind == 'b32' else 'binary64'
            _, k, n = shard
            pc = PlatformChecker(r, fam)
            pats = structured_patterns(pc.es, pc.nbits)
            for b in pats[k::n]:
                pc.do_pattern(b)
            if k == 0:
                pc.do_queries()
                r.notes.append(f'{fam}: {len(pats)} structured patterns only (declared subset; '
                               f'the 2^{pc.nbits} patterns are not enumerated)')
        return r

    def replay(self, case):
        r = Collector()
        fam, p, at = case['family'], case['params'], case['at']
        if fam in PLATFORM and at[0] == 'pattern':
            b = int(at[1])
            pc = PlatformChecker(r, fam)
            if b < 0:
                pc.do_queries()
            else:
                pc.do_pattern(b)
                if fam == 'binary16':
                    FormatChecker(r, fam, p).run_at(at)
        else:
            FormatChecker(r, fam, p).run_at(at)
        vs = [v for v in r.violations if v.case['op'] == case['op'] and v.case['kind'] == case['kind']]
        text = ctor_text(fam, p)
        if vs:
            return True, '\n'.join(v.detail for v in vs[:6])
        return False, f'{text} at {at}: implementation agrees with the decoded value set'
