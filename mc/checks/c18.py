"""
C18 -- Evaluation is pure, isolated from the caller and reentrant.

Three bounded-exhaustive explorations share one harness (DESIGN section 5, C18):

1. **Argument isolation** -- all argument structures up to depth 2 (number, list,
   tuple, nested list, list inside tuple, ... x five kinds of number) x programs
   {return argument, return element, mutate then return, return a list
   containing the argument, ...} x {no context, context A}.  Oracle: the object
   graph of the arguments (identity of every container and leaf, every leaf's
   state) is the same before and after the call, also when the call raises; the
   set of lists reachable from the result is disjoint from the lists reachable
   from the arguments.

2. **Histories** (mc.engine.histories, explicit-state BFS; a state is the event
   list, replayed on fresh objects) -- events: call f/g/h under A/B/C/D or no
   context, the loop function s, a second function that is also *named* f,
   simplify/unroll_for/inline a function and call the result, rounding directly
   through fpy2.ops, building and using a seeded stochastic context, an engine
   registry query, the caller changing its own gmpy2 context, and a function
   that index-assigns into a list it captured as a free variable.  Oracle: the
   observation of every event equals the **pristine** observation of that event
   (the one-event history on a fresh interpreter, computed when the check
   starts); arguments untouched; the caller's gmpy2 context is what it was
   before the call.

3. **Schedules** (mc.engine.sched, cooperative baton scheduler on sys.settrace,
   preemption-bounded stateless DFS: all executions with 0 preemptions, then 1,
   then 2 in the thorough tier) -- drivers of 2 threads (one of 3) making 1-2
   calls each, forced to collide: the same cold Function under different
   contexts, h -> f through the process-wide default interpreter, MPFR at
   different precisions and rounding modes, list-mutating g, two functions with
   one name, a transformation next to a call.  Oracle: every call's result equals
   its sequential (pristine) result; arguments untouched.  Every failing schedule
   is replayed twice (same trace, same results) before it is reported.

Vacuity canary: `selfcheck()` explores, with the same scheduler, point set and
bound 1, a harness-local body that stashes its context in a class attribute of
the *harness* and reads it back two real scheduling points later; unless that
yields >= 2 outcomes the run aborts as broken.  The canary is also a driver of
the sharded run at the tier's full bound (checked in `finalize`).

A free-running pass (real threads, switch interval 1 us) runs the same drivers;
it is reported (outcomes `free:*`, notes) and never decides.
"""

from __future__ import annotations

import hashlib
import itertools
import json
import linecache
import os
import random
import subprocess
import sys
import tempfile
from fractions import Fraction

import gmpy2 as gmp

import fpy2 as fp
from fpy2 import strategies as st
from fpy2.interpret import BytecodeInterpreter
from fpy2.number import Float, RealFloat
from fpy2.number.engine import ENGINES

from ..engine import histories, sched
from ..engine.loader import load_source
from ..engine.runner import BaseCheck, ShardResult

sys.dont_write_bytecode = True      # generated modules are loaded once; no __pycache__ traffic

# ---------------------------------------------------------------------------
# harness programs

MODULES = {
    # f: arithmetic under nested contexts (MPFR engine + REAL engine); g: mutates its list parameter and
    # returns it; h: calls f (FPy-to-FPy call through the default interpreter)
    'fgh': '''
@fp.fpy
def f(x, y):
    a = x / y + fp.sqrt(x)
    with fp.REAL:
        b = x * y + 1
    with fp.MPFloatContext(3, fp.RM.RTP):
        c = a * b
    return (a + c) * b

@fp.fpy
def g(xs, k):
    xs[0] = xs[0] / k + fp.exp(xs[1])
    xs[1] = xs[0] * xs[0]
    return xs

@fp.fpy
def h(x, y):
    t = f(x, y)
    with fp.MPFloatContext(4, fp.RM.RTN):
        u = f(y, x)
    return t - u / 3
''',
    's': '''
@fp.fpy
def s(xs):
    acc = 0
    for x in xs:
        acc = acc + x / 3
    return acc
''',
    # small versions for the schedule drivers (fewer scheduling points per execution)
    'pq': '''
@fp.fpy
def p(x, y):
    return x / y + fp.sqrt(x)

@fp.fpy
def q(x, y):
    return p(x, y) * y

@fp.fpy
def fm(x, y):
    a = fp.sqrt(x)
    with fp.MPFloatContext(3, fp.RM.RTP):
        c = a / y
    return a + c
''',
    'gm': '''
@fp.fpy
def gm(xs, k):
    xs[0] = xs[0] / k
    return xs
''',
    # lists taken straight from every list-producing construct (range with 1/2/3 arguments, literal,
    # comprehension, slice, zip, enumerate, empty, nested literal): wr/wl build them and overwrite slots
    # *in FPy* (nothing outlives the call); rr/rl build the same lists afresh and return them
    'lb': '''
@fp.fpy
def wr(v):
    a = range(5)
    a[0] = v
    b = range(2, 6)
    b[1] = v
    c = range(0, 10, 2)
    c[2] = v
    return a[0] + b[1] + c[2]

@fp.fpy
def wl(v):
    a = [1, 2, 3]
    a[0] = v
    b = [i * 2 for i in range(4)]
    b[1] = v
    base = [1, 2, 3, 4]
    c = base[1:3]
    c[0] = v
    d = zip([1, 2], [3, 4])
    d[0] = (v, v)
    e = enumerate([5, 6])
    e[1] = (v, v)
    g = fp.empty(2)
    g[0] = v
    g[1] = v
    n = [[1, 2], [3]]
    n[0][0] = v
    return a[0] + b[1] + c[0] + base[1] + g[1] + n[0][0]

@fp.fpy
def rr():
    t = 0
    for i in range(5):
        t = t + i
    return (range(5), range(2, 6), range(0, 10, 2), t)

@fp.fpy
def rl():
    base = [1, 2, 3, 4]
    g = fp.empty(2)
    g[0] = 7
    g[1] = 8
    return ([1, 2, 3], [i * 2 for i in range(4)], base[1:3], zip([1, 2], [3, 4]), enumerate([5, 6]), g,
            [[1, 2], [3]])
''',
    # a callee with no parameters and no locals (c0), called by z: transformations of z splice c0's body
    'z0': '''
@fp.fpy
def c0():
    return fp.rational(1, 3) + fp.rational(1, 3)

@fp.fpy
def z(r):
    return r * r * c0()
''',
    # a list captured as a free variable: kw index-assigns into it, kr only reads it
    'k': '''
K = [1.0, 2.0, 3.0]

@fp.fpy
def kw(x):
    K[0] = K[0] + x
    return K[0]

@fp.fpy
def kr(x):
    return K[0] / 3 + x
''',
    # different functions that are also *named* f / p (another module)
    'alt': '''
@fp.fpy
def f(x, y):
    a = x * y - fp.sqrt(y)
    return a / 3

@fp.fpy
def p(x, y):
    return x * y - fp.sqrt(y)
''',
}
FN_HOME = {'f': ('fgh', 'f'), 'g': ('fgh', 'g'), 'h': ('fgh', 'h'), 's': ('s', 's'), 'p': ('pq', 'p'),
           'q': ('pq', 'q'), 'fm': ('pq', 'fm'), 'gm': ('gm', 'gm'), 'kw': ('k', 'kw'), 'kr': ('k', 'kr'),
           'f2': ('alt', 'f'), 'p2': ('alt', 'p'),
           'c0': ('z0', 'c0'), 'z': ('z0', 'z'),
           'wr': ('lb', 'wr'), 'wl': ('lb', 'wl'), 'rr': ('lb', 'rr'), 'rl': ('lb', 'rl')}

CTX_MAKERS = {
    'A': lambda: fp.MPFloatContext(5, fp.RM.RTZ),
    'B': lambda: fp.MPFloatContext(11, fp.RM.RNE),
    'C': lambda: fp.MPFixedContext(-4, fp.RM.RTP),
    'D': lambda: fp.IEEEContext(11, 64, fp.RM.RNE),
    '-': lambda: None,
}

ARGS = {
    'f': lambda: (3, 7),
    'g': lambda: ([3, 0.5], 7),
    'h': lambda: (3, 7),
    's': lambda: ([1, 2, 5],),
    'p': lambda: (3, 7),
    'q': lambda: (3, 7),
    'fm': lambda: (3, 7),
    'gm': lambda: ([3, 0.5], 7),
    'kw': lambda: (1,),
    'kr': lambda: (1,),
    'f2': lambda: (3, 7),
    'p2': lambda: (3, 7),
    'c0': lambda: (),
    'z': lambda: (1.5,),
    'wr': lambda: (99,),
    'wl': lambda: (99,),
    'rr': lambda: (),
    'rl': lambda: (),
}

TRANSFORMS = {
    'simplify': lambda fn: st.simplify(fn),
    'unroll': lambda fn: st.unroll_for(fn),
    'inline': lambda fn: st.inline(fn),
    'inline1': lambda fn: st.inline(fn, recursive=False),
}


def canon(v):
    """Value -> hashable, JSON-friendly canonical form (NaNs equal, zeros by sign)."""
    if isinstance(v, bool):
        return 'b:' + str(v)
    if isinstance(v, Float):
        if v.isnan:
            return 'nan'
        if v.isinf:
            return '-inf' if v.s else '+inf'
        qv = Fraction(v.as_rational())
        if qv == 0:
            return '-0' if v.s else '+0'
        return f'{qv.numerator}/{qv.denominator}'
    if isinstance(v, RealFloat):
        qv = Fraction(v.as_rational())
        return f'{qv.numerator}/{qv.denominator}'
    if isinstance(v, Fraction):
        return f'{v.numerator}/{v.denominator}'
    if isinstance(v, int):
        return f'{v}/1'
    if isinstance(v, float):
        return 'py:' + repr(v)
    if isinstance(v, list):
        return ('L',) + tuple(canon(x) for x in v)
    if isinstance(v, tuple):
        return ('T',) + tuple(canon(x) for x in v)
    return 'o:' + repr(v)


def digest(obj) -> str:
    return hashlib.sha1(json.dumps(obj, sort_keys=True, default=str).encode()).hexdigest()[:10]


# ---------------------------------------------------------------------------
# object-graph snapshots (argument isolation)

def snapshot(obj, path=(), out=None):
    """[(path, kind, id, state)] for every node reachable through lists/tuples."""
    if out is None:
        out = []
    if isinstance(obj, list):
        out.append((path, 'list', id(obj), len(obj)))
        for i, x in enumerate(obj):
            snapshot(x, path + (i,), out)
    elif isinstance(obj, tuple):
        out.append((path, 'tuple', id(obj), len(obj)))
        for i, x in enumerate(obj):
            snapshot(x, path + (i,), out)
    else:
        out.append((path, type(obj).__name__, id(obj), repr(obj)))
    return out


def list_ids(obj, out=None):
    if out is None:
        out = set()
    if isinstance(obj, list):
        out.add(id(obj))
        for x in obj:
            list_ids(x, out)
    elif isinstance(obj, tuple):
        for x in obj:
            list_ids(x, out)
    return out


def gmp_state():
    c = gmp.get_context()
    return (c.precision, c.round, c.emin, c.emax, c.subnormalize, c.trap_inexact, c.trap_overflow,
            c.trap_underflow, c.trap_divzero)


# ---------------------------------------------------------------------------
# a fresh world: new default interpreter, new Function objects, new contexts

_WORLDS = [0]


class World:
    """Fresh state: new default interpreter, default gmpy2 context, and -- loaded on first use from
    source text -- new Function objects (so every function is cold) and new context objects."""

    def __init__(self):
        fp.set_default_interpreter(BytecodeInterpreter())
        gmp.set_context(gmp.context())
        self.mods = {}
        self.ctxs = {}
        self.earlier = {}          # lists handed back by earlier calls in this world
        _WORLDS[0] += 1
        if _WORLDS[0] % 400 == 0:
            linecache.clearcache()

    def ctx(self, name):
        if name not in self.ctxs:
            self.ctxs[name] = CTX_MAKERS[name]()
        return self.ctxs[name]

    def fn(self, name):
        mod, attr = FN_HOME[name]
        if mod not in self.mods:
            self.mods[mod] = load_source(MODULES[mod])
        return getattr(self.mods[mod], attr)

    def texts(self):
        """AST text of every Function of the modules loaded so far: {name: text}."""
        return {name: getattr(self.mods[mod], attr).format()
                for name, (mod, attr) in FN_HOME.items() if mod in self.mods}


def scribble(obj):
    """What a Python caller may do with a value it was handed back: overwrite a slot of every list
    reachable from it and grow it (the value is the caller's own)."""
    if isinstance(obj, list):
        for x in obj:
            scribble(x)
        if obj:
            obj[0] = Float.from_float(-1.0)
        obj.append(Float.from_float(-2.0))
    elif isinstance(obj, tuple):
        for x in obj:
            scribble(x)


def call_judged(fn, args, ctx, earlier=None, box=None):
    """One call from Python: (observation, purity failures).  `earlier` is a dict {id: list object} of
    the lists reachable from results of earlier calls (kept alive there, so ids are not reused); the
    lists of this result are added to it.  `box`, if given, receives the result object."""
    fails = []
    before = snapshot(args)
    gbefore = gmp_state()
    try:
        res = fn(*args, ctx=ctx)
        obs = ('ok', canon(res))
        ids = list_ids(res)
        if ids & list_ids(args):
            fails.append(('result-aliases-argument', 'a list reachable from the result is a list of the arguments'))
        if earlier is not None:
            if ids & set(earlier):
                fails.append(('result-aliases-earlier-result',
                              'a list reachable from the result is (identical to) a list handed back by an earlier call'))
            _collect_lists(res, earlier)
        if box is not None:
            box.append(res)
    except Exception as e:
        obs = ('raise', type(e).__name__)
    if snapshot(args) != before:
        fails.append(('argument-modified', f'arguments after the call: {args!r}'))
    gafter = gmp_state()
    if gafter != gbefore:
        fails.append(('caller-mpfr-context', f'gmpy2 context of the calling thread {gbefore} -> {gafter}'))
    return obs, fails


def _collect_lists(obj, into: dict):
    if isinstance(obj, list):
        into[id(obj)] = obj
        for x in obj:
            _collect_lists(x, into)
    elif isinstance(obj, tuple):
        for x in obj:
            _collect_lists(x, into)


# ---------------------------------------------------------------------------
# history events

PRISTINE_TEXT: dict = {}      # program text of every harness function, freshly loaded, nothing transformed


def build_menu():
    menu = []
    for fn in ('f', 'g', 'h'):
        for c in 'ABCD-':
            menu.append(f'call:{fn}@{c}')
    menu += ['call:s@B', 'call:s@-', 'call:f2@A', 'call:f2@-',
             'xf:simplify:f@A', 'xf:unroll:s@B', 'xf:inline:h@C',
             'ops:sqrt@A', 'ops:add@C', 'ops:round@B',
             'stoch', 'engines', 'gmp-caller',
             'call:kw@-', 'call:kr@A',
             'call:wr@-', 'call:wl@-', 'call:rr@-', 'call:rl@-', 'pymut:rr@-', 'pymut:rl@-', 'pymut:g@A',
             'call:z@A', 'call:c0@A', 'xf:inline1:z@A', 'xf:inline:z@A', 'xf:simplify:z@A',
             'fresh:z@A', 'fresh:c0@A', 'fresh:h@B']
    return menu


# the sub-menu that is taken one level deeper (every kind of event, fewer contexts)
CORE_MENU = ['call:f@A', 'call:f@B', 'call:f@-', 'call:g@C', 'call:h@A', 'call:h@-', 'call:f2@A',
             'call:s@B', 'xf:simplify:f@A', 'xf:unroll:s@B', 'xf:inline:h@C',
             'ops:sqrt@A', 'stoch', 'gmp-caller', 'call:kw@-',
             'call:wr@-', 'call:rr@-', 'pymut:rr@-',
             'xf:inline1:z@A', 'call:z@A', 'fresh:c0@A']


def do_event(w: World, ev: str):
    """Executes one event in world `w`: (observation, [(kind, text)])."""
    kind, _, rest = ev.partition(':')
    if kind == 'call':
        name, _, c = rest.partition('@')
        return call_judged(w.fn(name), ARGS[name](), w.ctx(c), w.earlier)
    if kind == 'xf':
        tname, _, rest2 = rest.partition(':')
        name, _, c = rest2.partition('@')
        fn = w.fn(name)
        texts_before = w.texts()
        try:
            t = TRANSFORMS[tname](fn)
        except Exception as e:
            return ('xf-raise', type(e).__name__), []
        # a transformation derives a copy: its input and every callee keep their program text
        fails = []
        for other, text in w.texts().items():
            if text != texts_before[other]:
                fails.append(('transform-modified-input',
                              f'{tname}({name}) changed the program text of `{other}` to:\n{text}\nit was:\n'
                              f'{texts_before[other]}' + ('' if texts_before[other] == PRISTINE_TEXT[other]
                                                          else ' (already not the pristine text)')))
        obs, fs = call_judged(t, ARGS[name](), w.ctx(c), w.earlier)
        return obs, fails + fs
    if kind == 'fresh':
        # the original Function evaluated on a BytecodeInterpreter that has compiled nothing yet
        name, _, c = rest.partition('@')
        return call_judged(w.fn(name).with_rt(BytecodeInterpreter()), ARGS[name](), w.ctx(c), w.earlier)
    if kind == 'pymut':
        # call, then the Python caller edits the value it was handed back (its own value); the
        # observation is the result as returned, before the edit
        name, _, c = rest.partition('@')
        box = []
        obs, fails = call_judged(w.fn(name), ARGS[name](), w.ctx(c), w.earlier, box)
        for res in box:
            scribble(res)
        return obs, fails
    if kind == 'ops':
        op, _, c = rest.partition('@')
        ctx = w.ctx(c)
        gb = gmp_state()
        try:
            if op == 'sqrt':
                v = fp.ops.sqrt(2, ctx=ctx)
            elif op == 'add':
                v = fp.ops.add(Fraction(1, 3), 1, ctx=ctx)
            else:
                v = fp.ops.round(Fraction(2, 3), ctx=ctx)
            obs = ('ok', canon(v))
        except Exception as e:
            obs = ('raise', type(e).__name__)
        fails = []
        if gmp_state() != gb:
            fails.append(('caller-mpfr-context', f'gmpy2 context of the calling thread {gb} -> {gmp_state()}'))
        return obs, fails
    if ev == 'stoch':
        # same precision and rounding mode as A, but stochastic with a private seeded generator
        sc = fp.MPFloatContext(5, fp.RM.RTZ, 3, rng=random.Random(20260922))
        try:
            vals = [canon(sc.round(Fraction(1, 3))) for _ in range(6)]
            vals.append(canon(w.fn('f')(3, 7, ctx=sc)))
            return ('ok', tuple(vals)), []
        except Exception as e:
            return ('raise', type(e).__name__), []
    if ev == 'engines':
        return ('ok', tuple(type(e).__name__ for e in ENGINES)), []
    if ev == 'gmp-caller':
        # the *caller* uses gmpy2 with its own settings (not an FPy evaluation; never judged)
        c = gmp.get_context()
        c.precision = 7
        c.round = gmp.RoundUp
        return ('caller',), []
    raise ValueError(ev)


# ---------------------------------------------------------------------------
# argument-isolation space

def leaf_maker(kind):
    if kind == 'int':
        return lambda i: (3, 5, 7)[i]
    if kind == 'float':
        return lambda i: (0.5, 1.25, -2.0)[i]
    if kind == 'Float':
        return lambda i: Float.from_float((1.5, 2.5, 0.75)[i])
    if kind == 'Fraction':
        return lambda i: (Fraction(3, 4), Fraction(1, 3), Fraction(5, 2))[i]
    if kind == 'RealFloat':
        return lambda i: RealFloat.from_float((0.5, 4.0, 1.5)[i])
    raise ValueError(kind)


LEAF_KINDS = ('int', 'float', 'Float', 'Fraction', 'RealFloat')


def _shared(L):
    sub = [L(0), L(1)]
    return [sub, sub]


STRUCTS = {
    'num': lambda L: L(0),
    'list': lambda L: [L(0), L(1)],
    'tuple': lambda L: (L(0), L(1)),
    'list-list': lambda L: [[L(0), L(1)], [L(2)]],
    'tuple-list': lambda L: ([L(0), L(1)], L(2)),
    'tuple-tuple': lambda L: ((L(0), L(1)), L(2)),
    'list-tuple': lambda L: [(L(0), L(1)), (L(2), L(0))],
    'list-shared-sublist': _shared,
    'tuple-2lists': lambda L: ([L(0)], [L(1), L(2)]),
    'list-list-empty': lambda L: [[L(0)], []],
}

ARG_PROGRAMS = {
    # name: (params, body lines)
    'ret-arg': ('x', ['return x']),
    'ret-elem': ('x', ['return x[0]']),
    'ret-elem2': ('x', ['return x[0][0]']),
    'ret-last': ('x', ['return x[1]']),
    'mut-ret': ('x', ['x[0] = 9', 'return x']),
    'mut-inner-ret': ('x', ['x[0][0] = 9', 'return x']),
    'mut-ret-other': ('x', ['x[0] = 9', 'return 1']),
    'mut-inner-ret-elem': ('x', ['x[0][0] = 9', 'return x[0]']),
    'rebind-mut': ('x', ['y = x', 'y[0] = 9', 'return y']),
    'wrap': ('x', ['return [x, x]']),
    'wrap-tuple': ('x', ['return (x, [x])']),
    'callee-mut': ('x', ['t = az_helper(x)', 'return x']),
    'callee-ret': ('x', ['return az_ident(x)']),
    'alias-params': ('a, b', ['a[0] = 9', 'return b']),
    'comprehension': ('x', ['return [e for e in x]']),
    'slice': ('x', ['return x[0:1]']),
    'arith': ('x', ['return x + 1']),
    'ctx-block': ('x', ['with fp.MPFloatContext(3, fp.RM.RTZ):', '    x[0] = x[0] + 1', 'return x']),
    'loop-mut': ('x', ['for i in range(len(x)):', '    x[i] = 0', 'return x']),
    # results built by the list-producing constructs (the argument is ignored or only measured)
    'ret-range1': ('x', ['return range(4)']),
    'ret-range2': ('x', ['return range(1, 4)']),
    'ret-range3': ('x', ['return (range(0, 6, 2), x)']),
    'ret-literal': ('x', ['return ([1, 2], [[3], [x]])']),
    'ret-comprehension': ('x', ['return [[i, x] for i in range(3)]']),
    'ret-zip-enumerate': ('x', ['return (zip([1, 2], [3, 4]), enumerate([x, x]))']),
    'ret-empty': ('x', ['e = fp.empty(2)', 'e[0] = x', 'e[1] = x', 'return e']),
    'mut-range-ret': ('x', ['r = range(4)', 'r[0] = 9', 'return (r, range(4))']),
}
MUTATING = {'mut-ret', 'mut-inner-ret', 'mut-ret-other', 'mut-inner-ret-elem', 'rebind-mut', 'callee-mut',
            'alias-params', 'ctx-block', 'loop-mut'}


def arg_source():
    out = ['@fp.fpy', 'def az_helper(y):', '    y[0] = 9', '    return 0', '',
           '@fp.fpy', 'def az_ident(y):', '    return y', '']
    for name, (params, body) in ARG_PROGRAMS.items():
        out.append('@fp.fpy')
        out.append(f'def ap_{name.replace("-", "_")}({params}):')
        out += ['    ' + ln for ln in body]
        out.append('')
    return '\n'.join(out)


# ---------------------------------------------------------------------------
# scheduling points: which frames yield

_CALL_POINTS = {
    ('interpret/byte.py', 'BytecodeInterpreter.eval'): True,        # + line events (cache check-then-act)
    ('interpret/byte.py', 'BytecodeCompiler.compile'): False,
    ('interpret/byte.py', '_call_fpy'): False,
    ('interpret/byte.py', '_eval_call'): False,
    ('interpret/byte.py', 'make_namespace'): False,
    ('interpret/interpreter.py', 'get_default_interpreter'): False,
    ('interpret/interpreter.py', '_default_function_call'): False,
    ('interpret/interpreter.py', 'Interpreter._func_ctx'): False,
    ('function.py', 'Function.__call__'): False,
    ('ops.py', '_normalize'): False,
    ('number/gmputils.py', 'mpfr_call'): False,
    ('number/gmputils.py', '_mpfr_call_with_prec'): True,            # + line events (scoped MPFR context)
    ('number/engine/gmp.py', '_mpfr_eval'): False,
    ('number/engine/gmp.py', '_mpfr_constant'): False,
    ('number/number/reals.py', 'RealFloat._round_at'): False,
}
_ROUND_NAMES = ('round', 'round_at', '_round_at')


def classify(code, lines: bool = True):
    """code object -> (label, trace lines?) for a scheduling point, else None."""
    fn = code.co_filename.replace('\\', '/')
    i = fn.rfind('/fpy2/')
    if i < 0:
        # generated bytecode of an FPy function: has the `__ctx__` parameter
        nargs = code.co_argcount + code.co_kwonlyargcount
        if '__ctx__' in code.co_varnames[:nargs]:
            return ('gen:' + code.co_name, lines)
        return None
    rel = fn[i + 6:]
    qn = code.co_qualname
    hit = _CALL_POINTS.get((rel, qn))
    if hit is not None:
        return (qn, hit and lines)
    if rel.startswith('number/context/') and code.co_name in _ROUND_NAMES:
        return (qn, False)
    if rel in ('number/engine/gmp.py', 'number/engine/real.py'):
        if qn.startswith(('MPFREngine.', 'RealEngine.')) and not code.co_name.startswith('_') \
                and code.co_name != 'instance':
            return (qn, False)
    return None


def classify_calls_only(code):
    return classify(code, lines=False)


# ---------------------------------------------------------------------------
# schedule drivers: threads x calls (function or transform:function, context)

DRIVERS = {
    # the same cold Function under different contexts: the cache miss is raced
    'cold-same-fn': [[('p', 'A')], [('p', 'B')]],
    # q -> p through the process-wide default interpreter, against a direct cold call of p
    'nested-via-default': [[('q', 'A')], [('p', 'C')]],
    # MPFR at different precisions and rounding modes (5-bit RTZ float vs fixed-point RTP), nested context
    'mpfr-prec-rm': [[('fm', 'A')], [('fm', 'C')]],
    # list-mutating function, each thread with its own list
    'mutate-list': [[('gm', 'A')], [('gm', 'B')]],
    # two different functions that share a name
    'same-name': [[('p', 'A')], [('p2', 'A')]],
    # two calls in one thread (the second one warm) against a cold call
    'two-calls': [[('p', 'A'), ('p', 'C')], [('p', 'B')]],
    # a transformation (partial evaluation uses the default interpreter) next to a call
    'transform': [[('simplify:p', 'A')], [('p', 'B')]],
}
# explored with at most 1 preemption in both tiers (many points per execution / three threads)
DRIVERS_B1 = {
    # the big functions: f (nested contexts, REAL engine) against h -> f, f
    'big-nested': [[('f', 'A')], [('h', 'C')]],
}
DRIVERS3 = {
    'cold-same-fn-3': [[('p', 'A')], [('p', 'B')], [('p', 'C')]],
}
CANARY = 'canary'


class _RacyRuntime:
    """Harness-local racy body (vacuity canary): the active context goes through
    shared state and is read back two real scheduling points later."""
    active = None

    @classmethod
    def call(cls, fn, args, ctx):
        cls.active = ctx                                   # act: stash in shared state
        rt = fp.get_default_interpreter()                  # real scheduling point (call event)
        return rt.eval(fn, args, cls.active)               # real scheduling point; reads the stash


def _resolve(w: World, spec: str):
    if ':' in spec:
        tname, _, name = spec.partition(':')
        return TRANSFORMS[tname](w.fn(name)), name
    return w.fn(spec), spec


def driver_threads(driver: str):
    if driver == CANARY:
        return [[('p', 'A')], [('p', 'B')]]
    for table in (DRIVERS, DRIVERS_B1, DRIVERS3):
        if driver in table:
            return table[driver]
    raise KeyError(driver)


def make_driver(driver: str):
    """-> make() for sched: fresh world, bodies, state."""
    threads = driver_threads(driver)
    racy = driver == CANARY

    def make():
        w = World()
        _RacyRuntime.active = None
        state = {'args': [], 'before': []}
        bodies = []
        for calls in threads:
            for spec, _ in calls:           # Function objects are created here (cold), not inside the threads
                w.fn(spec.partition(':')[2] or spec)
            targs = [ARGS[spec.partition(':')[2] or spec]() for spec, _ in calls]
            state['args'].append(targs)
            state['before'].append([snapshot(a) for a in targs])

            def body(calls=calls, targs=targs):
                out = []
                for (spec, c), args in zip(calls, targs):
                    try:
                        fn, _ = _resolve(w, spec)
                        if racy:
                            res = _RacyRuntime.call(fn, args, w.ctx(c))
                        else:
                            res = fn(*args, ctx=w.ctx(c))
                        out.append(('ok', canon(res)))
                    except Exception as e:
                        out.append(('raise', type(e).__name__))
                return out
            bodies.append(body)
        return bodies, state
    return make


def sequential_results(driver: str):
    """Each call of the driver on its own fresh world, no other thread, no hook."""
    out = []
    for calls in driver_threads(driver):
        row = []
        for spec, c in calls:
            w = World()
            name = spec.partition(':')[2] or spec
            try:
                fn, _ = _resolve(w, spec)
                row.append(('ok', canon(fn(*ARGS[name](), ctx=w.ctx(c)))))
            except Exception as e:
                row.append(('raise', type(e).__name__))
        out.append(row)
    return out


def judge_execution(driver, results, state, seq):
    """-> list of (thread, call index, kind, text)."""
    fails = []
    threads = driver_threads(driver)
    for t, calls in enumerate(threads):
        res = results[t]
        if res is None or res[0] != 'ok':
            fails.append((t, -1, 'thread-raised', str(res)))
            continue
        for j, (spec, c) in enumerate(calls):
            if res[1][j] != seq[t][j]:
                fails.append((t, j, 'result-differs',
                              f'thread {t} call {spec}@{c}: got {res[1][j]}, sequential result {seq[t][j]}'))
            if snapshot(state['args'][t][j]) != state['before'][t][j]:
                fails.append((t, j, 'argument-modified', f'thread {t} call {spec}@{c}: {state["args"][t][j]!r}'))
    return fails


# ---------------------------------------------------------------------------

class Check(BaseCheck):
    pid = 'C18'
    rule = ('(1) args: every (structure, leaf kind, program, context) case; (2) histories: every event sequence up to '
            'the depth bound over the menu, each replayed on a fresh world and every event compared with its pristine '
            'observation; (3) schedules: every execution with <= bound preemptions per driver, each from a fresh world. '
            'nontrivial = args case whose program mutates a list parameter or returns a container and returned; '
            'history of >= 2 events that are not all the same event; schedule with >= 1 preemption')
    assumptions = [
        'scheduling points are the call events of the allow-listed fpy2 functions and the line events of '
        'BytecodeInterpreter.eval, _mpfr_call_with_prec and generated bytecode; code between two points is atomic',
        'values are compared as values (NaN equal, zeros by sign); flags and the ctx attribute of results are not compared',
        'Float/RealFloat/Fraction leaves are treated as immutable: only lists count as mutable structure for aliasing',
        'the calling thread\'s gmpy2 context is observed before/after each call (purity of the MPFR settings; '
        'anchored mechanism "MPFR settings applied with a scoped context manager")',
        'gmpy2 contexts are per thread (gmpy2 2.2); the free-running pass is reported, not deciding',
    ]
    trusted_base = ['CPython sys.settrace/threading', 'gmpy2', 'mc.engine.sched', 'mc.engine.histories']

    def __init__(self, tier, seed):
        super().__init__(tier, seed)
        self.menu = build_menu()
        # (menu, depth) pairs explored exhaustively
        if tier == 'quick':
            self.spaces = [('full', self.menu, 2), ('core', CORE_MENU, 3)]
            self.extra = ('full', self.menu, 3, 64)       # 1/64 of the depth-3 histories over the full menu
        else:
            self.spaces = [('full', self.menu, 3), ('core', CORE_MENU, 4)]
            self.extra = None
        self.bound = 1 if tier == 'quick' else 2
        self.hist_shards = 8 if tier == 'quick' else 32
        self.sched_shards = 3 if tier == 'quick' else 16
        self.free_runs = 100 if tier == 'quick' else 200
        self._seq = {}
        self._argmod = None
        self._arg_earlier = {}
        self._sc_state = {}
        # pristine observations: the one-event history on a fresh world, computed before anything else
        # runs in this process
        if not PRISTINE_TEXT:
            w0 = World()
            for name in FN_HOME:
                w0.fn(name)
            PRISTINE_TEXT.update(w0.texts())
        self.pristine = {}
        for ev in self.menu:
            self.pristine[ev] = do_event(World(), ev)[0]

    def seq(self, driver):
        if driver not in self._seq:
            self._seq[driver] = sequential_results(driver)
        return self._seq[driver]

    def drivers(self):
        ds = list(DRIVERS) + list(DRIVERS_B1)
        if self.tier == 'thorough':
            ds += list(DRIVERS3)
        return ds

    def driver_bound(self, driver):
        if driver in DRIVERS3 or driver in DRIVERS_B1:
            return 1
        return self.bound

    def bounds(self):
        return {'history_spaces': [{'menu': n, 'events': len(mn), 'depth': d,
                                    'histories': histories.space_size(len(mn), d)} for n, mn, d in self.spaces],
                'quick_extra_slice': ('1/64 of the depth-3 histories over the full menu, rotated by VERIF_SEED'
                                      if self.extra else None),
                'preemption_bound': self.bound, 'preemption_bound_3_threads': 1 if self.tier == 'thorough' else None,
                'drivers': self.drivers() + [CANARY],
                'arg_structures': len(STRUCTS), 'leaf_kinds': len(LEAF_KINDS), 'arg_programs': len(ARG_PROGRAMS),
                'arg_contexts': 2, 'free_runs_per_driver': self.free_runs}

    # ---- vacuity canary -------------------------------------------------
    def selfcheck(self):
        seq = self.seq(CANARY)
        outcomes = set()
        bad = [0]

        def visit(ex, state):
            outcomes.add(digest(ex.results))
            if judge_execution(CANARY, ex.results, state, seq):
                bad[0] += 1
        stats = sched.explore(make_driver(CANARY), classify, 1, visit)
        if len(outcomes) < 2 or bad[0] == 0:
            raise RuntimeError(f'vacuity canary: the racy harness body produced {len(outcomes)} outcome(s) over '
                               f'{stats.executions} schedules (bound 1) -- the scheduler does not interleave')

    # ---- shards -----------------------------------------------------------
    def shards(self):
        out = [('args', k, 2) for k in range(2)] + [('pristine',)]
        for si in range(len(self.spaces)):
            out += [('hist', si, k, self.hist_shards) for k in range(self.hist_shards)]
        if self.extra:
            out += [('hist-extra', k, self.hist_shards) for k in range(self.hist_shards)]
        for d in self.drivers() + [CANARY]:
            m = self.sched_shards
            out += [('sched', d, k, m) for k in range(m)]
        out += [('free', d) for d in self.drivers()]
        # expensive first (imap_unordered hands them out in order)
        order = {'sched': 0, 'hist': 1, 'hist-extra': 2, 'free': 3, 'args': 4, 'pristine': 5}
        out.sort(key=lambda s: order[s[0]])
        return out

    def run_shard(self, shard) -> ShardResult:
        r = ShardResult()
        kind = shard[0]
        if kind == 'args':
            self.run_args(r, shard[1], shard[2])
        elif kind == 'hist':
            self.run_hist(r, shard[1], shard[2], shard[3])
        elif kind == 'hist-extra':
            self.run_hist_extra(r, shard[1], shard[2])
        elif kind == 'sched':
            self.run_sched(r, shard[1], shard[2], shard[3])
        elif kind == 'free':
            self.run_free(r, shard[1])
        elif kind == 'pristine':
            self.run_pristine(r)
        return r

    # ---- (1) argument isolation -----------------------------------------
    def arg_module(self):
        if self._argmod is None:
            self._argmod = load_source(arg_source())
        return self._argmod

    def check_arg_case(self, r: ShardResult, struct, kind, prog, cname):
        mod = self.arg_module()
        fn = getattr(mod, 'ap_' + prog.replace('-', '_'))
        L = leaf_maker(kind)
        arg = STRUCTS[struct](L)
        args = (arg, arg) if prog == 'alias-params' else (arg,)
        ctx = CTX_MAKERS[cname]()
        case = {'kind': 'args', 'struct': struct, 'leaf': kind, 'program': prog, 'ctx': cname}
        r.count('evaluations')
        r.count('states')
        r.count('transitions')
        r.count('validated')
        earlier = self._arg_earlier           # lists handed back by every earlier call of this shard
        box1 = []
        obs, fails = call_judged(fn, args, ctx, earlier, box1)
        r.outcomes[f'args:{prog}:{obs[0]}'] += 1
        if obs[0] == 'ok' and (prog in MUTATING or (isinstance(obs[1], tuple))):
            r.count('nontrivial')
        for k, text in fails:
            r.violate({'exploration': 'args', 'kind': k, 'program': prog},
                      case, f'{prog}({struct} of {kind}) under ctx {cname}: {k}: {text}; call observed {obs}')
        # a second call with equal arguments observes the same (purity across calls)
        arg2 = STRUCTS[struct](L)
        args2 = (arg2, arg2) if prog == 'alias-params' else (arg2,)
        box2 = []
        obs2, fails2 = call_judged(fn, args2, ctx, earlier, box2)
        r.count('transitions')
        for k, text in fails2:
            r.violate({'exploration': 'args', 'kind': k, 'program': prog},
                      case, f'{prog}({struct} of {kind}) under ctx {cname}, second call: {k}: {text}; observed {obs2}')
        if box1 and box2 and (box1[0] is box2[0]) and isinstance(box1[0], list):
            r.violate({'exploration': 'args', 'kind': 'same-list-object-twice', 'program': prog},
                      case, f'{prog}({struct} of {kind}) under ctx {cname}: two successive calls returned the same list object')
        if obs2 != obs:
            r.violate({'exploration': 'args', 'kind': 'second-call-differs', 'program': prog},
                      case, f'{prog}({struct} of {kind}) under ctx {cname}: first call {obs}, second call {obs2}')
        return obs

    def run_args(self, r: ShardResult, k, m):
        i = 0
        for struct in STRUCTS:
            for kind in LEAF_KINDS:
                for prog in ARG_PROGRAMS:
                    for cname in ('-', 'A'):
                        if i % m == k:
                            obs = self.check_arg_case(r, struct, kind, prog, cname)
                            if prog == 'mut-inner-ret' and struct == 'tuple-list' and kind == 'float' and cname == 'A':
                                r.sample({'args-case': [struct, kind, prog, cname], 'observed': str(obs)})
                        i += 1

    # ---- the pristine table itself: one-event histories evaluated a second time ----------
    def pristine_again(self, events):
        """The whole table is rebuilt in menu order (as in __init__), each event on a fresh World;
        a table that differs from the first one is state surviving a fresh interpreter."""
        again = {ev: do_event(World(), ev)[0] for ev in self.menu}
        return [(ev, self.pristine[ev], again[ev]) for ev in events if again[ev] != self.pristine[ev]]

    def run_pristine(self, r: ShardResult):
        r.count('evaluations', len(self.menu))
        r.count('transitions', len(self.menu))
        for ev, first, second in self.pristine_again(self.menu):
            r.violate({'exploration': 'histories', 'kind': 'pristine-not-reproducible', 'family': ev.split('@')[0]},
                      {'kind': 'pristine', 'event': ev},
                      f'event {ev} alone on a fresh interpreter: first {first}; after every menu event was run once '
                      f'(each on its own fresh interpreter): {second}')

    def replay_history(self, h):
        w = World()
        obs = []
        fails = []
        for i, ev in enumerate(h):
            o, fs = do_event(w, ev)
            obs.append(o)
            if o != self.pristine[ev]:
                fails.append({'kind': 'result-depends-on-history', 'index': i, 'event': ev,
                              'text': f'event #{i} {ev}: observed {o}; pristine {self.pristine[ev]}'})
            for k, text in fs:
                fails.append({'kind': k, 'index': i, 'event': ev, 'text': f'event #{i} {ev}: {text}'})
        return tuple(obs), fails

    def _self_contained(self, r: ShardResult, h, sigkey) -> bool:
        """A failing history is reported only if it fails *by itself*.  State that survives a fresh
        World (process-wide caches of a broken tree) makes later, unrelated histories fail too; those
        would not reproduce from a replay file.  Probe: every event of h alone on a fresh World must
        still give its pristine observation -- then nothing leaked in from outside and h is
        self-contained.  Otherwise h is re-run in a fresh process (a few times per failure class)."""
        emitted, tried = self._sc_state.setdefault(sigkey, [0, 0])
        if emitted >= 3:
            return False
        clean = all(do_event(World(), e)[0] == self.pristine[e] for e in dict.fromkeys(h))
        if clean:
            self._sc_state[sigkey][0] += 1
            return True
        r.count('hist_cross_world_state_seen')
        if tried >= 4:
            return False
        self._sc_state[sigkey][1] += 1
        fd, path = tempfile.mkstemp(prefix='vf_c18_', suffix='.json')
        try:
            with os.fdopen(fd, 'w') as fh:
                json.dump({'case': {'kind': 'history', 'history': list(h)}, 'tier': self.tier, 'seed': self.seed}, fh)
            p = subprocess.run([sys.executable, '-m', 'mc.run', 'C18', '--replay', path],
                               cwd=os.path.dirname(os.path.dirname(os.path.dirname(os.path.abspath(__file__)))),
                               capture_output=True, text=True, timeout=600)
        finally:
            try:
                os.unlink(path)
            except OSError:
                pass
        if p.returncode == 1:
            self._sc_state[sigkey][0] += 1
            return True
        return False

    def _hist_visitor(self, r: ShardResult, seen: dict, sample_depth: int):
        sampled = [False]

        def on_state(h, obs, fails):
            r.count('evaluations')
            r.count('states')
            r.count('transitions', len(h))
            r.count('validated', len(h))
            if len(h) >= 2 and len(set(h)) >= 2:
                r.count('nontrivial')
            for ev, o in zip(h, obs):
                d = seen.setdefault(ev, {})
                d[o] = d.get(o, 0) + 1
            if fails:
                done = set()
                for f in fails:
                    ev = f['event']
                    fam = ev.split('@')[0]      # event without its context: call:f, xf:simplify:f, ops:sqrt, stoch
                    if (f['kind'], fam) in done or len(done) >= 3:
                        continue
                    done.add((f['kind'], fam))
                    if not self._self_contained(r, h, (f['kind'], fam)):
                        r.count('hist_failures_not_emitted')   # over the per-class cap, or not failing by itself
                        continue
                    r.violate({'exploration': 'histories', 'kind': f['kind'], 'family': fam},
                              {'kind': 'history', 'history': list(h)},
                              f'history {list(h)}: ' + '; '.join(x['text'] for x in fails))
            elif not sampled[0] and len(h) == sample_depth and len(set(h)) == len(h):
                sampled[0] = True
                r.sample({'history': list(h), 'observed': [str(o) for o in obs]}, limit=1)
        return on_state

    def _flush_seen(self, r: ShardResult, seen: dict):
        for ev, d in seen.items():
            for o, cnt in d.items():
                r.outcomes[f'hist:{ev}={digest(o)}'] += cnt

    def run_hist(self, r: ShardResult, si, k, m):
        name, menu, depth = self.spaces[si]
        seen: dict = {}
        stats = histories.bfs(menu, depth, self.replay_history, self._hist_visitor(r, seen, depth), shard=(k, m),
                              root_len=2, keep_canonical=False)
        r.count(f'hist_states:{name}', stats.states)
        r.count('hist_failed_states', stats.failed_states)
        self._flush_seen(r, seen)

    def run_hist_extra(self, r: ShardResult, k, m):
        """Quick tier only: a slice of the next-larger bound, rotated by the seed (never part of the core)."""
        name, menu, depth, frac = self.extra
        seen: dict = {}
        on_state = self._hist_visitor(r, seen, depth)
        pick = self.seed % frac
        for i, h in enumerate(itertools.product(menu, repeat=depth)):
            if i % frac == pick and (i // frac) % m == k:
                obs, fails = self.replay_history(tuple(h))
                on_state(tuple(h), obs, fails)
                r.count('hist_extra')
        self._flush_seen(r, seen)

    # ---- (3) schedules -------------------------------------------------------
    def confirm_schedule(self, driver, devs, first_results, first_trace):
        """Replays a failing schedule twice: same trace, same results, or the harness is broken."""
        make = make_driver(driver)
        for n in range(2):
            ex, state = sched.run_schedule(make, classify, devs)
            if ex.trace_digest() != first_trace or ex.results != first_results:
                raise sched.SchedulerError(
                    f'schedule {devs} of driver {driver} is not deterministic: replay {n} gave '
                    f'{ex.results} (trace {ex.trace_digest()}), first run {first_results} (trace {first_trace})')

    def run_sched(self, r: ShardResult, driver, k, m):
        seq = self.seq(driver)
        bound = self.driver_bound(driver)
        make = make_driver(driver)
        ncalls = sum(len(c) for c in driver_threads(driver))
        nrep = [0]

        def visit(ex, state):
            r.count('evaluations')
            r.count('states')
            r.count('transitions', ncalls)
            r.count('validated', ncalls)
            r.count(f'sched_exec:{driver}:p{ex.preemptions}')
            r.count(f'sched_points:{driver}', ex.npoints)
            if ex.preemptions >= 1:
                r.count('nontrivial')
            r.outcomes[f'sched:{driver}={digest(ex.results)}'] += 1
            fails = judge_execution(driver, ex.results, state, seq)
            if driver == CANARY:
                if fails:
                    r.count('canary_wrong')
                return
            if fails:
                self.confirm_schedule(driver, ex.devs, ex.results, ex.trace_digest())
                t, j, kind, text = fails[0]
                spec, c = driver_threads(driver)[t][j] if j >= 0 else ('?', '?')
                r.violate({'exploration': 'schedules', 'driver': driver, 'kind': kind, 'call': f'{spec}@{c}'},
                          {'kind': 'schedule', 'driver': driver, 'devs': [list(d) for d in ex.devs],
                           'preemptions': ex.preemptions},
                          f'driver {driver}, schedule {list(ex.devs)} ({ex.preemptions} preemption(s), '
                          f'{ex.npoints} points): ' + '; '.join(f[3] for f in fails))
            elif ex.preemptions >= 1 and nrep[0] < 5:
                # determinism evidence on passing schedules too
                nrep[0] += 1
                self.confirm_schedule(driver, ex.devs, ex.results, ex.trace_digest())
                r.count('sched_replayed_identical', 2)

        cap = None
        stats = sched.explore(make, classify, bound, visit, shard=(k, m), max_executions=cap)
        if stats.capped:
            r.notes.append(f'CAP schedules of driver {driver}: stopped after {stats.executions} executions in a shard; '
                           f'bound completed {stats.bound_completed}')
        if k == 0:
            r.sample({'driver': driver, 'threads': driver_threads(driver), 'sequential': str(seq),
                      'points_per_execution': [stats.points_min, stats.points_max]})

    def run_free(self, r: ShardResult, driver):
        seq = self.seq(driver)
        runs = sched.free_run(make_driver(driver), self.free_runs)
        bad = 0
        for results, state in runs:
            r.count('free_runs')
            fails = judge_execution(driver, results, state, seq)
            r.outcomes[f'free:{driver}={digest(results)}'] += 1
            if fails:
                bad += 1
        if bad:
            r.notes.append(f'INCONCLUSIVE free-running pass (not deciding): driver {driver}: {bad}/{len(runs)} runs '
                           f'differ from the sequential results')
            r.count('free_mismatch', bad)

    # ---- cross-shard ---------------------------------------------------------
    def finalize(self, total):
        c = total.counts
        canary = [k for k in total.outcomes if k.startswith(f'sched:{CANARY}=')]
        if total.errors:
            return
        if len(canary) < 2 or not c.get('canary_wrong'):
            total.errors.append(f'vacuity canary (sharded run, bound {self.bound}): {len(canary)} outcome(s), '
                                f'{c.get("canary_wrong", 0)} wrong results -- scheduler does not interleave')
        for d in self.drivers() + [CANARY]:
            db = self.bound if d == CANARY else self.driver_bound(d)
            per = {p: c.get(f'sched_exec:{d}:p{p}', 0) for p in range(db + 1)}
            n = sum(per.values())
            outs = len([k for k in total.outcomes if k.startswith(f'sched:{d}=')])
            pts = c.get(f'sched_points:{d}', 0)
            total.notes.append(f'schedules {d}: explored {n} (by preemptions {per}), bound completed {db}, mean points/execution '
                               f'{pts / n if n else 0:.1f}, distinct outcomes {outs}')
        hist_keys = {}
        for k in total.outcomes:
            if k.startswith('hist:'):
                ev = k[5:].rsplit('=', 1)[0]
                hist_keys[ev] = hist_keys.get(ev, 0) + 1
        multi = sorted(ev for ev, n in hist_keys.items() if n > 1)
        hs = {n: c.get(f'hist_states:{n}', 0) for n, _, _ in self.spaces}
        total.notes.append(f'histories: states per space {hs} (+{c.get("hist_extra", 0)} in the rotated extra slice), '
                           f'{len(hist_keys)} observation keys, keys with more than one observation: {multi or "none"}')
        free = c.get('free_runs', 0)
        total.notes.append(f'free-running pass: {free} runs, {c.get("free_mismatch", 0)} differing from sequential '
                           f'(reported, not deciding)')

    # ---- replay ----------------------------------------------------------------
    def replay(self, case):
        kind = case['kind']
        if kind == 'args':
            r = ShardResult()
            obs = self.check_arg_case(r, case['struct'], case['leaf'], case['program'], case['ctx'])
            if r.violations:
                return True, '\n'.join(v.detail for v in r.violations)
            return False, f'args case {case}: observed {obs}; arguments untouched, nothing shared'
        if kind == 'pristine':
            diff = self.pristine_again([case['event']])
            if diff:
                ev, first, second = diff[0]
                return True, f'event {ev} alone on a fresh interpreter: first {first}; second time {second}'
            return False, f'event {case["event"]}: same observation both times'
        if kind == 'history':
            h = tuple(case['history'])
            obs, fails = self.replay_history(h)
            text = '\n'.join(f'  #{i} {ev}: observed {o}   pristine {self.pristine[ev]}'
                             for i, (ev, o) in enumerate(zip(h, obs)))
            if fails:
                return True, f'history {list(h)}:\n{text}\n' + '\n'.join(f['text'] for f in fails)
            return False, f'history {list(h)}:\n{text}\nall observations equal the pristine ones'
        if kind == 'schedule':
            driver = case['driver']
            devs = [(d[0], d[1], tuple(d[2]) if d[2] is not None else None) for d in case['devs']]
            seq = self.seq(driver)
            make = make_driver(driver)
            verdicts = []
            texts = []
            for n in range(2):
                ex, state = sched.run_schedule(make, classify, devs)
                fails = judge_execution(driver, ex.results, state, seq)
                verdicts.append(bool(fails))
                texts.append(f'run {n}: {ex.npoints} points, {ex.preemptions} preemption(s), trace {ex.trace_digest()}, '
                             f'results {ex.results}; sequential {seq}; '
                             + ('; '.join(f[3] for f in fails) if fails else 'all calls equal their sequential results'))
            if verdicts[0] != verdicts[1]:
                return False, 'NONDETERMINISTIC replay (harness problem):\n' + '\n'.join(texts)
            return verdicts[0], f'driver {driver} schedule {case["devs"]}\n' + '\n'.join(texts)
        raise ValueError(kind)
