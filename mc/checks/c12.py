"""
C12 -- Translation to and from FPCore preserves meaning.

Space (mc/engine/progen_c12.py): bounded-exhaustive enumeration of FPy programs in
the FPCore-expressible subset -- every block-structure tree of the kernel grammar
(simple updates, `with` blocks with a continuation, if / if-else, counted and
one-variable while loops, for over a list argument and over range) up to a node
bound, x every assignment of the context pool to its `with` nodes x outer context
x return form; feature templates (tuples, fixed-size lists, comprehensions,
sum / any / all / len / min / max) x every contiguous range of statements wrapped
in an inner `with`; x argument vectors (doubles that round visibly in binary16,
8401.64, 1/3, specials) x list sizes 0-3.

Observations per (program, list size, input), judged only when the FPy
interpreter returns on the original:

  compile   meaning of `FPCoreCompiler().compile(f)` vs `f(*args)`;
  read      `Function.from_fpcore(core)(*args)` vs the meaning of the core
            (and vs `f(*args)` where the core has no usable meaning).

Meaning of a core: titanfp's `mpmf.Interpreter().interpret(core, args)` (the
reference evaluator named by the property; trusted base).  Where titanfp
refuses or crashes the compile direction is *inconclusive* (counted, never a
violation).  Because titanfp has quirks of its own (overflow under a directed
rounding mode gives infinity; an exactly cancelled sum under toNegative gives
+0), a disagreement with titanfp is arbitrated by mc/model/fpcore_c12.py, an
evaluator of the printed FPCore text written from the FPCore standard (annotation
`(! props e)` applies to `e` only, inherits the other properties): FPy agreeing
with the standard where titanfp does not is counted `titanfp_quirk`, not a
violation; FPy disagreeing with both is a violation.  The one verdict taken
without titanfp's value: titanfp raises *and* the standard evaluator finds the
core ill-formed (ref of a scalar, index out of range, unbound variable) or
non-terminating within its step budget, although the FPy program returned --
that is the core being wrong, not titanfp declining a construct (an empty
tensor, which titanfp cannot build, stays inconclusive).  Zeros compare equal
regardless of sign (titanfp does not implement the IEEE rule; the statement is
about precision and rounding mode).

Signatures name the direction (compile / read / roundtrip), the kind of failure
and its *cause* where the check can establish one mechanically (the cause is
found by an experiment, not guessed from the program's looks):

  continuation-inside-annotation   (compile) the core means exactly what the
      program means after every statement following a `with` block is moved
      into that block (FPy interpreter on the moved program), *and* the compiler
      emits for the program the very text it emits for the moved program;
  ref-index-order                  (compile) reversing the index list of every
      multi-index `ref` in the core text makes the standard evaluator agree;
  range-quotient-rounded-before-ceil  (compile) rounding the quotient of a
      3-argument range length toPositive makes the standard evaluator agree;
  annotation-props-not-Data        (read) from_fpcore raises AttributeError on a
      core object whose `!` nodes carry bare strings (the text re-reads fine);
  fresh-name-clash                 (read) re-reading the core with every bound
      name given a suffix (so none looks like `<prefix><number>`) is right;
  nested-annotation-not-inherited  (read) re-reading the core with every `!`
      made to carry all inherited properties is right;
  while-condition-hoisted          (read) the re-read function exceeds a
      deterministic line budget and the core has a `while` whose condition
      needs statements (let / if / !);
  two causes joined by `+` when only both repairs together explain the case;
  otherwise cause=unexplained and shape = the node kinds of the program.

Wall-clock timers are only a backstop against a hanging worker (CAP note, never
a verdict); divergence is decided by deterministic budgets (steps of the standard
evaluator, executed lines of the re-read function).
"""

from __future__ import annotations

import linecache
import math
import signal
import sys
from contextlib import contextmanager
from fractions import Fraction

from ..engine.runner import BaseCheck, ShardResult
from ..engine.loader import load_source
from ..engine import progen_c12 as G
from ..model.xreal import X
from ..model import fpcore_c12 as REF

import fpy2 as fp
from fpy2 import FPCoreCompiler
from fpy2.backend.fpc import FPCoreCompileError
from fpy2.ast.fpyast import ListTypeAnn, RealTypeAnn
from fpy2.number import Float

import titanfp.fpbench.fpcast as fpcast
from titanfp.fpbench import fpcparser
from titanfp.arithmetic.mpmf import MPMF, Interpreter as TitanInterpreter
from titanfp.titanic import ndarray as _ndarray

TIME_LIMIT = 600.0       # wall-clock backstop for one step that normally takes milliseconds; it only
                         # keeps a worker from hanging: a step it cuts is counted (CAP note), never judged
LINE_BUDGET = 4000       # executed lines of generated code allowed to a re-read function (deterministic)


class _Timeout(BaseException):
    pass


def _on_alarm(signum, frame):
    raise _Timeout()


@contextmanager
def time_limit(sec: float):
    old = signal.signal(signal.SIGALRM, _on_alarm)
    signal.setitimer(signal.ITIMER_REAL, sec)
    try:
        yield
    finally:
        signal.setitimer(signal.ITIMER_REAL, 0)
        signal.signal(signal.SIGALRM, old)


class _OverBudget(BaseException):
    pass


def call_with_line_budget(fn, args, budget: int = LINE_BUDGET):
    """calls fn(*args) counting the lines executed in code generated by the FPy interpreter for a
    function without source location (file name `<unknown>`: what from_fpcore produces); raises
    _OverBudget beyond the budget.  Deterministic, unlike a timer."""
    count = [0]

    def local(frame, event, arg):
        if event == 'line':
            count[0] += 1
            if count[0] > budget:
                raise _OverBudget()
        return local

    def glob(frame, event, arg):
        if frame.f_code.co_filename == '<unknown>':
            return local
        return None
    old = sys.gettrace()
    sys.settrace(glob)
    try:
        return fn(*args)
    finally:
        sys.settrace(old)
        if count[0] <= budget and count[0] > MAX_LINES_SEEN[0]:
            MAX_LINES_SEEN[0] = count[0]


MAX_LINES_SEEN = [0]      # largest line count of a call that stayed within the budget (margin control)


# ---------------------------------------------------------------------------
# values

def enc_float(x: float) -> str:
    if math.isnan(x):
        return 'nan'
    if math.isinf(x):
        return 'inf' if x > 0 else '-inf'
    return x.hex()


def dec_float(s: str) -> float:
    if s in ('nan', 'inf', '-inf'):
        return float(s)
    return float.fromhex(s)


def enc_args(args):
    return [[enc_float(x) for x in a] if isinstance(a, list) else enc_float(a) for a in args]


def dec_args(enc):
    return [[dec_float(x) for x in a] if isinstance(a, list) else dec_float(a) for a in enc]


def show_args(args):
    return '(' + ', '.join(repr(a) for a in args) + ')'


def canon_fpy(v):
    if isinstance(v, bool):
        return v
    if isinstance(v, Float):
        if v.isnan:
            return X.nan()
        if v.isinf:
            return X.inf(v.s)
        return X('fin', v.s, Fraction(v.as_rational()))
    if isinstance(v, (int, Fraction)):
        return X.fin(Fraction(v))
    if isinstance(v, float):
        return X.from_pyfloat(v)
    if isinstance(v, (tuple, list)):
        return tuple(canon_fpy(x) for x in v)
    if hasattr(v, 'as_rational'):
        return X.fin(Fraction(v.as_rational()))
    raise TypeError(f'unexpected FPy result {v!r}')


def canon_titan(v):
    if isinstance(v, bool):
        return v
    if isinstance(v, _ndarray.NDArray):
        return tuple(canon_titan(x) for x in v)
    if isinstance(v, (tuple, list)):
        return tuple(canon_titan(x) for x in v)
    if hasattr(v, 'isnan') and hasattr(v, 'negative'):
        if v.isnan:
            return X.nan()
        if v.isinf:
            return X.inf(bool(v.negative))
        q = Fraction(int(v.c)) * Fraction(2) ** int(v.exp)
        return X('fin', bool(v.negative), -q if v.negative else q)
    raise TypeError(f'unexpected titanfp result {v!r}')


def same(a, b) -> bool:
    if isinstance(a, bool) or isinstance(b, bool):
        return isinstance(a, bool) and isinstance(b, bool) and a == b
    if isinstance(a, tuple) or isinstance(b, tuple):
        return (isinstance(a, tuple) and isinstance(b, tuple) and len(a) == len(b)
                and all(same(x, y) for x, y in zip(a, b)))
    return a.same(b, zero_sign=False)


def same_strict(a, b) -> bool:
    """`same`, but a zero must have the same sign"""
    if isinstance(a, bool) or isinstance(b, bool):
        return isinstance(a, bool) and isinstance(b, bool) and a == b
    if isinstance(a, tuple) or isinstance(b, tuple):
        return (isinstance(a, tuple) and isinstance(b, tuple) and len(a) == len(b)
                and all(same_strict(x, y) for x, y in zip(a, b)))
    return a.same(b, zero_sign=True)


def has_zero(v) -> bool:
    if isinstance(v, bool):
        return False
    if isinstance(v, tuple):
        return any(has_zero(x) for x in v)
    return v.iszero


def show(v) -> str:
    if isinstance(v, tuple):
        return '(' + ', '.join(show(x) for x in v) + ')'
    if isinstance(v, X) and v.isfin and not v.iszero:
        q = v.q
        return f'{float(q)!r}' if Fraction(float(q)) == q else str(q)
    return repr(v)


def out_class(v) -> str:
    if isinstance(v, bool):
        return 'bool'
    if isinstance(v, tuple):
        return 'seq' + str(len(v))
    return 'nan' if v.isnan else 'inf' if v.isinf else 'zero' if v.iszero else 'fin'


def to_titan(a):
    if isinstance(a, list):
        return [to_titan(x) for x in a]
    f = Float.from_float(float(a))
    return MPMF(negative=f.s, exp=f.exp, c=f.c, isinf=f.isinf, isnan=f.isnan)


def to_ref(a):
    if isinstance(a, list):
        return tuple(to_ref(x) for x in a)
    return X.from_pyfloat(float(a))


# ---------------------------------------------------------------------------
# input pools

THIRD = 1.0 / 3.0
SCALARS_QUICK = [(8401.64, THIRD), (THIRD, 0.1), (-2.25, 1.7), (7.0, 2.0), (-0.0, float('inf')),
                 (float('nan'), 1.5)]
SCALARS_MORE = [(0.1, 8401.64), (65504.0, 1.0009765625), (2.0 ** -20, 3.0), (1e-5, -THIRD), (3.0, -0.3),
                (1.0, 1.0), (float('-inf'), -1.0), (1.1, 1e-7)]
LISTS = {0: [[]], 1: [[THIRD], [8401.64]], 2: [[8401.64, THIRD], [0.1, -2.25]],
         3: [[0.1, -2.25, THIRD], [1.1, 8401.64, 0.7]]}
LISTS_MORE = {1: [[float('nan')]], 2: [[float('inf'), 1.5]], 3: [[THIRD, THIRD, -0.0]]}


# family Z: +0.0 / -0.0 in both orders (and against a non-zero)
ZERO_SCALARS = [(0.0, -0.0), (-0.0, 0.0), (0.0, 0.0), (-0.0, -0.0), (-0.0, 3.0), (0.0, -3.0), (1.5, -0.0),
                (-2.25, 0.0)]
ZERO_LISTS = {1: [[-0.0], [0.0]], 2: [[0.0, -0.0], [-0.0, 0.0]],
              3: [[0.0, -0.0, 0.0], [-0.0, 0.0, -0.0], [-0.0, -0.0, 0.0], [-1.5, -0.0, 0.0], [0.0, -0.0, -1.5]]}


def flat_items(items):
    """the same program with every context replaced by binary64 / nearestEven"""
    out = []
    for it in items:
        k = it[0]
        if k == 'with':
            out.append(('with', 'D_RNE', flat_items(it[2])))
        elif k == 'if':
            out.append(('if', it[1], flat_items(it[2]), None if it[3] is None else flat_items(it[3])))
        elif k == 'while':
            out.append(('while', it[1], flat_items(it[2])))
        elif k == 'for':
            out.append(('for', it[1], it[2], flat_items(it[3])))
        else:
            out.append(it)
    return out


def node_kinds(src: str) -> str:
    ks = []
    for word, tag in (('with ', 'with'), ('if ', 'if'), ('else:', 'else'), ('while ', 'while'), ('for ', 'for'),
                      ('sum(', 'sum'), ('any(', 'any'), ('all(', 'all'), ('min(', 'min'), ('max(', 'max'),
                      ('len(', 'len'), ('range(', 'range'), ('] = ', 'setitem'), (', (', 'tuple')):
        if word in src:
            ks.append(tag)
    return '+'.join(ks) or 'straight'


def has_stmt_after_with(src: str) -> bool:
    """a `with` block followed, in the same block, by another statement"""
    lines = [ln for ln in src.splitlines() if ln.strip()]
    for i, ln in enumerate(lines):
        s = ln.lstrip()
        if not s.startswith('with '):
            continue
        ind = len(ln) - len(s)
        for nxt in lines[i + 1:]:
            ni = len(nxt) - len(nxt.lstrip())
            if ni > ind:
                continue
            if ni == ind and not nxt.lstrip().startswith(('else:', 'elif ')):
                return True
            break
    return False


def _bare_string_props(e, seen=None) -> bool:
    """does the core object contain a `!` node whose property values are not fpcast.Data?"""
    stack = [e]
    while stack:
        cur = stack.pop()
        if isinstance(cur, fpcast.Ctx):
            if any(not isinstance(v, fpcast.Data) for v in cur.props.values()):
                return True
        if not isinstance(cur, fpcast.Expr):
            continue
        try:
            groups = cur.subexprs()
        except (NotImplementedError, TypeError, ValueError):
            continue
        for g in groups:
            stack.extend(g)
    return False


def core_text(core) -> str:
    """the FPCore as text.  titanfp's own `FPCore.sexp` prints a tensor argument `(us 2)`
    as `(us2)` (no separator), so the argument list is printed here; the body is titanfp's."""
    parts = []
    for name, props, shape in core.inputs:
        if props:
            raise ValueError('annotated argument')
        if shape:
            parts.append('(' + ' '.join([str(name)] + [fpcast.sexp_to_string(d) for d in shape]) + ')')
        else:
            parts.append(str(name))
    props = ''.join(f':{k} {fpcast.sexp_to_string(v)} ' for k, v in core.props.items())
    return f'(FPCore ({" ".join(parts)}) {props}{core.e})'


def _sexp_str(e) -> str:
    if isinstance(e, list):
        return '(' + ' '.join(_sexp_str(x) for x in e) + ')'
    if isinstance(e, tuple):
        return '"' + e[1] + '"'
    return e


def _binders(e, acc):
    """names bound anywhere in an FPCore expression tree (parsed text)"""
    if not isinstance(e, list) or not e:
        return
    head = e[0]
    if head in ('let', 'let*') and len(e) == 3:
        for b in e[1]:
            acc.add(b[0])
    elif head in ('while', 'while*') and len(e) == 4:
        for b in e[2]:
            acc.add(b[0])
    elif head in ('for', 'for*', 'tensor*') and len(e) == 4:
        for b in e[1]:
            acc.add(b[0])
        for b in e[2]:
            acc.add(b[0])
    elif head == 'tensor' and len(e) == 3:
        for b in e[1]:
            acc.add(b[0])
    for x in e:
        _binders(x, acc)


def alpha_renamed(text: str) -> str:
    """the same core with every bound name (arguments included) given the suffix `_q`, so that
    no name of the core looks like `<prefix><number>`"""
    form = REF.parse_sexp(text)[0]
    names = set()
    i = 1
    if isinstance(form[i], str):
        i += 1
    for a in form[i]:
        names.add(a[0] if isinstance(a, list) else a)
    _binders(form, names)

    def sub(e):
        if isinstance(e, list):
            return [sub(x) for x in e]
        if isinstance(e, str) and e in names:
            return e + '_q'
        return e
    return _sexp_str(sub(form))


def core_level_props(form) -> dict:
    """{':precision': v, ':round': v} given at the top of a parsed (FPCore ...) form"""
    i = 1
    if isinstance(form[i], str):
        i += 1
    i += 1
    out = {}
    while i < len(form) - 1 and isinstance(form[i], str) and form[i].startswith(':'):
        if form[i] in (':precision', ':round'):
            out[form[i]] = form[i + 1]
        i += 2
    return out


def core_props_completed(text: str):
    """the same core with the standard's defaults written out at the top for whichever of
    :precision / :round it gives only one of; None if it gives both or neither"""
    form = REF.parse_sexp(text)[0]
    have = core_level_props(form)
    if len(have) != 1:
        return None
    add = [':round', 'nearestEven'] if ':precision' in have else [':precision', 'binary64']
    i = 2 if isinstance(form[1], str) else 1
    return _sexp_str(form[:i + 1] + add + form[i + 1:])


def annotations_explicit(text: str, from_core: bool = False) -> str:
    """the same core with every `!` carrying all the properties it inherits (from the
    enclosing annotations; with `from_core`, from the core's own properties too)"""
    form = REF.parse_sexp(text)[0]
    top = core_level_props(form) if from_core else {}

    def sub(e, inh):
        if not isinstance(e, list) or not e:
            return e
        if e[0] == '!':
            merged = dict(inh)
            i = 1
            while i < len(e) - 1:
                merged[e[i]] = e[i + 1]
                i += 2
            out = ['!']
            for k, v in merged.items():
                out += [k, v]
            return out + [sub(e[-1], merged)]
        return [sub(x, inh) for x in e]
    return _sexp_str(sub(form, top))


def annotations_defaulted(text: str):
    """the same core with every `!` that sets an IEEE :precision but no :round given
    `:round nearestEven`, and every `!` that sets :round but no :precision given
    `:precision binary64` -- i.e. each annotation made a complete context by the standard's
    defaults instead of by inheritance (an FPy context fixes every property, so an annotation
    emitted for one should not leave any to the enclosing scope).  `:precision integer`
    annotations (the backend's own index arithmetic) are left alone.  None if nothing changes."""
    form = REF.parse_sexp(text)[0]
    hit = [False]

    def sub(e):
        if not isinstance(e, list) or not e:
            return e
        if e[0] == '!':
            keys = {e[i]: e[i + 1] for i in range(1, len(e) - 1, 2)}
            add = []
            prec = keys.get(':precision')
            ieee = isinstance(prec, list) or (isinstance(prec, str) and prec.startswith('binary'))
            if ieee and ':round' not in keys:
                add = [':round', 'nearestEven']
            elif ':round' in keys and ':precision' not in keys:
                add = [':precision', 'binary64']
            if add:
                hit[0] = True
            return e[:-1] + add + [sub(e[-1])]
        return [sub(x) for x in e]
    out = sub(form)
    return _sexp_str(out) if hit[0] else None


def range_quotient_up(text: str):
    """the same core with the quotient of every 3-argument range length rounded toPositive
    (so that `ceil` sees the quotient, not the quotient rounded under the inherited mode)"""
    pat = '(! :precision integer (ceil (/ '
    if pat not in text:
        return None
    return text.replace(pat, '(! :precision integer :round toPositive (ceil (/ ')


def while_condition_needs_statements(text: str) -> bool:
    """does the core have a `while` whose condition contains a binding / annotation / branch
    (something a statement language must compute with statements before it can test it)?"""
    form = REF.parse_sexp(text)[0]
    heads = {'let', 'let*', '!', 'if', 'for', 'for*', 'tensor', 'tensor*', 'while', 'while*'}

    def contains(e):
        if isinstance(e, list) and e:
            if isinstance(e[0], str) and e[0] in heads:
                return True
            return any(contains(x) for x in e)
        return False

    def walk(e):
        if isinstance(e, list) and e:
            if e[0] in ('while', 'while*') and len(e) == 4 and contains(e[1]):
                return True
            return any(walk(x) for x in e)
        return False
    return walk(form)


def refs_reversed(text: str):
    """the same core with the index list of every multi-index `ref` reversed, or None
    if it has none"""
    form = REF.parse_sexp(text)[0]
    hit = [False]

    def sub(e):
        if isinstance(e, list):
            e = [sub(x) for x in e]
            if e and e[0] == 'ref' and len(e) >= 4:
                hit[0] = True
                return e[:2] + e[:1:-1]
            return e
        return e
    out = sub(form)
    return _sexp_str(out) if hit[0] else None


def _r_class(tags) -> str:
    """coarse class of a layer-R core: which properties the core itself and its annotation(s) set"""
    def cls(name):
        if name in ('none', '', None):
            return 'none'
        p, rr = 'P' in name, 'R' in name
        return 'precision+round' if p and rr else 'precision-only' if p else 'round-only'
    return f'core sets {cls(tags.get("func"))}'


class Loaded:
    """one program text loaded for one list size"""

    def __init__(self, src: str, nlist):
        self.src = src
        mod = load_source(src, prelude=G.PRELUDE)
        self.f = mod.f
        if nlist is not None:
            for arg in self.f.ast.args:
                if isinstance(arg.type, ListTypeAnn):
                    arg.type = ListTypeAnn(RealTypeAnn(None, None), nlist, None)

    def call(self, args):
        """('ok', canon) | ('raises', text) | ('timeout', '')"""
        a = [list(x) if isinstance(x, list) else x for x in args]
        try:
            with time_limit(TIME_LIMIT):
                v = self.f(*a)
            return ('ok', canon_fpy(v))
        except _Timeout:
            return ('timeout', '')
        except Exception as e:          # noqa: BLE001 - whatever the interpreter raises
            return ('raises', f'{type(e).__name__}: {str(e)[:160]}')


def _reset_caches():
    try:
        from fpy2.interpret import get_default_interpreter
        cache = getattr(get_default_interpreter(), 'func_cache', None)
        if cache is not None:
            cache.clear()
    except Exception:   # noqa: BLE001
        pass


class Check(BaseCheck):
    pid = 'C12'
    rule = ('every program of the kernel grammar up to the node bound x context assignments, every feature template x '
            'inner-with range x context pair, x list sizes x argument vectors; each (program, size, input) on which '
            'the FPy interpreter returns is compiled to FPCore, evaluated by titanfp (arbitrated by the FPCore-text '
            'reference evaluator), re-read with from_fpcore and evaluated again.  nontrivial = distinct cases whose '
            'FPy result changes when every context of the program is replaced by binary64/nearestEven (the '
            'annotations matter); scoping_visible = cases whose result changes when statements after a with block '
            'are moved into it')
    assumptions = ['titanfp mpmf.Interpreter is the reference FPCore evaluator (trusted base); where it refuses or '
                   'crashes the compile direction is inconclusive',
                   'mc/model/fpcore_c12.py arbitrates FPy-vs-titanfp disagreements by the FPCore standard; it is '
                   'never the sole ground for a violation of the compile direction',
                   'the sign of a zero result is not compared',
                   'inputs on which the FPy interpreter raises on the original are not judged']
    trusted_base = ['titanfp.arithmetic.mpmf.Interpreter', 'titanfp.fpbench.fpcparser', 'gmpy2/MPFR']

    NSHARDS = 64

    # ---- the declared space ---------------------------------------------
    def _tier(self):
        q = self.tier == 'quick'
        allk = ('S', 'A', 'W', 'E', 'I', 'H', 'L', 'R')
        names = list(G.CONTEXTS)
        if q:
            outer = ['H_RTZ', 'S_RTP']
            inner = ['D_RNE', 'H_RTN', 'INT']
            plan = dict(
                full=dict(sizes=(1, 2, 3), depth=3, kinds=allk, outer=outer, inner=inner, returns=('pair',),
                          rots=(0,)),
                sw=dict(sizes=(3, 4), depth=3, kinds=('S', 'W'), outer=outer, inner=inner,
                        returns=('op',), rots=(1,)),
                pairs=[('H_RTZ', 'D_RNE'), ('D_RNE', 'H_RTZ'), ('S_RTN', 'H_RTP'), ('H_RNE', 'INT')],
                xpairs=[(o, i) for o in ('H_RTZ', 'S_RTP', 'D_RNE', 'INT') for i in ('H_RTN', 'D_RTZ', 'I_RNE')],
                scalars=SCALARS_QUICK, lists=LISTS,
                rcores=dict(funcs=['none', 'P32', 'Rz', 'P32Rz'], anns=list(G.R_ANN), nested=G.R_NESTED),
                vouters=['H_RTZ'], zouters=['D_RNE', 'H_RTP'],
            )
            # seed-rotated extra slice of the next bound (size-4 skeletons), on top of the complete core
            plan['slice'] = dict(sizes=(4,), depth=3, kinds=allk, outer=['H_RTZ'], inner=['D_RNE'],
                                 returns=('pair',), rots=(0,), stride=40, offset=self.seed % 40)
        else:
            outer = ['H_RTZ', 'S_RTP']
            inner = ['D_RNE', 'H_RTN', 'INT']
            plan = dict(
                full=dict(sizes=(1, 2, 3, 4), depth=3, kinds=allk, outer=outer, inner=inner,
                          returns=('pair',), rots=(0,), max_withs=2),
                sw=dict(sizes=(2, 3, 4, 5, 6), depth=4, kinds=('S', 'W'), outer=['H_RNE', 'D_RTZ'],
                        inner=['D_RNE', 'H_RTP', 'INT'], returns=('op',), rots=(1,)),
                small=dict(sizes=(1, 2), depth=3, kinds=allk, outer=names, inner=names, returns=('op', 'var'),
                           rots=(2,), max_withs=1),
                pairs=[(o, i) for o in names for i in ('D_RNE', 'H_RTN') if o != i] + [('H_RTZ', 'INT'), ('D_RNE', 'I_RNE')],
                xpairs=[(o, i) for o in names for i in names],
                scalars=SCALARS_QUICK + SCALARS_MORE,
                lists={k: LISTS[k] + LISTS_MORE.get(k, []) for k in LISTS},
                rcores=dict(funcs=list(G.R_FUNC_PROPS), anns=list(G.R_ANN), nested=G.R_NESTED),
                vouters=['H_RTZ', 'D_RNE', 'S_RTP', 'INT', 'H_RNE'],
                zouters=['D_RNE', 'H_RTP', 'S_RTP', 'H_RTZ', 'S_RNE'],
            )
        return plan

    def programs(self):
        """deterministic enumeration of the whole program space of the tier"""
        plan = self._tier()
        for name in ('full', 'sw', 'small'):
            if name in plan:
                p = plan[name]
                yield from G.kernel_programs(p['sizes'], p['depth'], p['kinds'], p['outer'], p['inner'],
                                             p['returns'], p['rots'], p.get('max_withs'))
        if 'slice' in plan:
            p = plan['slice']
            for i, prog in enumerate(G.kernel_programs(p['sizes'], p['depth'], p['kinds'], p['outer'], p['inner'],
                                                       p['returns'], p['rots'])):
                if i % p['stride'] == p['offset']:
                    yield prog
        yield from G.template_programs(list(G.TEMPLATES), plan['pairs'])
        yield from G.intro_programs(plan['vouters'], 'D_RNE')
        yield from G.zero_programs(plan['zouters'])
        yield from G.extra_programs(plan['xpairs'])

    def inputs(self, sig: str, family: str = ''):
        """[(nlist | None, [args, ...])]"""
        plan = self._tier()
        if family == 'Z':
            if sig == 'scalar':
                return [(None, [list(p) for p in ZERO_SCALARS])]
            return [(n, [[list(us), u, v] for us in ZERO_LISTS[n] for (u, v) in ((0.0, -0.0), (-0.0, 1.5))])
                    for n in sorted(ZERO_LISTS)]
        if sig == 'scalar':
            return [(None, [list(p) for p in plan['scalars']])]
        out = []
        sc = plan['scalars']
        for n in sorted(plan['lists']):
            argss = []
            for j, us in enumerate(plan['lists'][n]):
                for (u, v) in (sc[(2 * j) % len(sc)], sc[(2 * j + 1) % len(sc)]):
                    argss.append([list(us), u, v])
            out.append((n, argss))
        return out

    def core_inputs(self):
        """argument vectors of layer R: the scalar pool and the same vectors rounded to binary32 and
        to binary16 (a core with its own :precision takes arguments of that precision; vectors that
        are not are counted precondition_false)"""
        import struct
        out = []
        seen = set()
        for (u, v) in self._tier()['scalars']:
            cands = [(u, v)]
            try:
                cands.append(tuple(struct.unpack('f', struct.pack('f', t))[0] for t in (u, v)))
            except OverflowError:
                pass
            try:
                cands.append(tuple(struct.unpack('e', struct.pack('e', t))[0] for t in (u, v)))
            except OverflowError:
                pass
            for c in cands:
                k = tuple(enc_float(t) for t in c)
                if k not in seen:
                    seen.add(k)
                    out.append(list(c))
        return out

    def cores(self):
        p = self._tier()['rcores']
        return G.read_cores(p['funcs'], p['anns'], p['nested'])

    def bounds(self):
        plan = self._tier()
        b = {k: {kk: (list(vv) if isinstance(vv, (tuple, list)) else vv) for kk, vv in plan[k].items()}
             for k in ('full', 'sw', 'small', 'slice') if k in plan}
        b['read_layer'] = {'function_level': plan['rcores']['funcs'], 'annotations': plan['rcores']['anns'],
                           'nested': [f'{a}>{b_}' for a, b_ in plan['rcores']['nested']],
                           'shapes': [n for n, _ in G.R_SHAPES_1 + G.R_SHAPES_2],
                           'inputs': len(self.core_inputs())}
        b['intro_family'] = {'names': list(G.V_NAMES), 'mutated': [''.join(m) for m in G.V_MUTATED],
                             'places': list(G.V_PLACES), 'outer': plan['vouters']}
        b['zero_sign_family'] = {'programs': list(G.Z_SCALAR) + list(G.Z_LIST), 'returns': list(G.Z_RETURNS),
                                 'outer': plan['zouters'], 'scalar_inputs': len(ZERO_SCALARS)}
        b['template_pairs'] = len(plan['pairs'])
        b['templates'] = list(G.TEMPLATES)
        b['scalar_inputs'] = len(plan['scalars'])
        b['list_sizes'] = sorted(plan['lists'])
        b['contexts'] = list(G.CONTEXTS)
        return b

    def shards(self):
        return [(k, self.NSHARDS) for k in range(self.NSHARDS)]

    def selfcheck(self):
        """vacuity canaries: both core evaluators give the hand-computed value of a binary16 /
        toZero product (8401.64 * (1/3) = 2800.546..., spacing 2 there, so 2800), the annotation
        applies to its expression only, and the judging path reports a planted miscompilation."""
        text = '(FPCore (u v) (let ([a (! :precision binary16 :round toZero (* u v))]) (array a (* a v))))'
        args = [8401.64, THIRD]
        want = (X.fin(2800), X.fin(Fraction(float(2800) * THIRD)))
        core = fpcparser.compile1(text)
        rt = self.titan(core, args)
        rm = self.refeval(text, args)
        if rt[0] != 'ok' or not same(rt[1], want):
            raise RuntimeError(f'titanfp canary: {rt}')
        if rm[0] != 'ok' or not same(rm[1], want):
            raise RuntimeError(f'reference evaluator canary: {rm}')
        # a program whose continuation sits under the block's annotation must be told apart from
        # the original by the interpreter itself (otherwise the inputs show nothing)
        items = [G.W('H_RTZ', [G.S('a = u'), G.S('b = v'), G.W('D_RNE', [G.S('a = a + b')]), G.S('b = a * b'),
                               G.S('return (a, b)')])]
        P = Loaded(G.source('scalar', items), None)
        Q = Loaded(G.source('scalar', G.sink(items)), None)
        if same(P.call(args)[1], Q.call(args)[1]):
            raise RuntimeError('canary: moving the continuation into the with block is invisible')
        _reset_caches()

    # ---- one program -----------------------------------------------------
    def compile(self, loaded: Loaded):
        """('ok', core, uic) | ('rejected', text) | ('crash', text) | ('timeout', '')"""
        last = None
        for uic in (False, True):
            try:
                with time_limit(TIME_LIMIT):
                    core = FPCoreCompiler(unsafe_int_cast=uic).compile(loaded.f)
                return ('ok', core, uic)
            except FPCoreCompileError as e:
                last = ('rejected', f'{type(e).__name__}: {str(e)[:160]}')
                if 'unrounded constant' in str(e) and not uic:
                    continue
                return last
            except _Timeout:
                return ('timeout', '')
            except Exception as e:      # noqa: BLE001
                return ('crash', f'{type(e).__name__}: {str(e)[:160]}')
        return last

    def titan(self, core, args):
        try:
            with time_limit(TIME_LIMIT):
                v = TitanInterpreter().interpret(core, [to_titan(a) for a in args])
            return ('ok', canon_titan(v))
        except _Timeout:
            return ('timeout', '')
        except Exception as e:          # noqa: BLE001
            return ('refused', f'{type(e).__name__}: {str(e)[:120]}')

    def refeval(self, text, args, ignore_props=False):
        try:
            return ('ok', REF.evaluate(text, [to_ref(a) for a in args], ignore_props=ignore_props))
        except REF.ArgumentNotRepresentable as e:
            return ('argument-not-representable', str(e)[:120])
        except REF.Unsupported as e:
            return ('unsupported', str(e)[:120])
        except REF.Undefined as e:
            return ('undefined', str(e)[:120])
        except REF.RefError as e:
            return ('malformed', str(e)[:120])
        except REF.Diverged as e:
            return ('diverged', str(e)[:120])

    def reread(self, core, text):
        """[(via, 'ok', Function) | (via, 'raises', text)] -- the object first; the printed
        text only when the object could not be read"""
        out = []
        try:
            with time_limit(TIME_LIMIT):
                g = fp.Function.from_fpcore(core)
            out.append(('object', 'ok', g))
            return out
        except _Timeout:
            return [('object', 'timeout', '')]
        except Exception as e:          # noqa: BLE001
            out.append(('object', 'raises', f'{type(e).__name__}: {str(e)[:160]}'))
        try:
            with time_limit(TIME_LIMIT):
                g = fp.Function.from_fpcore(fpcparser.compile1(text))
            out.append(('text', 'ok', g))
        except _Timeout:
            out.append(('text', 'timeout', ''))
        except Exception as e:          # noqa: BLE001
            out.append(('text', 'raises', f'{type(e).__name__}: {str(e)[:160]}'))
        return out

    def call_fn(self, g, args):
        """('ok', canon) | ('raises', text) | ('diverges', '') | ('timeout', '')"""
        a = [list(x) if isinstance(x, list) else x for x in args]
        try:
            with time_limit(TIME_LIMIT):
                v = call_with_line_budget(g, a)
            return ('ok', canon_fpy(v))
        except _OverBudget:
            return ('diverges', f'more than {LINE_BUDGET} lines executed')
        except _Timeout:
            return ('timeout', '')
        except Exception as e:          # noqa: BLE001
            return ('raises', f'{type(e).__name__}: {str(e)[:160]}')

    def examine(self, r: ShardResult, src: str, sunk_src, flat_src, sig: str, nlist, argss, tags: dict,
                collect=None):
        """runs every observation on one (program text, list size) for the given inputs.
        Violations go to `r`; `collect` (replay) receives (signature, detail) too."""
        base_case = {'src': src, 'sunk_src': sunk_src, 'flat_src': flat_src, 'sig': sig, 'nlist': nlist,
                     'tags': tags}
        stmt_after = has_stmt_after_with(src)
        kinds = node_kinds(src)

        def violate(signature, args, detail):
            signature = dict(signature)
            case = dict(base_case)
            case['args'] = enc_args(args) if args is not None else None
            case['signature'] = {k: str(v) for k, v in signature.items()}
            head = f'program ({tags.get("key", "")}), list size {nlist}:\n{src}'
            r.violate(signature, case, head + detail)
            if collect is not None:
                collect.append(({k: str(v) for k, v in signature.items()}, detail))

        def cap(where):
            r.count('backstop_timeouts')
            note = f'CAP wall-clock backstop ({TIME_LIMIT:.0f} s) cut a step; not judged: {where}'
            if note not in r.notes and len(r.notes) < 20:
                r.notes.append(note)

        try:
            P = Loaded(src, nlist)
        except Exception as e:          # noqa: BLE001
            r.count('rejected_by_frontend')
            r.outcomes[f'frontend:{type(e).__name__}'] += 1
            if len(r.notes) < 5:
                r.notes.append(f'frontend rejected a generated program ({type(e).__name__}: {str(e)[:100]}): '
                               f'{tags.get("key")}')
            return
        comp = self.compile(P)
        r.count('transitions')
        if comp[0] == 'rejected':
            r.count('compile_rejected')
            r.outcomes['compile:rejected:' + comp[1].split('(')[0][:60]] += 1
            return
        if comp[0] == 'timeout':
            cap('FPCoreCompiler.compile')
            return
        if comp[0] == 'crash':
            # an accepted function on which the backend fails with something other than its
            # own CompileError: the statement promises a core for accepted functions of the subset
            violate({'direction': 'compile', 'kind': 'compiler raises ' + comp[1].split(':')[0],
                     'shape': kinds, 'cause': 'unexplained'}, None, f'FPCoreCompiler.compile raised {comp[1]}')
            return
        _, core, uic = comp
        r.outcomes['compile:ok' + (':unsafe_int_cast' if uic else '')] += 1
        try:
            text = core_text(core)
        except Exception as e:          # noqa: BLE001
            violate({'direction': 'compile', 'kind': 'core does not print', 'shape': kinds, 'cause': 'unexplained'},
                    None, f'printing the core raised {e!r}')
            return

        readers = self.reread(core, text)
        r.count('transitions')
        g = None
        via = None
        for v_, st_, obj in readers:
            if st_ == 'ok':
                g, via = obj, v_
            elif st_ == 'timeout':
                cap('Function.from_fpcore')
            else:
                cause = 'unexplained'
                if v_ == 'object' and 'AttributeError' in obj and _bare_string_props(core.e):
                    cause = 'annotation-props-not-Data'
                violate({'direction': 'read', 'kind': 'from_fpcore raises ' + obj.split(':')[0], 'via': v_,
                         'cause': cause, 'shape': kinds if cause == 'unexplained' else 'integer-annotation'},
                        None, f'\ncore: {text}\nFunction.from_fpcore({v_}) raised {obj}')
                r.outcomes[f'read:{v_}:raises'] += 1
        if g is not None:
            r.outcomes[f'read:{via}:ok'] += 1

        lazy = {}

        def variant(name, text_):
            """sunk / flat program variants, loaded once"""
            if name not in lazy:
                try:
                    lazy[name] = Loaded(text_, nlist)
                except Exception:       # noqa: BLE001 - a variant is only a measuring aid
                    lazy[name] = None
            return lazy[name]

        def sunk_core_identical():
            if 'sunk_core' not in lazy:
                sk = variant('sunk', sunk_src) if sunk_src is not None else None
                cs = self.compile(sk) if sk is not None else None
                try:
                    lazy['sunk_core'] = bool(cs is not None and cs[0] == 'ok' and core_text(cs[1]) == text)
                except Exception:       # noqa: BLE001
                    lazy['sunk_core'] = False
            return lazy['sunk_core']

        def repaired_reader(name):
            """the re-read function of a rewritten core (diagnosis only): bound names made unlike
            generated ones, annotations made explicit, or both"""
            if name not in lazy:
                t2 = text
                if 'explicit' in name:
                    t2 = annotations_explicit(t2)
                if 'renamed' in name:
                    t2 = alpha_renamed(t2)
                try:
                    with time_limit(TIME_LIMIT):
                        lazy[name] = fp.Function.from_fpcore(fpcparser.compile1(t2))
                except BaseException:       # noqa: BLE001
                    lazy[name] = None
            return lazy[name]

        for args in argss:
            r.count('evaluations')
            r.count('states')
            rf = P.call(args)
            r.count('transitions')
            if rf[0] == 'timeout':
                cap('FPy interpreter on the original')
                continue
            if rf[0] != 'ok':
                r.count('precondition_false')
                r.outcomes['fpy:' + rf[0]] += 1
                continue
            vf = rf[1]
            r.outcomes['result:' + out_class(vf)] += 1

            # vacuity measures
            if flat_src is not None:
                fl = variant('flat', flat_src)
                rfl = fl.call(args) if fl is not None else ('ok', vf)
                if rfl[0] != 'ok' or not same(rfl[1], vf):
                    r.count('nontrivial')
            vq = None
            if sunk_src is not None:
                sk = variant('sunk', sunk_src)
                rq = sk.call(args) if sk is not None else ('raises', '')
                if rq[0] == 'ok':
                    vq = rq[1]
                    if not same(vq, vf):
                        r.count('scoping_visible')

            def cause_of(other):
                """why does the core (or the re-read function) give `other` instead of vf?  Named only
                when `other` is what the moved program computes *and* the compiler emits for the program
                the very core it emits for the moved program"""
                if vq is not None and stmt_after and same(vq, other) and not same(vq, vf) \
                        and sunk_core_identical():
                    return 'continuation-inside-annotation'
                return 'unexplained'

            def text_repair_cause(wellformed_is_enough=False):
                """a named rewrite of the core text after which the standard evaluator gives what the
                FPy program gives -- or, where the program has a statement after a `with` block, what
                the program with its continuations moved into the blocks gives (two causes at once)"""
                repairs = (('ref-index-order', 'nested-tuple-binding', refs_reversed),
                           ('range-quotient-rounded-before-ceil', 'range-with-step', range_quotient_up),
                           ('annotation-omits-property-fixed-by-context', 'partial-annotation',
                            annotations_defaulted))
                cands = []
                both = text
                names, shapes = [], []
                for name, shape, fn in repairs:
                    t2 = fn(text)
                    if t2 is None:
                        continue
                    cands.append((name, shape, t2))
                    both = fn(both) or both
                    names.append(name)
                    shapes.append(shape)
                if len(cands) > 1:
                    cands.append(('+'.join(names), '+'.join(shapes), both))
                targets = [(vf, '', '')]
                if vq is not None and stmt_after and not same(vq, vf) and sunk_core_identical():
                    targets.append((vq, '+continuation-inside-annotation', '+stmt-after-with'))
                for want, csuf, ssuf in targets:
                    for name, shape, t2 in cands:
                        r2 = self.refeval(t2, args)
                        if r2[0] == 'ok' and same(r2[1], want):
                            return name + csuf, shape + ssuf
                if wellformed_is_enough:
                    # the failure is that the core breaks a rule of the standard; a rewrite after which
                    # it no longer does (even if what it then computes is undefined, e.g. an infinity
                    # under `integer`) names the rule it broke
                    for name, shape, t2 in cands:
                        if self.refeval(t2, args)[0] == 'undefined':
                            return name, shape
                return 'unexplained', kinds

            # ---- meaning of the core --------------------------------------
            rm = self.refeval(text, args)
            if rm[0] == 'diverged':
                # deterministic step budget of the standard evaluator: the core loops although the
                # FPy program returned; titanfp and the re-read function are not run on it
                violate({'direction': 'compile', 'kind': 'core does not terminate', 'shape': kinds,
                         'cause': 'unexplained'}, args,
                        f'\nargs {show_args(args)}\ncore: {text}\nFPy interpreter : {show(vf)}\n'
                        f'FPCore standard : {rm[1]}\n')
                continue
            rt = self.titan(core, args)
            r.count('transitions')
            if rt[0] == 'timeout':
                cap('titanfp')
            meaning = []            # admissible meanings, titanfp first
            if rt[0] == 'ok':
                meaning.append(('titanfp', rt[1]))
                if rm[0] == 'ok':
                    if same(rm[1], rt[1]):
                        r.outcomes['oracles:agree'] += 1
                    else:
                        meaning.append(('standard', rm[1]))
                        r.outcomes['oracles:differ'] += 1
                else:
                    r.outcomes['oracles:titanfp-only:' + rm[0]] += 1
            else:
                r.count('inconclusive')
                r.outcomes['titanfp:' + rt[0] + ':' + rt[1].split(':')[0][:40] + '|standard:' + rm[0]] += 1
            undefined = rm[0] == 'undefined'
            if undefined:
                # NaN / infinity reaching an `integer` annotation: the standard gives no value,
                # titanfp and FPy's INTEGER context each do something of their own
                r.count('core_undefined_by_standard')

            # ---- compile direction ----------------------------------------
            compile_ok = None
            if meaning:
                r.count('validated')
                hit = [nm for nm, val in meaning if same(val, vf)]
                if hit:
                    compile_ok = True
                    # the sign of a zero result, where titanfp and the standard evaluator agree on it
                    if rm[0] == 'ok' and same_strict(rm[1], rt[1]) and has_zero(rt[1]):
                        r.count('zero_sign_judged')
                        if not same_strict(vf, rt[1]):
                            violate({'direction': 'compile', 'kind': 'sign of zero', 'shape': kinds,
                                     'cause': 'unexplained'}, args,
                                    f'\nargs {show_args(args)}\ncore: {text}\nFPy interpreter : {show(vf)}\n'
                                    f'core by titanfp and by the standard: {show(rt[1])}\n')
                    if 'titanfp' not in hit:
                        r.count('titanfp_quirk')
                        r.outcomes['compile:agrees-with-standard-not-titanfp'] += 1
                    elif len(meaning) == 2:
                        r.count('refmodel_disagrees')
                        if len(r.notes) < 10:
                            r.notes.append(f'reference evaluator differs from titanfp and FPy: {tags.get("key")} '
                                           f'{show_args(args)}: {show(meaning[1][1])} vs {show(vf)}')
                    else:
                        r.outcomes['compile:agree'] += 1
                elif undefined:
                    r.outcomes['compile:differs-on-undefined-core'] += 1
                else:
                    compile_ok = False
                    causes = [cause_of(val) for _, val in meaning]
                    cause = next((c for c in causes if c != 'unexplained'), 'unexplained')
                    shape = 'stmt-after-with'
                    if cause == 'unexplained':
                        cause, shape = text_repair_cause()
                    violate({'direction': 'compile', 'kind': 'value', 'shape': shape, 'cause': cause},
                            args,
                            f'\nargs {show_args(args)}\ncore: {text}\n'
                            f'FPy interpreter : {show(vf)}\n'
                            + ''.join(f'core by {nm:9s}: {show(val)}\n' for nm, val in meaning)
                            + (f'FPy on the program with continuations moved into their with block: {show(vq)}\n'
                               if vq is not None else ''))
            elif rm[0] == 'malformed' and rt[0] == 'refused':
                # titanfp raises *and* the core breaks a rule of the standard (unbound variable, ref of
                # a scalar, index out of range) although the FPy program returns: this is not titanfp
                # declining a construct
                compile_ok = False
                cause, shape = text_repair_cause(wellformed_is_enough=True)
                violate({'direction': 'compile', 'kind': 'core does not evaluate', 'shape': shape, 'cause': cause},
                        args,
                        f'\nargs {show_args(args)}\ncore: {text}\nFPy interpreter : {show(vf)}\n'
                        f'titanfp         : {rt[0]} {rt[1]}\nFPCore standard : {rm[1]}\n')

            # ---- read direction -------------------------------------------
            if g is None:
                continue
            rg = self.call_fn(g, args)
            r.count('transitions')
            if rg[0] == 'timeout':
                cap('re-read function')
                continue
            # values a correct re-reading may give (for naming a cause only): the meanings of the core;
            # without titanfp, what the original gives and what the standard evaluator says
            good = [val for _, val in meaning] if meaning else [vf] + ([rm[1]] if rm[0] == 'ok' else [])

            def read_cause():
                """the smallest rewrite of the core after which the re-read function is right"""
                if rg[0] == 'diverges' and while_condition_needs_statements(text):
                    return 'while-condition-hoisted'
                # control: re-reading the *unmodified* text must fail too, otherwise a rewrite that
                # "works" shows nothing about the rewrite
                g0 = repaired_reader('control')
                if g0 is not None:
                    r0 = self.call_fn(g0, args)
                    if r0[0] == 'ok' and any(same(r0[1], val) for val in good):
                        return 'unexplained'
                for name, cause in (('renamed', 'fresh-name-clash'),
                                    ('explicit', 'nested-annotation-not-inherited'),
                                    ('explicit+renamed', 'fresh-name-clash+nested-annotation-not-inherited')):
                    g2 = repaired_reader(name)
                    if g2 is None:
                        continue
                    r2 = self.call_fn(g2, args)
                    if r2[0] == 'ok' and any(same(r2[1], val) for val in good):
                        return cause
                if while_condition_needs_statements(text):
                    return 'while-condition-hoisted'
                return 'unexplained'

            read_shape = {'fresh-name-clash': 'generated-names',
                          'nested-annotation-not-inherited': 'nested-annotation',
                          'fresh-name-clash+nested-annotation-not-inherited': 'generated-names+nested-annotation',
                          'while-condition-hoisted': 'while-condition-with-binding'}

            if rg[0] != 'ok':
                # the re-read function fails where the original returns
                if compile_ok is False or undefined:
                    # the core itself means something else / nothing; it may legitimately fail
                    r.outcomes['read:fails-on-miscompiled-or-undefined-core'] += 1
                    continue
                cause = read_cause()
                what = 'does not terminate' if rg[0] == 'diverges' else (rg[1].split(':')[0] or rg[0])
                violate({'direction': 'read', 'kind': 're-read function ' + what,
                         'via': via, 'shape': read_shape.get(cause, kinds), 'cause': cause}, args,
                        f'\nargs {show_args(args)}\ncore: {text}\nre-read function:\n{g.format()}\n'
                        f'FPy interpreter on the original: {show(vf)}; on the re-read function: {rg[0]} {rg[1]}')
                continue
            vg = rg[1]
            if meaning:
                if any(same(val, vg) for _, val in meaning):
                    r.outcomes['read:agree'] += 1
                    if rm[0] == 'ok' and same_strict(rm[1], rt[1]) and has_zero(rt[1]) \
                            and not same_strict(vg, rt[1]):
                        violate({'direction': 'read', 'kind': 'sign of zero', 'via': via, 'shape': kinds,
                                 'cause': 'unexplained'}, args,
                                f'\nargs {show_args(args)}\ncore: {text}\nre-read function : {show(vg)}\n'
                                f'core by titanfp and by the standard: {show(rt[1])}\n')
                elif undefined:
                    r.outcomes['read:differs-on-undefined-core'] += 1
                else:
                    cause = read_cause()
                    violate({'direction': 'read', 'kind': 'value', 'via': via,
                             'shape': read_shape.get(cause, kinds), 'cause': cause}, args,
                            f'\nargs {show_args(args)}\ncore: {text}\nre-read function:\n{g.format()}\n'
                            + ''.join(f'core by {nm:9s}: {show(val)}\n' for nm, val in meaning)
                            + f're-read function : {show(vg)}\nFPy on original  : {show(vf)}')
            elif compile_ok is False:
                r.outcomes['read:not-judged-core-malformed'] += 1
            else:
                # no evaluator for the core: compile-and-re-read must still not change behaviour
                if same(vg, vf):
                    r.outcomes['roundtrip:agree'] += 1
                else:
                    cause = cause_of(vg)
                    shape = 'stmt-after-with'
                    if cause == 'unexplained' and rm[0] == 'ok' and same(rm[1], vg):
                        # by the standard the core already means what the re-read function gives
                        cause, shape = text_repair_cause()
                    if cause == 'unexplained':
                        cause = read_cause()
                        shape = read_shape.get(cause, kinds)
                    violate({'direction': 'roundtrip', 'kind': 'value', 'via': via, 'shape': shape, 'cause': cause},
                            args,
                            f'\nargs {show_args(args)}\ncore: {text}\n(titanfp: {rt[0]} {rt[1]}; standard: {rm[0]} '
                            f'{rm[1] if rm[0] != "ok" else show(rm[1])})\n'
                            f're-read function : {show(vg)}\nFPy on original  : {show(vf)}')

    # ---- layer R: one FPCore text ---------------------------------------------
    def examine_core(self, r: ShardResult, text: str, tags: dict, argss, collect=None):
        """`from_fpcore(parse(text))(*args)` vs the meaning of the text (titanfp, arbitrated by the
        standard evaluator)."""
        base_case = {'core_text': text, 'tags': tags}

        def violate(signature, args, detail):
            signature = dict(signature)
            case = dict(base_case)
            case['args'] = enc_args(args) if args is not None else None
            case['signature'] = {k: str(v) for k, v in signature.items()}
            r.violate(signature, case, f'core ({tags.get("key", "")}): {text}' + detail)
            if collect is not None:
                collect.append(({k: str(v) for k, v in signature.items()}, detail))

        def cap(where):
            r.count('backstop_timeouts')
            note = f'CAP wall-clock backstop ({TIME_LIMIT:.0f} s) cut a step; not judged: {where}'
            if note not in r.notes and len(r.notes) < 20:
                r.notes.append(note)

        shape = f'{tags.get("shape")}[{tags.get("ann")}] under function-level {tags.get("func")}'
        core = fpcparser.compile1(text)
        readers = {}

        def reader(name):
            """the re-read function of the text, or of a rewritten text (diagnosis)"""
            if name not in readers:
                t2 = text
                if name in ('core-completed', 'both'):
                    t2 = core_props_completed(t2) or t2
                if name in ('explicit', 'both'):
                    t2 = annotations_explicit(t2, from_core=True)
                if name != 'plain' and t2 == text:
                    readers[name] = None
                else:
                    try:
                        with time_limit(TIME_LIMIT):
                            readers[name] = ('ok', fp.Function.from_fpcore(core if name == 'plain'
                                                                           else fpcparser.compile1(t2)))
                    except _Timeout:
                        readers[name] = ('timeout', '')
                    except Exception as e:      # noqa: BLE001
                        readers[name] = ('raises', f'{type(e).__name__}: {str(e)[:160]}')
            return readers[name]

        r.count('transitions')
        g = reader('plain')
        if g[0] == 'timeout':
            cap('Function.from_fpcore')
            return
        if g[0] == 'raises':
            violate({'direction': 'read', 'layer': 'R', 'kind': 'from_fpcore raises ' + g[1].split(':')[0],
                     'shape': shape, 'cause': 'unexplained'}, None, f'\nFunction.from_fpcore raised {g[1]}')
            return
        g = g[1]
        r.outcomes['R:read:ok'] += 1

        for args in argss:
            r.count('evaluations')
            r.count('states')
            rm = self.refeval(text, args)
            if rm[0] == 'argument-not-representable':
                r.count('precondition_false')
                continue
            rt = self.titan(core, args)
            r.count('transitions')
            if rt[0] == 'timeout':
                cap('titanfp')
            if rt[0] != 'ok':
                r.count('inconclusive')
                r.outcomes['R:titanfp:' + rt[0] + ':' + rt[1].split(':')[0][:40]] += 1
                continue
            meaning = [('titanfp', rt[1])]
            if rm[0] == 'ok':
                if same(rm[1], rt[1]):
                    r.outcomes['R:oracles:agree'] += 1
                else:
                    meaning.append(('standard', rm[1]))
                    r.outcomes['R:oracles:differ'] += 1
            else:
                r.outcomes['R:oracles:titanfp-only:' + rm[0]] += 1
            plain = self.refeval(text, args, ignore_props=True)
            if plain[0] == 'ok' and not same(plain[1], rt[1]):
                r.count('nontrivial')           # the properties matter on this input
            rg = self.call_fn(g, args)
            r.count('transitions')
            r.count('validated')
            if rg[0] == 'timeout':
                cap('re-read function')
                continue
            if rg[0] == 'ok' and any(same(val, rg[1]) for _, val in meaning):
                r.outcomes['R:read:agree'] += 1
                if not same(rg[1], rt[1]):
                    r.count('titanfp_quirk')
                continue
            if rm[0] == 'undefined':
                r.outcomes['R:read:differs-on-undefined-core'] += 1
                continue

            # name the cause by the smallest rewrite of the text after which re-reading is right
            cause = 'unexplained'
            for name, label in (('core-completed', 'function-level-property-set-incomplete'),
                                ('explicit', 'partial-annotation-loses-inherited-property'),
                                ('both', 'function-level-property-set-incomplete+'
                                         'partial-annotation-loses-inherited-property')):
                g2 = reader(name)
                if g2 is None or g2[0] != 'ok':
                    continue
                r2 = self.call_fn(g2[1], args)
                if r2[0] == 'ok' and any(same(r2[1], val) for _, val in meaning):
                    cause = label
                    break
            kind = 'value' if rg[0] == 'ok' else 're-read function ' + (
                'does not terminate' if rg[0] == 'diverges' else (rg[1].split(':')[0] or rg[0]))
            sig = {'direction': 'read', 'layer': 'R', 'kind': kind, 'cause': cause,
                   'shape': shape if cause == 'unexplained' else _r_class(tags)}
            violate(sig, args,
                    f'\nargs {show_args(args)}\nre-read function:\n{g.format()}\n'
                    + ''.join(f'core by {nm:9s}: {show(val)}\n' for nm, val in meaning)
                    + f're-read function : {show(rg[1]) if rg[0] == "ok" else rg[0] + " " + rg[1]}')

    # ---- shard loop --------------------------------------------------------
    def run_shard(self, shard) -> ShardResult:
        k, m = shard
        r = ShardResult()
        for i, prog in enumerate(self.programs()):
            if i % m != k:
                continue
            r.count('programs')
            src = prog.src
            sunk = prog.sunk_src
            flat = G.source(prog.sig, flat_items(prog.items))
            if flat == src:
                flat = None
            tags = dict(prog.tags)
            tags['family'] = prog.family
            tags['key'] = prog.key
            if sunk is not None:
                r.count('programs_with_stmt_after_with')
            for nlist, argss in self.inputs(prog.sig, prog.family):
                self.examine(r, src, sunk, flat, prog.sig, nlist, argss, tags)
            _reset_caches()
            linecache.clearcache()
            if i % 997 == 5:
                r.sample({'program': prog.key, 'src': src})
        argss = self.core_inputs()
        for i, c in enumerate(self.cores()):
            if i % m != k:
                continue
            r.count('cores_read')
            self.examine_core(r, c.text, dict(c.tags), argss)
            if i % 50 == 0:
                _reset_caches()
            if i % 397 == 7:
                r.sample({'core': c.key, 'text': c.text})
        _reset_caches()
        m = MAX_LINES_SEEN[0]
        r.outcomes['reread-call max lines ' + ('<100' if m < 100 else '<1000' if m < 1000 else f'<{LINE_BUDGET}')] += 0
        return r

    # ---- replay ------------------------------------------------------------
    def replay(self, case):
        r = ShardResult()
        got: list = []
        args = case.get('args')
        if 'core_text' in case:
            argss = [dec_args(args)] if args is not None else self.core_inputs()[:1]
            self.examine_core(r, case['core_text'], case.get('tags', {}), argss, collect=got)
            want = case.get('signature', {})
            hits = [(s, d) for s, d in got if all(s.get(k) == v for k, v in want.items())]
            text = f'core: {case["core_text"]}\nargs: {argss[0]}\n'
            if hits:
                return True, text + '\n'.join(f'{s}\n{d}' for s, d in hits)
            return False, text + ('other findings: ' + '; '.join(str(s) for s, _ in got) if got
                                  else 'the re-read function agrees with the core on this case')
        if args is None:
            # program-level failure (compiler crash / from_fpcore raising): no input needed, but
            # `examine` wants one to run through
            argss = self.inputs(case['sig'], case.get('tags', {}).get('family', ''))
            argss = [a for n, lst in argss if n == case['nlist'] for a in lst][:1]
        else:
            argss = [dec_args(args)]
        self.examine(r, case['src'], case.get('sunk_src'), case.get('flat_src'), case['sig'], case['nlist'],
                     argss, case.get('tags', {}), collect=got)
        want = case.get('signature', {})
        hits = [(s, d) for s, d in got if all(s.get(k) == v for k, v in want.items())]
        text = f'program:\n{case["src"]}\nargs: {argss[0] if argss else None}\n'
        if hits:
            return True, text + '\n'.join(f'{s}\n{d}' for s, d in hits)
        if got:
            return False, text + 'other findings on this case (not the recorded signature):\n' + \
                '\n'.join(f'{s}' for s, _ in got)
        return False, text + 'all observations agree on this case'
