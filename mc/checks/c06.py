"""
C06 — A numeric literal denotes exactly the number written.

Space: literal spellings enumerated from a grammar (DESIGN §5 C06): sign x integer part
(0-3 digits of {0,1,9}, leading zeros where Python accepts them) x optional fraction
(0-3 digits, trailing zeros) x optional exponent; long-digit spellings (18-40 mantissa
digits); integers around 2^53 / 10^22 / 10^23 written plainly, with a point, with an
exponent, with `_`, in 0x/0b/0o; hex-float strings through `fp.hexfloat("…")`;
`fp.rational(p, q)`; `fp.digits(m, e, b)`; spellings of zero (negated, doubly negated).
Spellings Python itself refuses (`001`, `.`) are outside the space and only counted.

Per spelling two one-line FPy functions are generated: `return <lit>` and
`return fp.round(<lit>)`.  The first is evaluated under fp.REAL (must be the exact rational,
or the signed zero, the spelling denotes) and under three narrow contexts; the second under
the narrow contexts (must be the oracle rounding of the exact rational, once).

What the documentation leaves open and the check therefore accepts:
* docs/source/dev/derived-semantics.rst: "Nothing rounds until arithmetic uses the value,
  so 0.1 is exactly 1/10" -- a bare `return <lit>` under a narrow context may give the exact
  value *or* the value rounded once (`-<lit>` is arithmetic and does round);
* `-<lit>` is Python's unary minus applied to a literal; the narrow contexts use sign-symmetric
  modes (RTZ, RNE), so "negate then round" and "round the negative number" coincide;
* under REAL a non-dyadic rational cannot be held by a Float: an error saying so is admissible
  (the unchanged tree returns a Fraction);
* strings outside FPy's own hex-float grammar (upper case, `0x1.p3`) may be refused with
  "invalid hexadecimal number": recorded, not judged.

Oracle: mc.model.literals (spelling -> Fraction, never float()) and mc.model.rounding.
"""

from __future__ import annotations

import ast
import itertools
import shutil
from fractions import Fraction

from ..engine.runner import BaseCheck, ShardResult
from ..engine.adapt import to_x
from ..engine import loader
from ..model.xreal import X
from ..model import rounding as R
from ..model.literals import denote_source, read_number
from .c01 import Config

import fpy2 as fp
from fpy2.number import Float, RealFloat

# (name, configuration, rounding mode, overflow mode); modes are sign-symmetric on purpose
NARROW = [('float3', Config('MPFloat', {'p': 3}), 'RTZ', 'OVERFLOW'),
          ('fixed', Config('MPFixed', {'nmin': -2}), 'RNE', 'OVERFLOW'),
          ('ieee5', Config('IEEE', {'es': 2, 'nbits': 5}), 'RTZ', 'OVERFLOW')]

DIGITS = '019'
EXPS_CORE = ['', 'e0', 'e1', 'e-1', 'e22', 'e23', 'e-5', 'e308', 'e309', 'e-324', 'e-400', 'E+5']
EXPS_MORE = ['e16', 'e-7', 'e-323', 'e400', 'e+0', 'E-05']
TAILS = ['0000000000000000055511151231257827', '00000000000000001', '99999999999999999',
         '4999999999999999999999', '5000000000000000000001', '1234567890123456789012345678901234567',
         '00000000000000000000000000000000000001', '000000000000000000']
BATCH = 200                      # spellings per generated module (2 functions each)

DBL_OVER = (2 - Fraction(1, 2 ** 53)) * Fraction(2) ** 1023     # Python's parse gives inf from here on
DBL_ZERO = Fraction(1, 2 ** 1075)                               # ... and 0 up to here
DBL_MINNORMAL = Fraction(1, 2 ** 1022)


def digit_strings(maxlen: int) -> list[str]:
    out = ['']
    for n in range(1, maxlen + 1):
        out += [''.join(t) for t in itertools.product(DIGITS, repeat=n)]
    return out


# ---------------------------------------------------------------------------
# the space: families of (form, source text)

def gen_grammar(signs, imax, fmax, exps):
    ips = digit_strings(imax)
    frs = [''] + ['.' + d for d in digit_strings(fmax)]
    for sg in signs:
        for ip in ips:
            for fr in frs:
                for ex in exps:
                    yield ('dec', sg + ip + fr + ex)


def grammar_items(tier: str, seed: int):
    core = list(gen_grammar(('', '-'), 3, 2, EXPS_CORE))
    have = {s for _, s in core}
    full = [it for it in gen_grammar(('', '-', '+'), 3, 3, EXPS_CORE + EXPS_MORE) if it[1] not in have]
    if tier == 'quick':
        return core + [it for i, it in enumerate(full) if i % 16 == seed % 16]
    return core + full


def long_items(tier: str):
    quick = tier == 'quick'
    ips = digit_strings(1 if quick else 2)
    frs = digit_strings(1 if quick else 2)
    exps = ['', 'e1', 'e-5'] if quick else ['', 'e1', 'e-5', 'e22']
    out = []
    for sg in ('', '-'):
        for ip in ips:
            for fr in frs:
                for tail in TAILS:
                    for ex in exps:
                        for dotted in (True, False):
                            digs = (ip + fr + tail).lstrip('0')
                            if not 18 <= len(digs) <= 40:
                                continue
                            out.append(('dec', sg + (ip + '.' + fr + tail if dotted else ip + fr + tail) + ex))
    seen, uniq = set(), []
    for it in out:
        if it[1] not in seen:
            seen.add(it[1])
            uniq.append(it)
    return uniq


def int_items(tier: str):
    ns = [2 ** 53 - 1, 2 ** 53, 2 ** 53 + 1, 2 ** 53 + 2, 10 ** 22, 10 ** 22 + 1, 10 ** 23, 3 * 10 ** 22, 2 ** 63]
    if tier != 'quick':
        ns += [2 ** 64 + 1, 10 ** 16 + 1, 10 ** 30, 10 ** 40 + 1, 2 ** 100]
    out = []
    for n in ns:
        s = str(n)
        forms = [s, s + '.0', s + '.', s + 'e0', s + '.0e0', s + 'E+0', s + '.5', f'{n:_}', f'{n:_}.0', hex(n), bin(n),
                 oct(n)]
        for k in (1, 5):
            forms.append(s[:-k] + '.' + s[-k:] + f'e{k}')
            forms.append(s + '0' * k + f'e-{k}')
        if set(s[1:]) == {'0'} and s[0] == '1':
            k = len(s) - 1
            forms += [f'1e{k}', f'1E{k}', f'1e+{k}', f'1.0e{k}', f'10e{k - 1}', f'0.1e{k + 1}', f'0.001e{k + 3}',
                      f'1e0{k}', f'1e{k // 10}_{k % 10}']
        for f in forms:
            out.append(('dec', f))
            out.append(('dec', '-' + f))
    return out


HEX_PROBES = ['0X1P3', '0x1.p3', '0xAp0', '0x1P3', '0x1.8P1', '0x1p1_0']


def hex_items(tier: str):
    quick = tier == 'quick'
    ips = ['', '0', '1', 'f', '1a', 'ff', '10']
    frs = ['', '.8', '.0', '.c', '.001', '.ffffffffffffff8', '.00000000000001']
    exps = ['', 'p0', 'p1', 'p-1', 'p+4', 'p10', 'p-10', 'p1023', 'p1024', 'p-1074', 'p-1080', 'p-2000']
    signs = ('', '-') if quick else ('', '-', '+')
    out = []
    for sg in signs:
        for ip in ips:
            for fr in frs:
                if not ip and not fr:
                    continue
                for ex in exps:
                    out.append(('hex', f'fp.hexfloat("{sg}0x{ip}{fr}{ex}")'))
    out += [('hex', 'hexfloat("0x1.8p1")'), ('hex', '-fp.hexfloat("0x1.8p1")'), ('hex', '-fp.hexfloat("-0x1.8p1")')]
    out += [('hexprobe', f'fp.hexfloat("{s}")') for s in HEX_PROBES]
    return out


def rational_items(tier: str):
    out = []
    for p in range(-4, 5):
        for q in range(-4, 5):
            if q != 0:
                out.append(('rational', f'fp.rational({p}, {q})'))
    big = [(10 ** 30 + 1, 3 * 2 ** 70), (2 ** 80 + 1, 2 ** 75), (-10 ** 25, 7), (1, 2 ** 1100), (7, -10 ** 40),
           (2 ** 53 + 1, 1), (10 ** 23, 1), (1, 10)]
    out += [('rational', f'fp.rational({p}, {q})') for p, q in big]
    out += [('rational', 'rational(1, 3)'), ('rational', '-fp.rational(1, 3)'), ('rational', '-fp.rational(-3, 4)'),
            ('rational', '+fp.rational(3, -4)')]
    return out


def digits_items(tier: str):
    out = []
    for m in range(-3, 4):
        for e in range(-3, 4):
            for b in (2, 3, 10, 16):
                out.append(('digits', f'fp.digits({m}, {e}, {b})'))
    big = [(12345678901234567890123, -25, 10), (1, 1100, 2), (1, -1100, 2), (3, 400, 10), (-7, -400, 10),
           (2 ** 53 + 1, 0, 10), (1, 23, 10), (9, -324, 10), (5, 3, 7), (1, -2, 12)]
    out += [('digits', f'fp.digits({m}, {e}, {b})') for m, e, b in big]
    out += [('digits', 'digits(3, -2, 2)'), ('digits', '-fp.digits(3, -2, 3)')]
    return out


def zero_items(tier: str):
    srcs = ['0', '0.0', '+0.0', '+0', '00', '0e0', '0.000', '0e309', '0.0e-400', '0x0', '.0', '0.',
            '-0', '-0.0', '-(0)', '-(0.0)', '- 0', '-00', '-0e5', '-0.000', '-0e-400', '-0x0', '-.0', '-0.', '-0_0',
            '(-0)', '(-0.0)', '-((0))', '+(-0)',
            '--0', '-(-0)', '-(-0.0)', '+-0', '-+0', '-+0.0', '---0', '-(-(-0.0))',
            'fp.hexfloat("0x0")', 'fp.hexfloat("-0x0p0")', 'fp.hexfloat("-0x0.0p5")', 'fp.hexfloat("+0x0")',
            '-fp.hexfloat("0x0")', '-fp.hexfloat("-0x0")',
            'fp.rational(0, 1)', 'fp.rational(0, 3)', '-fp.rational(0, 1)', '-fp.rational(0, 3)',
            'fp.digits(0, 3, 2)', 'fp.digits(0, -3, 10)', '-fp.digits(0, 3, 2)']
    return [('zero', s) for s in srcs]


FAMILIES = {'grammar': 48, 'long': 16, 'ints': 2, 'hex': 6, 'rational': 1, 'digits': 2, 'zeros': 1}


_ITEMS: dict = {}


def family_items(name: str, tier: str, seed: int):
    key = (name, tier, seed % 16)
    if key not in _ITEMS:
        _ITEMS[key] = _family_items(name, tier, seed)
    return _ITEMS[key]


def _family_items(name: str, tier: str, seed: int):
    if name == 'grammar':
        return grammar_items(tier, seed)
    return {'long': long_items, 'ints': int_items, 'hex': hex_items, 'rational': rational_items,
            'digits': digits_items, 'zeros': zero_items}[name](tier)


# ---------------------------------------------------------------------------
# classification of a spelling (for the signature and the non-triviality count)

def core_token(src: str) -> str:
    s = src.strip()
    while s[:1] in ('+', '-') or (s.startswith('(') and s.endswith(')')):
        s = (s[1:-1] if s.startswith('(') else s[1:]).strip()
    return s


def n_negations(src: str) -> int:
    s, n = src.strip(), 0
    while s[:1] in ('+', '-', '('):
        n += s[0] == '-'
        s = s[1:].strip()
    return n + ('hexfloat("-' in s)


def mechanism(form: str, src: str, want: X) -> str:
    tok = core_token(src)
    q = abs(want.q)
    if q == 0:
        if form == 'hex' and '0x.' in tok:
            return 'hex-empty-integer-part'
        neg = n_negations(src)
        return 'zero-plain' if neg == 0 else 'zero-negated' if neg == 1 else 'zero-negated-repeatedly'
    if form in ('hex', 'hexprobe'):
        if '0x.' in tok:
            return 'hex-empty-integer-part'
        if q >= DBL_OVER or q < DBL_MINNORMAL:
            return 'hex-outside-double-range'
        if (q.numerator.bit_length() > 53):
            return 'hex-long-mantissa'
        return 'hex-short'
    if form == 'rational':
        return 'rational-large' if max(abs(want.q.numerator), want.q.denominator) > 64 else 'rational-small'
    if form == 'digits':
        return 'digits-large' if max(q.numerator, q.denominator) > 16 ** 4 else 'digits-small'
    floaty = tok[:2].lower() not in ('0x', '0b', '0o') and any(c in tok for c in '.eE')
    if not floaty:
        return 'integer'
    if q >= DBL_OVER:
        return 'large-exponent'
    if q <= DBL_ZERO:
        return 'tiny-exponent'
    if q < DBL_MINNORMAL:
        return 'subnormal-range'
    if q.denominator == 1:
        return 'integer-valued-float'
    mant = tok.replace('_', '').lower().split('e')[0].replace('.', '')
    if len(mant.strip('0')) > 15:          # a double is only guaranteed to preserve 15 significant digits
        return 'long-digits'
    return 'short-decimal'


def python_disagrees(src: str, want: X) -> bool:
    """Would Python's own evaluation of the (numeric) token differ from the exact value?
    Used only to count non-trivial cases, never as an oracle."""
    try:
        v = ast.literal_eval(core_token(src))
    except Exception:
        return False
    if isinstance(v, int):
        return False
    if v != v or v in (float('inf'), float('-inf')):
        return True
    return Fraction(v) != abs(want.q)


def short(x) -> str:
    s = str(x)
    return s if len(s) <= 70 else f'{s[:30]}…{s[-20:]}({len(s)} chars)'


def python_accepts(src: str) -> bool:
    """Python parses `src`, and as nothing but signs around one numeric constant (`e5` is a
    name, `1j` is complex: not spellings of this space) or one constructor call."""
    try:
        tree = ast.parse('(' + src + '\n)', '<literal>', 'eval')
    except (SyntaxError, ValueError):
        return False
    node = tree.body
    while isinstance(node, ast.UnaryOp) and isinstance(node.op, (ast.UAdd, ast.USub)):
        node = node.operand
    if isinstance(node, ast.Call):
        return True
    return isinstance(node, ast.Constant) and type(node.value) in (int, float)


# ---------------------------------------------------------------------------

_NARROW_BUILT = None


def narrow():
    global _NARROW_BUILT
    if _NARROW_BUILT is None:
        _NARROW_BUILT = []
        for name, cfg, mode, ovf in NARROW:
            ctx, spec = cfg.build(mode, ovf)
            _NARROW_BUILT.append((name, ctx, spec, mode, ovf))
    return _NARROW_BUILT


class Rejected:
    def __init__(self, e):
        self.e = e


PRELUDE = loader.PRELUDE + 'from mc.checks.c06 import Rejected as VfRejected\n'


def module_source(items) -> str:
    parts = []
    for i, (form, src) in enumerate(items):
        parts.append(f'try:\n    @fp.fpy\n    def p{i}():\n        return {src}\n'
                     f'except Exception as _e:\n    p{i} = VfRejected(_e)\n'
                     f'try:\n    @fp.fpy\n    def r{i}():\n        return fp.round({src})\n'
                     f'except Exception as _e:\n    r{i} = VfRejected(_e)\n')
    return ''.join(parts)


def _first_line(e: BaseException) -> str:
    t = str(e).strip().split('\n')
    return f'{type(e).__name__}: {short(t[0] if t else "")}'


def _refuses_nondyadic(e: BaseException) -> bool:
    t = str(e)
    return isinstance(e, (ValueError, TypeError)) and ('cannot evaluate exactly' in t or 'dyadic' in t)


class Check(BaseCheck):
    pid = 'C06'
    rule = ('every spelling of the declared grammar/families (Python-invalid spellings excluded) x {`return <lit>` under '
            'REAL, float3/RTZ, MPFixed/RNE, IEEE(2,5)/RTZ; `return fp.round(<lit>)` under the three narrow contexts}. '
            'nontrivial = distinct spellings whose value Python\'s own float parse would not reproduce exactly '
            '(>15 digits, outside double range, non-double integers with an exponent), or, for '
            'hexfloat/rational/digits/integers, whose rounding under float3 is inexact')
    assumptions = ['a bare `return <lit>` under a narrow context may give the exact value or the value rounded once '
                   '(documented: nothing rounds until arithmetic uses the value); `fp.round(<lit>)` must be the value '
                   'rounded once',
                   '`-<lit>` is unary minus on a literal; only sign-symmetric rounding modes are used so both readings agree',
                   'under REAL a "cannot evaluate exactly"/"dyadic" error for a non-dyadic value is admissible',
                   'strings outside FPy\'s documented hex-float pattern may be refused with "invalid hexadecimal number"',
                   'Python\'s compile() decides which spellings are Python source at all']

    def bounds(self):
        b = {'digit_pool': DIGITS, 'exponents': EXPS_CORE + ([] if self.tier == 'quick' else EXPS_MORE),
             'narrow_contexts': [f'{n}:{c.text()}/{m}' for n, c, m, _ in NARROW], 'batch': BATCH}
        for fam in FAMILIES:
            b[f'spellings_{fam}'] = len(family_items(fam, self.tier, self.seed))
        if self.tier == 'quick':
            b['grammar_core'] = 'signs {"",-} x int 0-3 digits x fraction 0-2 digits x 12 exponents, complete'
            b['grammar_extra'] = '1/16 slice (by seed) of sign +, 3-digit fractions, 6 further exponents'
        return b

    def shards(self):
        return [(fam, k, m) for fam, m in FAMILIES.items() for k in range(m)]

    def selfcheck(self):
        for text, want in (('0.1', Fraction(1, 10)), ('1e23', Fraction(10) ** 23), ('1e-400', Fraction(1, 10 ** 400)),
                           ('0x1.8p1', Fraction(3)), ('0x.8', Fraction(1, 2)), ('00.50E+1', Fraction(5)),
                           ('1_0.0_1', Fraction(1001, 100)), ('0b11', Fraction(3)), ('9.', Fraction(9))):
            neg, q = read_number(text)
            if neg or q != want:
                raise AssertionError(f'literal reader: {text} -> {q}')
        if not denote_source('-(-0.0)').same(X.zero(False)) or not denote_source('-0e5').same(X.zero(True)):
            raise AssertionError('literal reader: signed zeros')
        if not denote_source('-fp.digits(3, -2, 3)').same(X.fin(Fraction(-1, 3))):
            raise AssertionError('literal reader: digits')

    # ---- one spelling ---------------------------------------------------
    def check_item(self, r: ShardResult, form: str, src: str, pfun, rfun):
        want = denote_source(src)
        mech = mechanism(form, src, want)
        dyadic = want.q.denominator & (want.q.denominator - 1) == 0
        fails = []                   # (kind, at, text)
        r.count('states')

        def observe(fun, label, ctx, admissible, may_refuse=False):
            r.count('evaluations')
            r.count('transitions')
            if isinstance(fun, Rejected):
                fails.append(('refused', label, f'{label}: rejected at decoration: {_first_line(fun.e)}'))
                return None
            try:
                v = fun(ctx=ctx)
            except Exception as e:
                if may_refuse and _refuses_nondyadic(e):
                    r.outcomes[f'{label}:refuses-nondyadic'] += 1
                    return None
                if form == 'hexprobe' and isinstance(e, ValueError) and 'invalid hexadecimal number' in str(e):
                    r.outcomes['hexprobe:outside-fpy-grammar'] += 1
                    return None
                fails.append(('refused', label, f'{label}: raised at evaluation: {_first_line(e)}'))
                return None
            if isinstance(v, bool) or not isinstance(v, (Float, RealFloat, Fraction, int)):
                fails.append(('result-type', label, f'{label}: returned {type(v).__name__} {short(v)!r}'))
                return None
            xv = to_x(v)
            if not any(a.same(xv) for a in admissible):
                fails.append(('value', label, f'{label}: got {short(xv)}, admissible {{{", ".join(short(a) for a in admissible)}}}'))
            return xv

        got = observe(pfun, 'REAL', fp.REAL, [want], may_refuse=not dyadic)
        if got is not None:
            r.outcomes[f'REAL:{"dyadic" if dyadic else "non-dyadic"}'] += 1
        inexact3 = False
        for name, ctx, spec, mode, ovf in narrow():
            outs = R.round_model(spec, want, mode, ovf, None)
            vals = [o[0] for o in outs if o[0] != 'ERR']
            if name == 'float3':
                inexact3 = any(o[1] for o in outs)
            arm = 'overflow' if any(o[2] for o in outs) else 'inexact' if any(o[1] for o in outs) else 'exact'
            r.outcomes[f'{name}:{arm}'] += 1
            if not vals:
                r.count('inconclusive')
                continue
            observe(pfun, f'plain/{name}', ctx, [want] + vals)
            observe(rfun, f'round/{name}', ctx, vals)

        if form in ('dec', 'zero') and python_disagrees(src, want) or (form != 'dec' and inexact3) \
                or (form == 'dec' and mech == 'integer' and inexact3):
            r.count('nontrivial')
        if fails:
            kind, at, _ = fails[0]
            sig = {'form': form, 'mechanism': mech, 'kind': kind, 'at': 'REAL' if at == 'REAL' else 'context'}
            r.outcomes[f'{form}:{mech}:VIOLATES'] += 1
            r.violate(sig, {'form': form, 'src': src},
                      f'`return {src}` denotes {short(want)} [{mech}]\n' + '\n'.join(t for _, _, t in fails))
        elif form == 'hexprobe' and got is None:
            r.count('hexprobe_refused_not_judged')
        else:
            r.outcomes[f'{form}:{mech}:ok'] += 1

    def run_items(self, r: ShardResult, items):
        for lo in range(0, len(items), BATCH):
            chunk = items[lo:lo + BATCH]
            mod = loader.load_source(module_source(chunk), PRELUDE)
            for i, (form, src) in enumerate(chunk):
                self.check_item(r, form, src, getattr(mod, f'p{i}'), getattr(mod, f'r{i}'))

    def run_shard(self, shard) -> ShardResult:
        r = ShardResult()
        fam, k, m = shard
        allitems = family_items(fam, self.tier, self.seed)
        mine = []
        for i, it in enumerate(allitems):
            if i % m != k:
                continue
            if not python_accepts(it[1]):
                r.count('python_rejects_spelling')
                continue
            mine.append(it)
        try:
            self.run_items(r, mine)
        finally:
            shutil.rmtree(loader.scratch_dir(), ignore_errors=True)
        if k == 0 and mine:
            mid = mine[len(mine) // 2]
            r.sample({'family': fam, 'spelling': mid[1], 'denotes': short(denote_source(mid[1])),
                      'programs': [f'return {mid[1]}', f'return fp.round({mid[1]})'],
                      'contexts': ['REAL'] + [n for n, *_ in NARROW]}, limit=1)
        return r

    def replay(self, case):
        r = ShardResult()
        item = (case['form'], case['src'])
        if not python_accepts(item[1]):
            return False, f'{item[1]!r} is not Python source; outside the space'
        try:
            self.run_items(r, [item])
        finally:
            shutil.rmtree(loader.scratch_dir(), ignore_errors=True)
        if r.violations:
            return True, '\n'.join(f'{v.signature}\n{v.detail}' for v in r.violations)
        return False, f'`return {item[1]}`: every observation is admissible (denotes {short(denote_source(item[1]))})'
