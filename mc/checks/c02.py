"""
C02 — Arithmetic rounds the exact result exactly once.

Space: operations {add sub mul div fma sqrt cbrt hypot mod fmod remainder pow(int exponent) ceil floor
trunc roundint nearbyint neg fabs copysign fdim}, called as `fpy2.ops.<op>(..., ctx=ctx)`, x ALL operand
tuples over a pool that is the complete value set of a small operand format (every c*2^exp with c < 8 over
five exponents, both signs) plus both zeros, +-inf, NaN, the non-dyadic Fractions 1/3, 1/10, -2/7, ints,
Python floats (0.1, -2.5, -0.0, inf, nan), far-away exponents (2^-60, 2^60 scale) and wide Floats with 40
extra low bits (unary operations: additionally every p <= 4 float over nine exponents and k/3, k/7, k/10
around every integer and half-integer up to 4; fma: first operand from one binade, second from a reduced
pool, third from the whole pool)  x  target contexts (floats with / without subnormals and bounds, IEEE, EFloat without
NaN / infinity, fixed point bounded and unbounded, REAL)  x  the 8 rounding modes.

Oracle (mc.model.arith_c02): the exact result as an extended real — Fractions, or Sqrt / Cbrt / Hypot
real numbers decided by exact integer comparisons (mc.model.realref); IEEE 754 special-case tables written
out per operation; remainders from exact floor / trunc / nearest-even quotients — rounded ONCE by the C01
rounding oracle (mc.model.rounding).  Under REAL the result must be the exact value itself, or the
operation is not offered there.  Compared: the value (sign of zero included), and the invalid / divzero
flags where IEEE 754 defines them.
"""

from __future__ import annotations

from fractions import Fraction

from ..engine.runner import BaseCheck, ShardResult
from ..engine.adapt import to_x, show
from ..model.xreal import X
from ..model import rounding as R
from ..model import arith_c02 as A
from .c01 import Config, MODES

import fpy2 as fp
from fpy2.number import Float

Q = Fraction
OPS = {op: getattr(fp.ops, op) for op in A.ALL_OPS}
RINT_OPS = ('ceil', 'floor', 'trunc', 'roundint', 'nearbyint')


# ---------------------------------------------------------------------------
# operands: text <-> (python object handed to fpy2, denotation)

def mk(text: str):
    kind, body = text.split(':', 1)
    if kind == 'F':
        if body in ('+inf', '-inf'):
            return Float(s=body[0] == '-', isinf=True), X.inf(body[0] == '-')
        if body == 'nan':
            return Float(isnan=True), X.nan()
        s = body[0] == '-'
        c, exp = body[1:].split('p')
        c, exp = int(c), int(exp)
        return Float(s=s, c=c, exp=exp), X('fin', s, (-Q(c) if s else Q(c)) * Q(2) ** exp)
    if kind == 'Q':
        q = Q(body)
        return q, X.fin(q)
    if kind == 'i':
        return int(body), X.fin(int(body))
    if kind == 'f':
        f = float.fromhex(body) if body not in ('inf', '-inf', 'nan') else float(body)
        return f, X.from_pyfloat(f)
    raise ValueError(text)


def ftext(s: bool, c: int, exp: int) -> str:
    return f'F:{"-" if s else "+"}{c}p{exp}'


def small_floats(exps) -> list[str]:
    """every value c * 2^exp, c in 1..7 (all p <= 3 floats of these exponents), both signs, one text each"""
    seen = {}
    for exp in exps:
        for c in range(1, 8):
            v = Q(c) * Q(2) ** exp
            if v not in seen:
                seen[v] = (c, exp)
    out = []
    for v in sorted(seen):
        c, exp = seen[v]
        out.append(ftext(False, c, exp))
        out.append(ftext(True, c, exp))
    return out


SPECIALS = ['F:+0p0', 'F:-0p0', 'F:+inf', 'F:-inf', 'F:nan']
FRACTIONS = ['Q:1/3', 'Q:1/10', 'Q:-2/7']
INTS = ['i:0', 'i:-3', 'i:11']
PYFLOATS = ['f:' + (0.1).hex(), 'f:' + (-2.5).hex(), 'f:' + (-0.0).hex(), 'f:inf', 'f:nan']
FAR = ['F:+5p-60', 'F:-3p60']
WIDE = [ftext(False, (4 << 40) + 1, -42),      # 1 + 2^-42
        ftext(True, (6 << 40) + 1, -42),       # -(1.5 + 2^-42)
        ftext(False, (7 << 40) - 1, -41),      # 3.5 - 2^-41
        ftext(False, (5 << 40) + (1 << 39), -43)]   # 0.6875 in a redundant 43-bit encoding: an exact tie of p = 3


def pool(tier: str) -> list[str]:
    exps = (-2, -1, 0) if tier == 'quick' else (-3, -2, -1, 0, 1)
    return small_floats(exps) + SPECIALS + FRACTIONS + INTS + PYFLOATS + FAR + WIDE


def unary_pool(tier: str) -> list[str]:
    """unary operations are cheap: the pool plus every p <= 4 float over nine exponents and a ladder of
    non-dyadic Fractions k/3, k/7, k/10 on both sides of integers and of half-integers"""
    out = list(pool(tier))
    seen = set(out)
    extra = []
    for exp in range(-5, 4):
        for c in range(1, 16):
            for s in (False, True):
                extra.append(ftext(s, c, exp))
    for d in (3, 7, 10):
        for k in range(-4 * d - 1, 4 * d + 2):
            if k % d:
                extra.append(f'Q:{Q(k, d)}')
    extra += ['Q:1000001/3', 'Q:-99999999/7', 'Q:5/6', 'Q:-7/6', 'Q:15/14']
    have = {mk(t)[1].key() for t in out}
    for t in extra:
        k = mk(t)[1].key()
        if k not in have:
            have.add(k)
            out.append(t)
    return out


def pow_exponents(tier: str) -> list[str]:
    base = ['i:-3', 'i:-2', 'i:-1', 'i:0', 'i:1', 'i:2', 'i:3', 'i:5', 'F:+2p0', 'F:-1p0', 'F:+3p0',
            'f:' + (2.0).hex(), 'f:' + (-2.0).hex(), 'F:+0p0', 'F:-0p0']
    return base


def fma_pools(tier: str):
    """scale-reduced cube: first operand from one binade (plus specials and a Fraction), second from a
    reduced pool, third from the complete pool"""
    xs = [ftext(s, c, -2) for c in (4, 5, 6, 7) for s in (False, True)] + SPECIALS + ['Q:1/3', WIDE[0]]
    ys = small_floats((-1, 0)) + SPECIALS + ['Q:1/10', 'i:-3', FAR[0], WIDE[1]]
    if tier == 'quick':
        ys = [t for i, t in enumerate(ys) if i % 3 == 0 or not t.startswith('F:') or t in SPECIALS]
    zs = pool(tier)
    return xs, ys, zs


# ---------------------------------------------------------------------------
# target contexts

def configs(tier: str) -> list[Config]:
    quick = [Config('REAL', {})]
    quick += [Config('MPFloat', {'p': p}) for p in (1, 2, 3)]
    quick += [Config('MPSFloat', {'p': 2, 'emin': -1})]
    quick += [Config('MPBFloat', {'p': 3, 'emin': -2, 'maxval': Q(5, 2)})]
    quick += [Config('IEEE', {'es': 2, 'nbits': 5})]
    quick += [Config('EFloat', {'es': 2, 'nbits': 4, 'inf': False, 'nan_kind': 'NONE', 'eoffset': 0})]
    quick += [Config('MPFixed', {'nmin': n}) for n in (-3, 1)]
    quick += [Config('MPBFixed', {'nmin': -2, 'maxval': Q(7, 2)})]
    quick += [Config('Fixed', {'signed': True, 'scale': -1, 'nbits': 4}),
              Config('Fixed', {'signed': False, 'scale': 0, 'nbits': 3}),
              Config('SMFixed', {'scale': -2, 'nbits': 4})]
    if tier == 'quick':
        return quick
    out = list(quick)
    out += [Config('MPSFloat', {'p': 3, 'emin': 0}), Config('MPBFloat', {'p': 2, 'emin': -1, 'maxval': Q(6)}),
            Config('IEEE', {'es': 3, 'nbits': 5}), Config('MPFixed', {'nmin': -1})]
    out += [Config('MPFloat', {'p': p}) for p in (4, 5, 8)]
    out += [Config('MPFloat', {'p': 2, 'nan': False, 'inf': False, 'nan_value': 0, 'inf_value': 1})]
    for p, emin in ((1, 0), (1, -2), (2, 1), (3, -3), (4, -1), (5, 0)):
        out.append(Config('MPSFloat', {'p': p, 'emin': emin}))
    for p, emin, mx in ((1, -1, Q(2)), (2, 0, Q(4)), (3, -1, Q(7)), (4, -2, Q(15, 4)), (3, 0, Q(14))):
        out.append(Config('MPBFloat', {'p': p, 'emin': emin, 'maxval': mx}))
    out.append(Config('MPBFloat', {'p': 3, 'emin': -1, 'maxval': Q(7), 'neg_maxval': -Q(2)}))
    for es, nbits in ((2, 4), (2, 6), (3, 6), (3, 7), (4, 7), (4, 8), (5, 8)):
        out.append(Config('IEEE', {'es': es, 'nbits': nbits}))
    for kind, inf in (('IEEE_754', True), ('MAX_VAL', False), ('NEG_ZERO', False), ('NEG_ZERO', True), ('NONE', True)):
        out.append(Config('EFloat', {'es': 2, 'nbits': 5, 'inf': inf, 'nan_kind': kind, 'eoffset': 0}))
    out.append(Config('EFloat', {'es': 3, 'nbits': 6, 'inf': False, 'nan_kind': 'MAX_VAL', 'eoffset': 2}))
    out.append(Config('EFloat', {'es': 0, 'nbits': 4, 'inf': False, 'nan_kind': 'NONE', 'eoffset': 0}))
    out += [Config('MPFixed', {'nmin': n}) for n in (-6, -2, 0, 3)]
    out += [Config('MPFixed', {'nmin': -2, 'negzero': False}), Config('MPFixed', {'nmin': -1, 'nan': True, 'inf': True})]
    out += [Config('MPBFixed', {'nmin': -1, 'maxval': Q(5), 'neg_maxval': -Q(2)}),
            Config('MPBFixed', {'nmin': -3, 'maxval': Q(7, 4), 'nan': True, 'inf': True, 'negzero': False})]
    out += [Config('Fixed', {'signed': True, 'scale': -2, 'nbits': 5}), Config('Fixed', {'signed': True, 'scale': 1, 'nbits': 3}),
            Config('Fixed', {'signed': False, 'scale': -2, 'nbits': 4}), Config('SMFixed', {'scale': 0, 'nbits': 3}),
            Config('SMFixed', {'scale': -1, 'nbits': 5})]
    return out


def overflow_modes(cfg: Config, tier: str):
    ms = [m for m in cfg.overflow_modes() if m in ('OVERFLOW', 'SATURATE')]
    if tier == 'quick' and cfg.family != 'MPBFloat':
        ms = ms[:1]
    return ms


def quick_configs(seed: int) -> list[Config]:
    """complete quick core + one seed-rotated configuration of the thorough-only list"""
    core = configs('quick')
    have = {c.key() for c in core}
    extra = [c for c in configs('thorough') if c.key() not in have]
    return core + [extra[seed % len(extra)]]


# ---------------------------------------------------------------------------

def parse_params(params: dict) -> dict:
    P = {}
    for k, v in params.items():
        if v in ('True', 'False'):
            P[k] = v == 'True'
        elif v == 'None':
            P[k] = None
        elif k == 'nan_kind' or v in ('inf', 'nan'):
            P[k] = v
        else:
            P[k] = Fraction(v) if '/' in v else int(v)
    return P


def non_dyadic(x: X) -> bool:
    return x.isfin and (x.q.denominator & (x.q.denominator - 1)) != 0


def fmt_outs(outs):
    return '{' + ', '.join(str(o[0]) for o in outs) + '}'


class Check(BaseCheck):
    pid = 'C02'
    rule = ('(operation, operand tuple, context configuration, rounding mode, overflow mode): every tuple over the '
            'operand pool (complete value set of the small operand format + specials + Fractions + ints + floats + '
            'far exponents + wide Floats) for every binary operation and every integer exponent, the pool extended by '
            'all p <= 4 floats over nine exponents and a ladder of k/3, k/7, k/10 for the unary operations, the '
            'scale-reduced cube for fma, against every listed context.  nontrivial = distinct cases in which some '
            'admissible outcome is an inexact rounding, an overflow, a non-finite value or an error')
    assumptions = [
        'the exact zero sum of opposite-signed operands under RTN may have either sign (statement)',
        'mod: sign of a zero result and the value for an infinite divisor of the opposite sign are left open '
        '(Python reading and C fmod reading both admissible); hypot(inf, NaN) and NaN**0: both the IEEE 754 value and NaN',
        'nearbyint: both "integer under the mode, then rounded once" and "the operand rounded once at the units '
        'digit" (docstring) are admissible; copysign(x, NaN) may have either sign',
        'invalid / divzero are compared only for operations IEEE 754 specifies and only in contexts that have both '
        'NaN and infinity; the inexact flag is recorded, not judged',
        'NotImplementedError / "not supported" is admissible under REAL (operation not offered there); with a '
        'non-dyadic Fraction operand of sqrt cbrt hypot mod fmod remainder fdim it is counted as refused, not judged',
        'overflow modes WRAP and ASSERT are not exercised here (C01 covers the overflow arms)',
    ]
    trusted_base = ['mc.model.rounding (validated by C01 and its self-test)']

    def __init__(self, tier, seed):
        super().__init__(tier, seed)
        self.cfgs = quick_configs(seed) if tier == 'quick' else configs(tier)
        self.pool = pool(tier)
        self._ctxs = None
        self._mk = {}

    # ---- space --------------------------------------------------------
    def bounds(self):
        fam = {}
        for c in self.cfgs:
            fam[c.family] = fam.get(c.family, 0) + 1
        xs, ys, zs = fma_pools(self.tier)
        return {'operations': list(A.ALL_OPS), 'operand_pool': len(self.pool), 'pairs': len(self.pool) ** 2,
                'pow_exponents': len(pow_exponents(self.tier)), 'unary_pool': len(unary_pool(self.tier)), 'fma_triples': len(xs) * len(ys) * len(zs),
                'configurations': len(self.cfgs), 'by_family': fam, 'modes': 8,
                'contexts': sum(8 * len(overflow_modes(c, self.tier)) for c in self.cfgs)}

    NCHUNK = 8

    def shards(self):
        sh = []
        for op in A.BINARY:
            for k in range(self.NCHUNK):
                sh.append(('bin', op, k))
        xs, _, _ = fma_pools(self.tier)
        for k in range(2 * len(xs)):
            sh.append(('fma', 'fma', k))
        sh.append(('pow', 'pow', 0))
        sh.append(('pow', 'pow', 1))
        for k in range(3):
            sh.append(('un', 'unary', k))
        return sh

    def contexts(self):
        if self._ctxs is None:
            cs = []
            for cfg in self.cfgs:
                for ovf in overflow_modes(cfg, self.tier):
                    for mode in MODES:
                        ctx, spec = cfg.build(mode, ovf)
                        cs.append((cfg, mode, ovf, ctx, spec))
            self._ctxs = cs
        return self._ctxs

    def operand(self, text):
        v = self._mk.get(text)
        if v is None:
            v = self._mk[text] = mk(text)
        return v

    # ---- one evaluation -------------------------------------------------
    def admissible(self, ex: A.Exact, xs, spec, mode, ovf):
        outs = []
        for alt in ex.alts:
            if isinstance(alt, X):
                outs.extend(R.round_model(spec, alt, mode, ovf))
            else:
                outs.extend(A.round_real(spec, alt, mode, ovf))
        if ex.direct_n is not None and spec.kind != 'real':
            outs.extend(R.round_model(spec, xs[0], mode, ovf, ex.direct_n))
        return outs

    def check_one(self, r: ShardResult, op, texts, objs, xs, ex: A.Exact, cfg, mode, ovf, ctx, spec,
                  nd=None, special=None):
        counts = r.counts
        counts['evaluations'] += 1
        outs = self.admissible(ex, xs, spec, mode, ovf)
        for o in outs:
            if o[1] or o[0] == 'ERR' or not o[0].isfin:
                counts['nontrivial'] += 1
                break
        if nd is None:
            nd = any(non_dyadic(x) for x in xs)
            special = any(not x.isfin for x in xs)
        arm = 'special-operand' if special else self.arm(ex, outs)

        def bad(kind, detail):
            sig = {'op': op, 'target': spec.kind, 'arm': arm, 'operands': 'non-dyadic' if nd else 'dyadic',
                   'kind': kind}
            case = {'op': op, 'operands': list(texts), 'family': cfg.family,
                    'params': {k: str(v) for k, v in cfg.params.items()}, 'mode': mode, 'overflow': ovf}
            r.violate(sig, case, f'{op}({", ".join(texts)}) under {cfg.text()} rm={mode} ov={ovf}: {detail}; '
                                 f'exact result {ex.alts}, admissible after one rounding {fmt_outs(outs)}')

        try:
            y = OPS[op](*objs, ctx=ctx)
        except NotImplementedError as e:
            if spec.kind == 'real':
                r.outcomes[f'{op}:REAL:not-offered'] += 1
                counts['not_offered_real'] += 1
                return
            if nd and op in A.NOT_RATIONAL_CLOSED:
                r.outcomes[f'{op}:refused-nondyadic'] += 1
                counts['refused_nondyadic'] += 1
                return
            bad('not-implemented', f'raised NotImplementedError: {e}')
            return
        except (ValueError, OverflowError) as e:
            r.outcomes[f'{arm}:raises'] += 1
            if not any(o[0] == 'ERR' for o in outs):
                bad('raised', f'raised {type(e).__name__}: {e}')
            return
        except RuntimeError as e:
            if spec.kind == 'real' and 'not supported' in str(e):
                r.outcomes[f'{op}:REAL:not-offered'] += 1
                counts['not_offered_real'] += 1
                return
            bad('raised-other', f'raised RuntimeError: {e}')
            return
        except Exception as e:
            bad('raised-other', f'raised {type(e).__name__}: {e}')
            return
        try:
            xy = to_x(y)
        except Exception:
            bad('result-type', f'returned {y!r}')
            return
        r.outcomes[f'{arm}:{xy.kind}'] += 1
        ok = [o for o in outs if o[0] != 'ERR' and o[0].same(xy)]
        if not ok:
            bad('value', f'returned {show(y)} = {xy}')
            return
        if not isinstance(y, Float):
            return
        # flags, only where IEEE 754 defines them
        if spec.has_nan and spec.has_inf and op in A.IEEE_OPS:
            if ex.invalid is not None and bool(y.invalid) != ex.invalid and (xy.isnan or not ex.invalid):
                bad('invalid-flag', f'returned {xy} with invalid={y.invalid}, IEEE 754 says {ex.invalid}')
                return
            if ex.divzero is not None and bool(y.divzero) != ex.divzero and (xy.isinf or not ex.divzero):
                bad('divzero-flag', f'returned {xy} with divzero={y.divzero}, IEEE 754 says {ex.divzero}')
                return
        # recorded, not judged: inexact flag against the oracle
        if xy.isfin and op not in RINT_OPS and not any(o[1] is None or o[1] == bool(y.inexact) for o in ok):
            counts['inexact_flag_differs_from_oracle'] += 1

    @staticmethod
    def arm(ex, outs) -> str:
        for a in ex.alts:
            if isinstance(a, X) and not a.isfin:
                return 'special-result'
        for o in outs:
            if o[2] or o[0] == 'ERR':
                return 'overflow'
        for a in ex.alts:
            if isinstance(a, X) and a.iszero:
                return 'zero-result'
        for o in outs:
            if o[1]:
                return 'inexact'
        return 'exact'

    def run_tuple(self, r, op, texts):
        pairs = [self.operand(t) for t in texts]
        objs = [p[0] for p in pairs]
        xs = [p[1] for p in pairs]
        nd = any(non_dyadic(x) for x in xs)
        special = any(not x.isfin for x in xs)
        cache = {}
        for cfg, mode, ovf, ctx, spec in self.contexts():
            # the exact result depends on the mode only for RTN cancellation and nearbyint
            key = mode if (mode == 'RTN' or op == 'nearbyint') else ''
            ex = cache.get(key)
            if ex is None:
                ex = cache[key] = A.exact(op, xs, mode)
            self.check_one(r, op, texts, objs, xs, ex, cfg, mode, ovf, ctx, spec, nd, special)

    def run_shard(self, shard) -> ShardResult:
        r = ShardResult()
        kind, op, k = shard
        P = self.pool
        if kind == 'bin':
            for i, a in enumerate(P):
                if i % self.NCHUNK != k:
                    continue
                for b in P:
                    self.run_tuple(r, op, (a, b))
            if k == 0:
                r.sample(self.sample_case(op, (P[5], 'Q:1/3')))
        elif kind == 'fma':
            xs, ys, zs = fma_pools(self.tier)
            a = xs[k // 2]
            for j, b in enumerate(ys):
                if j % 2 != k % 2:
                    continue
                for c in zs:
                    self.run_tuple(r, 'fma', (a, b, c))
        elif kind == 'pow':
            es = pow_exponents(self.tier)
            for i, a in enumerate(P):
                if i % 2 != k:
                    continue
                for e in es:
                    self.run_tuple(r, 'pow', (a, e))
        else:
            U = unary_pool(self.tier)
            for j, op1 in enumerate(A.UNARY):
                if j % 3 != k:
                    continue
                for a in U:
                    self.run_tuple(r, op1, (a,))
        return r

    def sample_case(self, op, texts):
        """one case written out: exact result, admissible outcomes and what the implementation returned"""
        pairs = [self.operand(t) for t in texts]
        xs = [p[1] for p in pairs]
        for cfg, mode, ovf, ctx, spec in self.contexts():
            if cfg.family == 'MPFloat' and mode == 'RNE':
                ex = A.exact(op, xs, mode)
                try:
                    got = str(to_x(OPS[op](*[p[0] for p in pairs], ctx=ctx)))
                except Exception as e:
                    got = f'raises {type(e).__name__}'
                return {'op': op, 'operands': list(texts), 'context': cfg.text(), 'mode': mode, 'exact': str(ex.alts),
                        'admissible': fmt_outs(self.admissible(ex, xs, spec, mode, ovf)), 'implementation': got}
        return {'op': op, 'operands': list(texts)}

    def selfcheck(self):
        # the realref primitives against rationals with known roots, and an irrational cell
        from ..model.realref import Sqrt, Cbrt, Hypot
        assert Sqrt(Q(9, 4)).rational() == Q(3, 2) and Cbrt(Q(-27, 8)).rational() == Q(-3, 2)
        assert Hypot(3, 4).rational() == 5 and Sqrt(2).rational() is None
        assert Sqrt(2).ilog2() == 0 and Sqrt(2).scaled_floor(-3) == (11, False)      # 1.414 * 8 = 11.3
        assert Cbrt(Q(-1, 10)).ilog2() == -2 and Cbrt(Q(-1, 10)).scaled_floor(-4) == (7, False)   # 0.464 * 16
        spec = R.Spec('float', p=3)
        o = A.round_real(spec, Sqrt(2), 'RNE', 'OVERFLOW')
        assert len(o) == 1 and o[0][0].q == Q(3, 2) and o[0][1] is True, o
        o = A.round_real(spec, Sqrt(2), 'RTZ', 'OVERFLOW')
        assert o[0][0].q == Q(5, 4), o

    # ---- replay -------------------------------------------------------
    def replay(self, case):
        cfg = Config(case['family'], parse_params(case['params']))
        mode, ovf = case['mode'], case['overflow']
        ctx, spec = cfg.build(mode, ovf)
        texts = tuple(case['operands'])
        pairs = [mk(t) for t in texts]
        xs = [p[1] for p in pairs]
        ex = A.exact(case['op'], xs, mode)
        r = ShardResult()
        self.check_one(r, case['op'], texts, [p[0] for p in pairs], xs, ex, cfg, mode, ovf, ctx, spec)
        if r.violations:
            return True, '\n'.join(v.detail for v in r.violations)
        return False, f'case {case}: implementation is within the admissible outcomes ' \
                      f'{fmt_outs(self.admissible(ex, xs, spec, mode, ovf))}'
