"""
C05 — Number values behave as the real numbers they denote.

Space: all ordered pairs over a pool of values of the five numeric types
(every encoding (s, c, exp) in a small box as RealFloat and as Float, special
Floats, Floats carrying the context tag of four formats with digits inside and outside that format, ints, Python floats, Fractions) x operators; plus all unary
observations on every pool value.  Oracle: the denotation homomorphism into
mc.model.xreal.X (exact rationals + IEEE rules for specials).

What is *not* demanded (the statement leaves it open): the sign of a zero
result of + - * (both zeros denote the same real); whether a type mix is
offered at all (TypeError / ValueError('expected a dyadic rational') /
NotImplementedError are recorded as "not offered", never as violations) -- but
an operation that *returns* must return the right number, comparisons must
return the right truth value, and equal values must hash equally.
"""

from __future__ import annotations

import itertools
import math
from fractions import Fraction

from ..engine.runner import BaseCheck, ShardResult
from ..engine.adapt import to_x, show
from ..model.xreal import X

from fpy2.number import Float, RealFloat, IEEEContext, MPFloatContext, RM
import fpy2 as _fp

NOT_OFFERED = (TypeError, NotImplementedError)


def _is_not_offered(e: BaseException) -> bool:
    if isinstance(e, NOT_OFFERED):
        return True
    if isinstance(e, ValueError) and 'dyadic' in str(e):
        return True
    if isinstance(e, RuntimeError) and 'do not call directly' in str(e):
        return True
    return False


def _tags():
    """Ordinary values rounded under four contexts: a Float built from one of them with `x=` keeps its
    context tag whatever digits it is given, and the tag must not change what the value denotes."""
    three = RealFloat(False, 0, 3)
    return {'FP64': _fp.FP64.round(three), 'RTZ64': IEEEContext(11, 64, RM.RTZ).round(three),
            'FP16': IEEEContext(5, 16, RM.RNE).round(three), 'MP3': MPFloatContext(3, RM.RNE).round(three)}


TAG = _tags()


def _is_pow2(q: Fraction) -> bool:
    q = abs(q)
    if q == 0:
        return False
    k = q.numerator if q.denominator == 1 else q.denominator if q.numerator == 1 else 0
    return k > 0 and k & (k - 1) == 0


def build_pool(tier: str):
    """Returns a list of (tag, constructor-text, value)."""
    cmax = 15 if tier == 'quick' else 31
    exps = range(-3, 4) if tier == 'quick' else range(-4, 5)
    pool = []
    for s in (False, True):
        for c in range(cmax + 1):
            for exp in exps:
                pool.append(('RealFloat', f'RealFloat({s},{exp},{c})', RealFloat(s, exp, c)))
                pool.append(('Float', f'Float({s},{exp},{c})', Float(s, exp, c)))
    # zeros with large exponents, wide significands
    for s in (False, True):
        pool.append(('RealFloat', f'RealFloat({s},1000,0)', RealFloat(s, 1000, 0)))
        pool.append(('Float', f'Float({s},-1000,0)', Float(s, -1000, 0)))
        pool.append(('Float', f'Float(s={s},isinf=True)', Float(s=s, isinf=True)))
        pool.append(('Float', f'Float(s={s},isnan=True)', Float(s=s, isnan=True)))
        pool.append(('RealFloat', f'RealFloat({s},-70,{2**70+1})', RealFloat(s, -70, 2 ** 70 + 1)))
        pool.append(('Float', f'Float({s},60,1)', Float(s, 60, 1)))
        pool.append(('Float', f'Float({s},-1080,3)', Float(s, -1080, 3)))
    # context-tagged Floats (the tag is part of the encoding): digits inside and outside the tagging format
    for tg in TAG:
        for args in ('', f', c={2 ** 53 + 1}, exp=0', ', exp=2000', ', c=1, exp=-1075', ', c=5, exp=-3',
                     ', s=True, c=7, exp=-1', f', c={2 ** 24 + 1}, exp=1000'):
            text = f"Float(x=TAG['{tg}']{args})"
            pool.append(('Float', text, eval(text, {'Float': Float, 'TAG': TAG})))
    ints = list(range(-9, 10)) + [12, -12, 16, -17, 2 ** 60, -2 ** 60, 2 ** 53 + 1]
    # clusters around the limits of a double: conversions through float() are wrong exactly here
    for base in (2 ** 53, 2 ** 64, 2 ** 1024):
        for dlt in (-1, 0, 1, 2):
            v = base + dlt
            for sg in (1, -1):
                ints.append(sg * v)
            tz = (v & -v).bit_length() - 1
            pool.append(('Float', f'Float(False,{tz},{v >> tz})', Float(False, tz, v >> tz)))
            pool.append(('RealFloat', f'RealFloat(True,{tz},{v >> tz})', RealFloat(True, tz, v >> tz)))
            pool.append(('Fraction', f'Fraction({v},1)', Fraction(v, 1)))
    pool.append(('float', repr(2.0 ** 53), 2.0 ** 53))
    pool.append(('float', repr(2.0 ** 64), 2.0 ** 64))
    pool.append(('float', repr(-(2.0 ** 53)), -(2.0 ** 53)))
    pool.append(('Fraction', 'Fraction(1,3) + 2**53', Fraction(1, 3) + 2 ** 53))
    if tier != 'quick':
        ints += [10, 11, -10, -11, 13, 14, 15, -13, -14, -15, -16, 17]
    for i in ints:
        pool.append(('int', repr(i), i))
    fl = [0.0, -0.0, float('inf'), float('-inf'), float('nan'), 0.1, -0.1, 5e-324, -5e-324,
          2.0 ** 53 + 2, 1.7976931348623157e308, 0.5, -0.5, 0.25, 0.75, 1.0, -1.0, 1.5, -1.5, 2.0, 3.0,
          -3.0, 3.5, 6.0, -6.0, 7.0, 12.0, 28.0, 0.375, -0.875, 1e-310]
    for f in fl:
        pool.append(('float', repr(f), f))
    fr = [Fraction(k, 8) for k in range(-9, 10)] + [Fraction(1, 3), Fraction(-2, 7), Fraction(10 ** 30, 3),
                                                    Fraction(3), Fraction(-6), Fraction(7, 2), Fraction(1, 2 ** 70)]
    for q in fr:
        pool.append(('Fraction', f'Fraction({q.numerator},{q.denominator})', q))
    return pool


BINOPS = {
    '+': (lambda a, b: a + b, lambda x, y: x.add(y)),
    '-': (lambda a, b: a - b, lambda x, y: x.sub(y)),
    '*': (lambda a, b: a * b, lambda x, y: x.mul(y)),
}
CMPOPS = {
    '==': (lambda a, b: a == b, lambda c: c == 0),
    '!=': (lambda a, b: a != b, lambda c: c != 0),
    '<': (lambda a, b: a < b, lambda c: c is not None and c < 0),
    '<=': (lambda a, b: a <= b, lambda c: c is not None and c <= 0),
    '>': (lambda a, b: a > b, lambda c: c is not None and c > 0),
    '>=': (lambda a, b: a >= b, lambda c: c is not None and c >= 0),
}


def _cmp_expected(op, c):
    if op == '==':
        return c == 0 if c is not None else False
    if op == '!=':
        return c != 0 if c is not None else True
    return CMPOPS[op][1](c)


class Check(BaseCheck):
    pid = 'C05'
    rule = ('all ordered pairs (a, b) of pool values where at least one is Float/RealFloat, x {+,-,*,6 comparisons,'
            ' compare(), hash-consistency}; all unary observations on every Float/RealFloat pool value; every '
            'from_int/from_float/from_rational constructor on every native pool value. nontrivial = pair of '
            'different types or different encodings whose result is not one of the operands')
    assumptions = ['Python int/Fraction arithmetic is exact',
                   'type mixes that raise TypeError/ValueError(dyadic)/NotImplementedError are "not offered", not judged']

    def __init__(self, tier, seed):
        super().__init__(tier, seed)
        self.pool = build_pool(tier)

    def bounds(self):
        return {'pool': len(self.pool), 'cmax': 15 if self.tier == 'quick' else 31,
                'exp_window': [-3, 3] if self.tier == 'quick' else [-4, 4]}

    def shards(self):
        n = len(self.pool)
        return [('pairs', i, 64) for i in range(64)] + [('unary', 0, 1), ('from', 0, 1)]

    # ---- pair checks --------------------------------------------------
    def check_pair(self, r: ShardResult, i: int, j: int):
        ta, ca, a = self.pool[i]
        tb, cb, b = self.pool[j]
        if ta not in ('Float', 'RealFloat') and tb not in ('Float', 'RealFloat'):
            return
        xa, xb = to_x(a), to_x(b)
        for op, (impl, model) in BINOPS.items():
            r.count('evaluations')
            want = model(xa, xb)
            try:
                got = impl(a, b)
            except Exception as e:
                if _is_not_offered(e):
                    r.outcomes[f'{op}:{ta},{tb}:not-offered'] += 1
                    continue
                r.violate({'op': op, 'types': f'{ta},{tb}', 'kind': 'raises ' + type(e).__name__},
                          {'kind': 'bin', 'op': op, 'a': ca, 'b': cb},
                          f'{ca} {op} {cb} raised {e!r}; model {want}')
                continue
            try:
                xg = to_x(got)
            except Exception as e:
                r.violate({'op': op, 'types': f'{ta},{tb}', 'kind': 'result-type'},
                          {'kind': 'bin', 'op': op, 'a': ca, 'b': cb},
                          f'{ca} {op} {cb} returned {got!r} ({type(got).__name__})')
                continue
            r.outcomes[f'{op}:{want.kind}'] += 1
            if not (xa.iszero or xb.iszero) and xa.kind == 'fin' and ta != tb:
                r.count('nontrivial')
            if not want.same(xg, zero_sign=False):
                cls = 'special' if (xa.kind != 'fin' or xb.kind != 'fin') else 'finite'
                r.violate({'op': op, 'types': f'{ta},{tb}', 'kind': 'value', 'class': cls},
                          {'kind': 'bin', 'op': op, 'a': ca, 'b': cb},
                          f'{ca} {op} {cb} = {show(got)} denotes {xg}; model {want}')
        c = xa.cmp(xb)
        for op, (impl, _) in CMPOPS.items():
            r.count('evaluations')
            want = _cmp_expected(op, c)
            try:
                got = impl(a, b)
            except Exception as e:
                if isinstance(e, TypeError) and op not in ('==', '!='):
                    r.outcomes[f'{op}:{ta},{tb}:not-offered'] += 1
                    continue
                r.violate({'op': op, 'types': f'{ta},{tb}', 'kind': 'raises ' + type(e).__name__},
                          {'kind': 'cmp', 'op': op, 'a': ca, 'b': cb}, f'{ca} {op} {cb} raised {e!r}; model {want}')
                continue
            r.outcomes[f'{op}:{want}'] += 1
            if got is not want:
                r.violate({'op': op, 'types': f'{ta},{tb}', 'kind': 'truth'},
                          {'kind': 'cmp', 'op': op, 'a': ca, 'b': cb},
                          f'{ca} {op} {cb} = {got!r}; model {want} (values {xa} vs {xb})')
        # the compare() method: an Ordering (LESS/EQUAL/GREATER) of the denoted values, None iff unordered
        if hasattr(type(a), 'compare'):
            r.count('evaluations')
            try:
                got = a.compare(b)
            except Exception as e:
                if _is_not_offered(e):
                    r.outcomes[f'compare:{ta},{tb}:not-offered'] += 1
                else:
                    r.violate({'op': 'compare', 'types': f'{ta},{tb}', 'kind': 'raises ' + type(e).__name__},
                              {'kind': 'cmp', 'op': 'compare', 'a': ca, 'b': cb},
                              f'{ca}.compare({cb}) raised {e!r}; model {c}')
            else:
                gv = None if got is None else int(got.value) if hasattr(got, 'value') else int(got)
                r.outcomes[f'compare:{c}'] += 1
                if gv != c:
                    r.violate({'op': 'compare', 'types': f'{ta},{tb}', 'kind': 'truth'},
                              {'kind': 'cmp', 'op': 'compare', 'a': ca, 'b': cb},
                              f'{ca}.compare({cb}) = {got!r}; model {c} (values {xa} vs {xb})')
        # equal values hash equally (== as implemented; NaN never equal)
        r.count('evaluations')
        try:
            eq = (a == b)
        except Exception:
            eq = False
        if eq is True:
            try:
                ha, hb = hash(a), hash(b)
            except Exception as e:
                r.violate({'op': 'hash', 'types': f'{ta},{tb}', 'kind': 'raises'},
                          {'kind': 'hash', 'a': ca, 'b': cb}, f'hash raised {e!r}')
                return
            if ha != hb:
                r.violate({'op': 'hash', 'types': f'{ta},{tb}', 'kind': 'unequal'},
                          {'kind': 'hash', 'a': ca, 'b': cb}, f'{ca} == {cb} but hash {ha} != {hb}')

    # ---- unary checks -------------------------------------------------
    def check_unary(self, r: ShardResult, i: int):
        t, ctext, a = self.pool[i]
        if t not in ('Float', 'RealFloat'):
            return
        xa = to_x(a)
        cls = xa.kind if not xa.iszero else 'zero'
        sgn = 'neg' if xa.s else 'pos'

        def bad(op, detail, extra=None):
            sig = {'op': op, 'type': t, 'class': cls, 'sign': sgn}
            r.violate(sig, {'kind': 'unary', 'op': op, 'a': ctext, **(extra or {})}, detail)

        def value_op(op, fn, want: X):
            r.count('evaluations')
            try:
                got = fn()
                xg = to_x(got)
            except Exception as e:
                if _is_not_offered(e):
                    return
                bad(op, f'{op}({ctext}) raised {e!r}; model {want}')
                return
            r.outcomes[f'{op}:{want.kind}'] += 1
            if xa.kind == 'fin' and not xa.iszero:
                r.count('nontrivial')
            if not want.same(xg, zero_sign=False):
                bad(op, f'{op}({ctext}) = {show(got)} denotes {xg}; model {want}')

        value_op('neg', lambda: -a, xa.neg())
        value_op('pos', lambda: +a, xa)
        value_op('abs', lambda: abs(a), xa.abs())
        for n in (0, 1, 2, 3):
            value_op(f'pow{n}', lambda n=n: a ** n, xa.powi(n))

        # as_rational
        r.count('evaluations')
        if xa.kind == 'fin':
            try:
                q = a.as_rational()
                if Fraction(q) != xa.q:
                    bad('as_rational', f'{ctext}.as_rational() = {q}; model {xa.q}')
            except Exception as e:
                bad('as_rational', f'{ctext}.as_rational() raised {e!r}')
        elif hasattr(a, 'as_rational'):
            # no rational equals an infinity or NaN: the conversion has to raise
            try:
                q = a.as_rational()
                bad('as_rational', f'{ctext}.as_rational() = {q!r}; operand denotes {xa}')
            except (ValueError, OverflowError, TypeError):
                r.outcomes['as_rational:raises'] += 1
        # numerator / denominator (numbers.Rational protocol), where offered: same value or raise
        if hasattr(type(a), 'numerator') and hasattr(type(a), 'denominator'):
            r.count('evaluations')
            try:
                nq = Fraction(a.numerator, a.denominator)
                if not (xa.kind == 'fin' and nq == xa.q):
                    bad('numerator/denominator', f'{ctext}: numerator/denominator = {nq}; operand denotes {xa}')
            except (ValueError, OverflowError, TypeError, ZeroDivisionError):
                if xa.kind == 'fin':
                    bad('numerator/denominator', f'{ctext}: numerator/denominator raised for the finite value {xa}')
        # int(): same value or raise
        r.count('evaluations')
        try:
            iv = int(a)
            if not (xa.kind == 'fin' and Fraction(iv) == xa.q):
                bad('int', f'int({ctext}) = {iv}; operand denotes {xa}')
            r.outcomes['int:ok'] += 1
        except (ValueError, OverflowError, TypeError):
            if xa.kind == 'fin' and xa.q.denominator == 1:
                bad('int', f'int({ctext}) raised although the value {xa} is an integer')
            r.outcomes['int:raises'] += 1
        # float(): same value or raise
        r.count('evaluations')
        try:
            fv = float(a)
            xf = X.from_pyfloat(fv)
            if not xf.same(xa, zero_sign=False):
                bad('float', f'float({ctext}) = {fv!r}; operand denotes {xa}')
            r.outcomes['float:ok'] += 1
        except (ValueError, OverflowError, TypeError):
            r.outcomes['float:raises'] += 1
            # must not raise when the value is exactly a double
            if xa.kind != 'fin':
                bad('float', f'float({ctext}) raised for a special value')
            else:
                try:
                    ok = Fraction(float(xa.q)) == xa.q
                except OverflowError:
                    ok = False
                if ok:
                    bad('float', f'float({ctext}) raised although {xa} is exactly a double')
        # integer roundings (math.trunc/floor/ceil, round): the exact integer function of the denoted value;
        # no int denotes an infinity or NaN, so those have to raise
        for nm, fn, model in (('trunc', math.trunc, math.trunc), ('floor', math.floor, math.floor),
                              ('ceil', math.ceil, math.ceil), ('round', round, round)):
            r.count('evaluations')
            try:
                iv = fn(a)
            except (ValueError, OverflowError, TypeError, NotImplementedError):
                if xa.kind == 'fin':
                    bad(nm, f'{nm}({ctext}) raised for the finite value {xa}')
                r.outcomes[f'{nm}:raises'] += 1
                continue
            except Exception as e:
                bad(nm, f'{nm}({ctext}) raised {e!r}')
                continue
            r.outcomes[f'{nm}:ok'] += 1
            if xa.kind != 'fin':
                bad(nm, f'{nm}({ctext}) = {iv!r}; operand denotes {xa}')
            elif type(iv) is not int or iv != model(xa.q):
                bad(nm, f'{nm}({ctext}) = {iv!r}; model {model(xa.q)} (value {xa})')
        # sign / zero predicates (NaN is left open; an infinity has its sign and is not zero)
        if xa.kind in ('fin', 'inf'):
            isz = xa.kind == 'fin' and xa.q == 0
            pos = (xa.kind == 'inf' and not xa.s) or (xa.kind == 'fin' and xa.q > 0)
            neg = (xa.kind == 'inf' and xa.s) or (xa.kind == 'fin' and xa.q < 0)
            preds = [('is_zero', isz), ('is_positive', pos), ('is_negative', neg)]
            if xa.kind == 'fin':
                preds.append(('is_nonzero', not isz))
                preds.append(('is_power_of_two', _is_pow2(xa.q)))
            for nm, want in preds:
                if not hasattr(type(a), nm):
                    continue
                r.count('evaluations')
                try:
                    got = getattr(a, nm)()
                except Exception as e:
                    bad(nm, f'{ctext}.{nm}() raised {e!r}')
                    continue
                r.outcomes[f'{nm}:{want}'] += 1
                if got is not want:
                    bad(nm, f'{ctext}.{nm}() = {got!r}; value {xa}')
        if xa.kind != 'fin':
            return
        # digit accessors: m * 2^exp is the value; 2^e <= |x| < 2^(e+1); p digits; n = exp - 1
        r.count('evaluations')
        try:
            m_, exp_, p_, n_ = a.m, a.exp, a.p, a.n
            if Fraction(m_) * Fraction(2) ** exp_ != xa.q:
                bad('m', f'{ctext}: m={m_}, exp={exp_} denote {Fraction(m_) * Fraction(2) ** exp_}; value {xa}')
            if n_ != exp_ - 1:
                bad('n', f'{ctext}: n={n_} but exp={exp_}')
            if not (abs(m_) < 2 ** p_ and (p_ == 0 or abs(m_) >= 2 ** (p_ - 1))):
                bad('p', f'{ctext}: p={p_} but |m|={abs(m_)}')
            if xa.q != 0:
                e_ = a.e
                if not (Fraction(2) ** e_ <= abs(xa.q) < Fraction(2) ** (e_ + 1)):
                    bad('e', f'{ctext}: e={e_} but |value|={abs(xa.q)}')
        except Exception as e:
            bad('accessors', f'{ctext}: m/exp/p/n/e raised {e!r}')
        # is_integer
        r.count('evaluations')
        if a.is_integer() != (xa.q.denominator == 1):
            bad('is_integer', f'{ctext}.is_integer() = {a.is_integer()}; value {xa}')
        for n in range(-5, 6):
            # split(n): hi + lo == x, hi multiple of 2^(n+1), |lo| < 2^(n+1)
            r.count('evaluations')
            try:
                hi, lo = a.split(n)
                xh, xl = to_x(hi), to_x(lo)
                unit = Fraction(2) ** (n + 1)
                ok = (xh.kind == 'fin' and xl.kind == 'fin' and xh.q + xl.q == xa.q
                      and (xh.q / unit).denominator == 1 and abs(xl.q) < unit
                      and (xh.q == 0 or (xh.q < 0) == (xa.q < 0)) and (xl.q == 0 or (xl.q < 0) == (xa.q < 0)))
                if not ok:
                    bad('split', f'{ctext}.split({n}) = ({show(hi)}, {show(lo)}) = ({xh}, {xl}); value {xa}', {'n': n})
            except Exception as e:
                bad('split', f'{ctext}.split({n}) raised {e!r}', {'n': n})
            # is_more_significant(n): every non-zero digit above n <=> x multiple of 2^(n+1)
            r.count('evaluations')
            want = (xa.q / (Fraction(2) ** (n + 1))).denominator == 1
            try:
                got = a.is_more_significant(n)
                if got is not want:
                    bad('is_more_significant', f'{ctext}.is_more_significant({n}) = {got}; model {want}', {'n': n})
            except Exception as e:
                bad('is_more_significant', f'{ctext}.is_more_significant({n}) raised {e!r}', {'n': n})
            # bit(n): binary digit of |x| at position n
            r.count('evaluations')
            want = (math.floor(abs(xa.q) / (Fraction(2) ** n)) % 2) == 1
            real = a if isinstance(a, RealFloat) else a.as_real()
            try:
                got = real.bit(n)
                if got is not want:
                    bad('bit', f'{ctext}.bit({n}) = {got}; model {want}', {'n': n})
            except Exception as e:
                bad('bit', f'{ctext}.bit({n}) raised {e!r}', {'n': n})
            # normalize(p, n) / normalize(None, n) / normalize(p, None): same value or ValueError
            for p in (None, 1, 2, 4, 6):
                r.count('evaluations')
                for nn in (None, n):
                    if p is None and nn is None:
                        continue
                    try:
                        y = a.normalize(p, nn)
                    except ValueError:
                        r.outcomes['normalize:raises'] += 1
                        continue
                    except Exception as e:
                        bad('normalize', f'{ctext}.normalize({p},{nn}) raised {e!r}', {'p': p, 'n': nn})
                        continue
                    xy = to_x(y)
                    r.outcomes['normalize:ok'] += 1
                    if not xy.same(xa, zero_sign=False):
                        bad('normalize', f'{ctext}.normalize({p},{nn}) = {show(y)} denotes {xy}; value {xa}',
                            {'p': p, 'n': nn})
                    else:
                        # stated shape
                        if p is not None and nn is None and not xa.iszero and y.p != p:
                            bad('normalize', f'{ctext}.normalize({p},None) has p={y.p}', {'p': p, 'n': nn})
                        if p is None and y.exp != nn + 1:
                            bad('normalize', f'{ctext}.normalize(None,{nn}) has exp={y.exp}', {'p': p, 'n': nn})
                        if p is not None and nn is not None and (y.exp < nn + 1 or y.p > p):
                            bad('normalize', f'{ctext}.normalize({p},{nn}) has exp={y.exp}, p={y.p}',
                                {'p': p, 'n': nn})

    # ---- conversions from native types ---------------------------------
    def check_from(self, r: ShardResult, i: int):
        t, ctext, v = self.pool[i]
        if t not in ('int', 'float', 'Fraction'):
            return
        xv = to_x(v)
        for T in (RealFloat, Float):
            for nm in ('from_int', 'from_float', 'from_rational'):
                fn = getattr(T, nm, None)
                if fn is None:
                    continue
                r.count('evaluations')
                # the constructor that is documented for this native type has to accept every value the
                # target type can denote; anything else may be refused
                must = ((nm == 'from_int' and t == 'int')
                        or (nm == 'from_float' and t == 'float' and (T is Float or xv.kind == 'fin'))
                        or (nm == 'from_rational' and t == 'Fraction' and _is_pow2(Fraction(1, v.denominator))))
                sig = {'op': nm, 'type': T.__name__, 'from': t, 'class': xv.kind if not xv.iszero else 'zero'}
                case = {'kind': 'from', 'op': nm, 'T': T.__name__, 'a': ctext}
                try:
                    got = fn(v)
                except Exception as e:
                    r.outcomes[f'{nm}:{t}:raises'] += 1
                    if must or not (_is_not_offered(e) or isinstance(e, ValueError)):
                        r.violate({**sig, 'kind': 'raises'}, case, f'{T.__name__}.{nm}({ctext}) raised {e!r}')
                    continue
                r.outcomes[f'{nm}:{t}:ok'] += 1
                if xv.kind == 'fin' and not xv.iszero:
                    r.count('nontrivial')
                try:
                    xg = to_x(got)
                except Exception:
                    r.violate({**sig, 'kind': 'result-type'}, case, f'{T.__name__}.{nm}({ctext}) returned {got!r}')
                    continue
                if not isinstance(got, T) or not xg.same(xv, zero_sign=True):
                    r.violate({**sig, 'kind': 'value'}, case,
                              f'{T.__name__}.{nm}({ctext}) = {show(got)} denotes {xg}; operand denotes {xv}')

    def run_shard(self, shard) -> ShardResult:
        r = ShardResult()
        kind, k, m = shard
        n = len(self.pool)
        if kind == 'pairs':
            for i in range(n):
                for j in range(n):
                    if (i * n + j) % m == k:
                        self.check_pair(r, i, j)
                        r.count('states')
            if k == 0:
                r.sample({'a': self.pool[3][1], 'b': self.pool[-1][1], 'ops': list(BINOPS) + list(CMPOPS) + ['hash']})
        elif kind == 'from':
            for i in range(n):
                self.check_from(r, i)
                r.count('states')
            r.sample({'from native': self.pool[-1][1], 'ops': 'RealFloat/Float .from_int .from_float .from_rational'})
        else:
            for i in range(n):
                self.check_unary(r, i)
                r.count('states')
            r.sample({'unary on': self.pool[5][1],
                      'ops': 'neg pos abs pow0-3 as_rational int float is_integer split bit '
                             'is_more_significant normalize trunc floor ceil round is_zero is_nonzero is_positive '
                             'is_negative is_power_of_two m/exp/p/n/e'})
        return r

    def replay(self, case):
        env = {'Float': Float, 'RealFloat': RealFloat, 'Fraction': Fraction, 'TAG': TAG}
        by_text = {c: i for i, (_, c, _) in enumerate(self.pool)}
        r = ShardResult()
        if case['kind'] in ('bin', 'cmp', 'hash'):
            for c in (case['a'], case['b']):
                if c not in by_text:
                    by_text[c] = len(self.pool)
                    v = eval(c.replace('inf', 'float("inf")') if c in ('inf', '-inf') else c, env) \
                        if c not in ('nan', 'inf', '-inf') else float(c)
                    t = type(v).__name__
                    self.pool.append((t, c, v))
            self.check_pair(r, by_text[case['a']], by_text[case['b']])
        elif case['kind'] == 'from':
            c = case['a']
            if c not in by_text:
                by_text[c] = len(self.pool)
                v = float(c) if c in ('nan', 'inf', '-inf') else eval(c, env)
                self.pool.append((type(v).__name__, c, v))
            self.check_from(r, by_text[c])
        else:
            c = case['a']
            if c not in by_text:
                by_text[c] = len(self.pool)
                v = eval(c, env)
                self.pool.append((type(v).__name__, c, v))
            self.check_unary(r, by_text[c])
        want_op = case.get('op')
        vs = [v for v in r.violations if v.case.get('op', 'hash') == want_op or case['kind'] == 'hash']
        if vs:
            return True, '\n'.join(v.detail for v in vs)
        return False, f'case {case}: implementation agrees with the model'
