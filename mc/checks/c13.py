"""
C13 -- Static analysis facts hold on every execution.

Space: every program of seven bounded grammars (mc.engine.progen_c13: J joins, P loop-carried constants, T tuple rows,
V value-class ladders, L list/alias routes, Z sizes, S shadowing comprehension targets) x the complete product of
small per-family argument pools chosen to steer every branch outcome, trip
count and value class.  Each accepted program is analysed once with the real
analyses (DefineUse, TypeInfer, PartialEval, ArraySizeInfer, ValueClassInfer,
Alias) and every execution is traced with mc.engine.tracer (a BytecodeCompiler
subclass); the facts are then compared with what actually happened, at every
traced event.

Family S (144 programs, both tiers): a comprehension target shadows a name already in scope -- a real
parameter, an earlier real or bool local, a list parameter (also iterated by the very comprehension that
shadows it) -- over an iterable whose elements have the same or a different type than the shadowed name
(plain and destructuring `zip` targets; element reading / not reading the target), and the shadowed name is
read again AFTER the comprehension in the same statement (sibling operand, later tuple element, element of
a second comprehension, both if-expression arms, `while` condition and loop body, `return` value) and in the
next statement.  The comprehension's binding ends with the comprehension, so each of those reads must be
reported as reached by the outer definition and carry the outer definition's type / class / constant.

Oracle, per execution in which every operation has a result (a raising
execution is counted and not judged -- the analyses' stated assumption):
  TypeInfer      by_expr / by_def / return type: the value has that shape
  ArraySizeInfer by_expr / by_def / ret_size: a concrete size equals len(); all
                 lists carrying the same size variable have one length
  ValueClass     by_expr / by_def: class_of(value) is in the reported class
  PartialEval    by_expr / by_def: the value equals the reported constant
  DefineUse      use_to_def: the assignment that produced the value read is a
                 leaf of the reported definition (phis expanded)
  Alias          two list-valued definitions that held the same object (`is`)
                 must be may_alias -- only in programs all of whose list-valued
                 expressions are routes the analysis documents as modelled

Not demanded: precision of any analysis; anything about programs an analysis
rejects (TypeInferError etc. are counted as `rejected`); the sign of a zero in
a folded constant is reported under its own signature (`why=zero-sign`).
"""

from __future__ import annotations

import gc
import linecache
import os
import time
from collections import Counter
from fractions import Fraction

from ..engine.runner import BaseCheck, ShardResult
from ..engine import progen_c13 as pg
from ..engine.loader import load_source
from ..engine.tracer import TraceOverflow, TracingInterpreter, replay

import fpy2 as fp
from fpy2.ast import fpyast as A
from fpy2.analysis import (
    Alias, ArraySizeInfer, DefineUse, ListSize, PartialEval, TupleSize, TypeInfer, ValueClass,
    ValueClassInfer,
)
from fpy2.analysis.reaching_defs import AssignDef, PhiDef
from fpy2.number import Context, Float
from fpy2.types import BoolType, ContextType, ListType, RealType, TupleType, VarType
from fpy2.utils import NamedId

NSHARDS = 48


# ----------------------------------------------------------------------
# reference notions (written here, not borrowed from the code under test)

def class_of(v):
    """value class of a run-time real (Float or Fraction)"""
    if isinstance(v, Fraction):
        return ValueClass.ZERO if v == 0 else ValueClass.FINITE
    if v.isnan:
        return ValueClass.NAN
    if v.isinf:
        return ValueClass.INF
    return ValueClass.ZERO if v.c == 0 else ValueClass.FINITE


def is_real(v) -> bool:
    return isinstance(v, (Float, Fraction))


def conforms(v, ty) -> bool:
    """does run-time value v have the shape of type ty?"""
    if isinstance(ty, VarType):
        return True
    if isinstance(ty, BoolType):
        return isinstance(v, bool)
    if isinstance(ty, RealType):
        return is_real(v)
    if isinstance(ty, ContextType):
        return isinstance(v, Context)
    if isinstance(ty, TupleType):
        return isinstance(v, tuple) and len(v) == len(ty.elts) and all(conforms(x, t) for x, t in zip(v, ty.elts))
    if isinstance(ty, ListType):
        return isinstance(v, list) and all(conforms(x, ty.elt) for x in v)
    return True     # function types etc.: nothing to observe


def key_of(v):
    """canonical key of a real: ('nan',) / ('inf', s) / ('fin', s, q) -- sign kept for zero"""
    if isinstance(v, Fraction):
        return ('fin', v < 0, v)
    if v.isnan:
        return ('nan',)
    if v.isinf:
        return ('inf', bool(v.s))
    return ('fin', bool(v.s), Fraction(v.as_rational()))


def same_const(c, v) -> str | None:
    """None if run-time value v equals reported constant c, else the kind of difference"""
    if isinstance(c, bool) or isinstance(v, bool):
        return None if (isinstance(c, bool) and isinstance(v, bool) and c == v) else 'value'
    if is_real(c):
        if not is_real(v):
            return 'shape'
        kc, kv = key_of(c), key_of(v)
        if kc == kv:
            return None
        if kc[0] == kv[0] == 'fin' and kc[2] == kv[2] == 0:
            return 'zero-sign'
        return 'value'
    if isinstance(c, (list, tuple)):
        if type(c) is not type(v) or len(c) != len(v):
            return 'shape' if type(c) is not type(v) else 'value'
        worst = None
        for x, y in zip(c, v):
            d = same_const(x, y)
            if d is not None and (worst is None or d != 'zero-sign'):
                worst = d
        return worst
    if isinstance(c, Context):
        return None if (isinstance(v, Context) and c == v) else 'value'
    return None     # foreign values (modules, functions): not compared


def show(v, depth=0) -> str:
    if isinstance(v, list):
        return '[' + ', '.join(show(x) for x in v) + ']'
    if isinstance(v, tuple):
        return '(' + ', '.join(show(x) for x in v) + ')'
    if isinstance(v, Float):
        if v.isnan:
            return 'nan'
        if v.isinf:
            return '-inf' if v.s else 'inf'
        q = Fraction(v.as_rational())
        return ('-0' if v.s else '0') if q == 0 else str(q)
    if isinstance(v, Fraction):
        return str(v)
    return repr(v)[:60]


MODELLED = (A.Var, A.ListRef, A.Fst, A.Snd, A.IfExpr, A.ListSlice, A.ListExpr, A.TupleExpr, A.ListComp,
            A.Enumerate, A.Zip, A.Range1, A.Range2, A.Range3)


def carries_list(ty) -> bool:
    if isinstance(ty, ListType):
        return True
    if isinstance(ty, TupleType):
        return any(carries_list(t) for t in ty.elts)
    return False


def features_of(func_ast, ret_depth: dict | None = None) -> set[str]:
    """coarse syntactic features of a program, used only to name violation classes;
    `ret_depth` (if given) receives id(return expression) -> nesting depth"""
    feats: set[str] = set()

    def expr(e):
        if isinstance(e, A.ListComp):
            feats.add('comp')
        elif isinstance(e, A.IfExpr):
            feats.add('ifexpr')
        elif isinstance(e, (A.Zip, A.Enumerate)):
            feats.add('zip')
        elif isinstance(e, A.ListSlice):
            feats.add('slice')
        elif isinstance(e, A.Call):
            feats.add('call')
        elif isinstance(e, A.TupleExpr):
            feats.add('tuple')

    def walk_expr(e):
        if e is None:
            return
        expr(e)
        if isinstance(e, A.NaryExpr):
            for a in e.args:
                walk_expr(a)
        elif isinstance(e, A.Compare):
            for a in e.args:
                walk_expr(a)
        elif isinstance(e, (A.TupleExpr, A.ListExpr)):
            for a in e.elts:
                walk_expr(a)
        elif isinstance(e, A.ListComp):
            for a in e.iterables:
                walk_expr(a)
            walk_expr(e.elt)
        elif isinstance(e, A.ListRef):
            walk_expr(e.value)
            walk_expr(e.index)
        elif isinstance(e, A.ListSlice):
            walk_expr(e.value)
            walk_expr(e.start)
            walk_expr(e.stop)
        elif isinstance(e, A.IfExpr):
            walk_expr(e.cond)
            walk_expr(e.ift)
            walk_expr(e.iff)

    def block(b, depth):
        for s in b.stmts:
            if isinstance(s, A.Assign):
                walk_expr(s.expr)
            elif isinstance(s, A.IndexedAssign):
                feats.add('iassign')
                walk_expr(s.expr)
            elif isinstance(s, A.If1Stmt):
                feats.add('if')
                walk_expr(s.cond)
                block(s.body, depth + 1)
            elif isinstance(s, A.IfStmt):
                feats.add('if')
                walk_expr(s.cond)
                block(s.ift, depth + 1)
                block(s.iff, depth + 1)
            elif isinstance(s, A.WhileStmt):
                feats.add('loop')
                walk_expr(s.cond)
                block(s.body, depth + 1)
            elif isinstance(s, A.ForStmt):
                feats.add('loop')
                walk_expr(s.iterable)
                block(s.body, depth + 1)
            elif isinstance(s, A.ContextStmt):
                feats.add('with')
                block(s.body, depth)
            elif isinstance(s, A.AssertStmt):
                feats.add('assert')
                walk_expr(s.test)
            elif isinstance(s, A.ReturnStmt):
                if depth > 0:
                    feats.add('early-return')
                if ret_depth is not None:
                    ret_depth[id(s.expr)] = depth
                walk_expr(s.expr)
            elif isinstance(s, A.EffectStmt):
                walk_expr(s.expr)

    block(func_ast.body, 0)
    return feats


# the first of these features present in the program names the violation class (`trigger`)
RELEVANT = {
    'TypeInfer': ('call', 'comp', 'loop', 'tuple'),
    'ArraySize': ('call', 'loop', 'ifexpr', 'comp', 'slice', 'zip', 'assert'),
    'ValueClass': ('loop', 'ifexpr', 'with'),
    'PartialEval': ('iassign', 'loop', 'with'),
    'DefineUse': ('comp', 'loop', 'early-return', 'with', 'if'),
    'Alias': ('iassign', 'comp', 'zip', 'tuple', 'slice', 'ifexpr', 'loop', 'if'),
}


# ----------------------------------------------------------------------
# facts of one program

class Facts:
    """The real analyses run on one function.  An analysis that refuses the
    program (raises) is recorded in `rejected` and contributes no facts."""

    NAMES = ('DefineUse', 'TypeInfer', 'PartialEval', 'ArraySize', 'ValueClass', 'Alias')

    def __init__(self, func):
        ast = func.ast
        self.ast = ast
        self.rejected: dict[str, str] = {}
        self.du = self.ty = self.pe = self.az = self.vc = self.al = None
        try:
            self.du = DefineUse.analyze(ast)
        except Exception as e:  # noqa: BLE001
            self.rejected['DefineUse'] = type(e).__name__
            return
        try:
            self.ty = TypeInfer.check(ast, def_use=self.du)
        except Exception as e:  # noqa: BLE001
            self.rejected['TypeInfer'] = type(e).__name__
        try:
            self.pe = PartialEval.apply(ast, def_use=self.du)
        except Exception as e:  # noqa: BLE001
            self.rejected['PartialEval'] = type(e).__name__
        if self.ty is not None:
            if self.pe is not None:
                try:
                    self.az = ArraySizeInfer.analyze(ast, partial_eval=self.pe, type_info=self.ty)
                except Exception as e:  # noqa: BLE001
                    self.rejected['ArraySize'] = type(e).__name__
            try:
                self.vc = ValueClassInfer.analyze(ast, def_use=self.du, type_info=self.ty)
            except Exception as e:  # noqa: BLE001
                self.rejected['ValueClass'] = type(e).__name__
            try:
                self.al = Alias.analyze(ast, self.du, self.ty)
            except Exception as e:  # noqa: BLE001
                self.rejected['Alias'] = type(e).__name__
        self.ret_depth: dict = {}
        self.features = features_of(ast, self.ret_depth)
        self._leaves: dict = {}
        self.alias_modelled = None

    def leaves(self, d):
        """AssignDefs a definition may stand for (phis expanded transitively)"""
        got = self._leaves.get(id(d))
        if got is not None:
            return got
        out, seen, todo = set(), set(), [d]
        defs = self.du.defs
        while todo:
            x = todo.pop()
            if isinstance(x, PhiDef):
                k = self.du.def_to_idx.get(x, id(x))
                if k in seen:
                    continue
                seen.add(k)
                todo.append(defs[x.lhs])
                todo.append(defs[x.rhs])
            else:
                out.add(x)
        self._leaves[id(d)] = out
        return out

    def alias_is_modelled(self, code) -> bool:
        """every list-carrying expression is one of the routes alias.py documents"""
        if self.alias_modelled is None:
            ok = True
            for e in code.exprs:
                if carries_list(self.ty.by_expr.get(e)) and not isinstance(e, MODELLED):
                    ok = False
                    break
            self.alias_modelled = ok
        return self.alias_modelled


# ----------------------------------------------------------------------
# the judge

class Judge:
    """Compares the facts of one program with one traced execution."""

    def __init__(self, facts: Facts, counts: Counter):
        self.f = facts
        self.counts = counts
        self.out: list[tuple[dict, str]] = []     # (signature, detail)
        self.exit = 'end'

    def bad(self, analysis: str, fact: str, node: str, why: str, detail: str):
        trigger = next((x for x in RELEVANT[analysis] if x in self.f.features), '-')
        self.out.append(({'analysis': analysis, 'fact': fact, 'node': node, 'why': why, 'trigger': trigger,
                          'exit': self.exit}, detail))

    # -- array sizes -----------------------------------------------------
    def size(self, bound, v, where: str, node: str, fact: str, text):
        """`text` is a string or an AST node (formatted only when needed)"""
        self.counts['cmp_size'] += 1
        if not isinstance(text, (str, _Lazy)):
            text = _Lazy(text)
        if isinstance(bound, ListSize):
            if not isinstance(v, list):
                self.bad('ArraySize', fact, node, 'shape', f'{where} `{text}`: reported {bound}, value {show(v)} is not a list')
                return
            if isinstance(bound.size, int):
                self.counts['size_concrete'] += 1
                if len(v) != bound.size:
                    self.bad('ArraySize', fact, node, 'concrete',
                             f'{where} `{text}`: reported length {bound.size}, actual length {len(v)} ({show(v)})')
            elif isinstance(bound.size, NamedId):
                self.counts['size_symbolic'] += 1
                prev = self.sizevars.get(bound.size)
                if prev is None:
                    self.sizevars[bound.size] = (len(v), f'{where} `{text}`')
                elif prev[0] != len(v):
                    self.bad('ArraySize', fact, node, 'size-var',
                             f'size variable {bound.size}: {prev[1]} has length {prev[0]} but {where} `{text}` '
                             f'has length {len(v)} -- reported equal-length')
            for x in v:
                if bound.elt is not None:
                    self.size(bound.elt, x, where + ' element of', node, fact, text)
        elif isinstance(bound, TupleSize):
            if not isinstance(v, tuple) or len(v) != len(bound.elts):
                self.bad('ArraySize', fact, node, 'shape', f'{where} `{text}`: reported {bound}, value {show(v)}')
                return
            for b, x in zip(bound.elts, v):
                if b is not None:
                    self.size(b, x, where + ' field of', node, fact, text)

    # -- facts attached to a definition, checked against a value it holds ---
    def def_facts(self, d, v, snap, how: str):
        f = self.f
        name = str(d.name)
        kind = 'phi' if isinstance(d, PhiDef) else type(d.site).__name__
        if f.ty is not None and d in f.ty.by_def:
            self.counts['cmp_type'] += 1
            if not conforms(snap, f.ty.by_def[d]):
                self.bad('TypeInfer', 'by_def', kind, 'shape',
                         f'{how} `{name}`: type {f.ty.by_def[d].format()}, value {show(snap)}')
        if f.az is not None and d in f.az.by_def and f.az.by_def[d] is not None:
            self.size(f.az.by_def[d], snap, how, kind, 'by_def', name)
        if f.vc is not None:
            c = f.vc.by_def.get(d)
            if isinstance(c, ValueClass) and is_real(v):
                self.counts['cmp_class'] += 1
                if not (class_of(v) & c):
                    self.bad('ValueClass', 'by_def', kind, str(class_of(v)).split('.')[-1],
                             f'{how} `{name}`: class {c}, value {show(v)}')
        if f.pe is not None and d in f.pe.by_def:
            self.counts['cmp_const'] += 1
            diff = same_const(f.pe.by_def[d], snap)
            if diff is not None:
                self.bad('PartialEval', 'by_def', kind, self.const_why(diff, v),
                         f'{how} `{name}`: reported constant {show(f.pe.by_def[d])}, value {show(snap)}')
        if isinstance(v, list) and f.al is not None:
            hs = self.holders.get(id(v))
            if hs is None:
                self.holders[id(v)] = (v, {d: how + ' ' + name})
            else:
                hs[1].setdefault(d, how + ' ' + name)

    def reaching(self, use_node, dyn, text: str, kind: str):
        f = self.f
        self.counts['cmp_reach'] += 1
        d = f.du.use_to_def.get(use_node)
        if d is None:
            self.bad('DefineUse', 'use_to_def', kind, 'no-definition', f'read of `{text}` has no definition listed')
            return None
        name, site = dyn
        dd = f.du.site_to_def.get((name, site))
        if dd is None:
            self.bad('DefineUse', 'site_to_def', kind, 'unknown-site',
                     f'read of `{text}` saw the assignment at {type(site).__name__}, which has no definition')
            return d
        lv = f.leaves(d)
        if isinstance(d, PhiDef):
            self.counts['reach_through_phi'] += 1
        if dd not in lv:
            self.bad('DefineUse', 'use_to_def', kind, 'phi-leaf' if isinstance(d, PhiDef) else 'wrong-def',
                     f'read of `{text}` observed the value assigned at {_site_text(site)} but the reported '
                     f'definition is {_def_text(f, d)}')
        return d

    # -- one execution ---------------------------------------------------
    def touch(self, v):
        """remember every list reachable from a list that an element store went through"""
        if isinstance(v, list):
            if id(v) not in self.stored:
                self.stored[id(v)] = v
                for x in v:
                    self.touch(x)
        elif isinstance(v, tuple):
            for x in v:
                self.touch(x)

    def touched(self, v) -> bool:
        if isinstance(v, list):
            return id(v) in self.stored or any(self.touched(x) for x in v)
        if isinstance(v, tuple):
            return any(self.touched(x) for x in v)
        return False

    def const_why(self, diff: str, v) -> str:
        return 'stale-after-store' if diff == 'value' and self.touched(v) else diff

    def run(self, act):
        f = self.f
        self.sizevars: dict = {}
        self.holders: dict = {}
        self.stored: dict = {}
        code = act.code
        # did this execution leave through a nested `return` (everything after it never ran)?
        self.exit = 'end'
        for ev in reversed(act.events):
            if ev[0] == 0:
                self.exit = 'early' if f.ret_depth.get(id(code.exprs[ev[1]]), 0) > 0 else 'end'
                break
        for o in replay(act):
            if o.kind == 'expr':
                e = o.node
                v, s = o.value, o.snap
                self.counts['events'] += 1
                cname = type(e).__name__
                if f.ty is not None:
                    t = f.ty.by_expr.get(e)
                    if t is not None:
                        self.counts['cmp_type'] += 1
                        if not conforms(s, t):
                            self.bad('TypeInfer', 'by_expr', cname, 'shape',
                                     f'`{e.format()}`: type {t.format()}, value {show(s)}')
                if f.az is not None:
                    b = f.az.by_expr.get(e)
                    if b is not None:
                        self.size(b, s, 'expression', cname, 'by_expr', e)
                if f.vc is not None:
                    c = f.vc.by_expr.get(e)
                    if isinstance(c, ValueClass):
                        self.counts['cmp_class'] += 1
                        if c != ValueClass.TOP:
                            self.counts['class_refined'] += 1
                        if not is_real(v):
                            self.bad('ValueClass', 'by_expr', cname, 'not-real', f'`{e.format()}`: class {c}, value {show(s)}')
                        elif not (class_of(v) & c):
                            self.bad('ValueClass', 'by_expr', cname, str(class_of(v)).split('.')[-1],
                                     f'`{e.format()}`: reported class {c}, value {show(v)} is {class_of(v)}')
                if f.pe is not None and e in f.pe.by_expr:
                    self.counts['cmp_const'] += 1
                    if not isinstance(e, A.RationalVal):
                        self.counts['const_nonliteral'] += 1
                    diff = same_const(f.pe.by_expr[e], s)
                    if diff is not None:
                        self.bad('PartialEval', 'by_expr', cname, self.const_why(diff, v),
                                 f'`{e.format()}`: reported constant {show(f.pe.by_expr[e])}, value {show(s)}')
                if isinstance(e, A.Var):
                    d = self.reaching(e, o.dyn, e.format(), 'Var')
                    if d is not None:
                        self.def_facts(d, v, s, 'read of')
            elif o.kind == 'def':
                dd = f.du.site_to_def.get((o.name, o.node))
                if dd is None:
                    self.bad('DefineUse', 'site_to_def', type(o.node).__name__, 'unknown-site',
                             f'assignment of `{o.name}` at {_site_text(o.node)} has no definition')
                else:
                    self.def_facts(dd, o.value, o.snap, 'definition of')
            elif o.kind == 'iuse':
                self.reaching(o.node, o.dyn, str(o.name), 'IndexedAssign')
                self.touch(o.value)
        # result
        if f.ty is not None:
            self.counts['cmp_type'] += 1
            if not conforms(act.result_snap, f.ty.return_type):
                self.bad('TypeInfer', 'return_type', 'return', 'shape',
                         f'return type {f.ty.return_type.format()}, value {show(act.result_snap)}')
        if f.az is not None and f.az.ret_size is not None:
            self.size(f.az.ret_size, act.result_snap, 'result', 'return', 'ret_size', 'return')
        # aliasing: defs that held one object must be may_alias
        if f.al is not None and self.holders:
            if f.alias_is_modelled(code):
                for obj, hs in self.holders.values():
                    if len(hs) < 2:
                        continue
                    ds = list(hs.items())
                    self.counts['alias_shared_objects'] += 1
                    for i in range(len(ds)):
                        for j in range(i + 1, len(ds)):
                            self.counts['cmp_alias'] += 1
                            (d1, h1), (d2, h2) = ds[i], ds[j]
                            if not (f.al.may_alias(d1, d2) and f.al.may_alias(d2, d1)):
                                k1 = 'phi' if isinstance(d1, PhiDef) else type(d1.site).__name__
                                k2 = 'phi' if isinstance(d2, PhiDef) else type(d2.site).__name__
                                self.bad('Alias', 'may_alias', '/'.join(sorted((k1, k2))), 'same-object',
                                         f'{h1} ({_def_text(f, d1)}) and {h2} ({_def_text(f, d2)}) held the same '
                                         f'list {show(obj)} but may_alias is False')
            else:
                self.counts['alias_unmodelled_program_runs'] += 1
        return self.out


class _Lazy:
    """formats an AST node on demand (str() in an f-string)"""
    __slots__ = ('node',)

    def __init__(self, node):
        self.node = node

    def __str__(self):
        return self.node.format()

    __format__ = lambda self, spec: self.node.format()      # noqa: E731


def _site_text(site) -> str:
    try:
        txt = site.format().splitlines()[0]
    except Exception:  # noqa: BLE001
        txt = type(site).__name__
    return f'{type(site).__name__} `{txt[:50]}`'


def _def_text(f: Facts, d) -> str:
    if isinstance(d, PhiDef):
        lv = sorted(_site_text(x.site) for x in f.leaves(d))
        return f'phi@{type(d.site).__name__} with leaves {lv}'
    return _site_text(d.site)


# ----------------------------------------------------------------------

class Check(BaseCheck):
    pid = 'C13'
    rule = ('all programs of grammars J (joins), P (loop-carried constants), V (value-class ladders and chains), T (lists of tuples holding lists), L (list/alias routes), Z (sizes), S (comprehension targets shadowing a visible name that is read again later in the same statement) up to the '
            'tier size x the full product of the per-family argument pools; every returning execution is traced and '
            'every expression/definition event compared with TypeInfer, ArraySizeInfer, ValueClassInfer, PartialEval, '
            'DefineUse and Alias facts. nontrivial = (program, input) whose execution returns and in which at least '
            'one judged fact was informative: a read resolved through a phi, a refined (non-TOP) value class, a '
            'non-literal constant, a concrete or symbolic list size, or one list object held by two definitions')
    assumptions = [
        'executions in which an operation has no result (the program raises) are not judged',
        'programs an analysis refuses (TypeInferError, internal assertion) contribute no facts for that analysis',
        'Alias.may_alias is demanded only for programs whose list-valued expressions are all documented routes '
        '(no call results)',
        'inputs are built at the Python boundary, so distinct parameters never share a list object',
    ]
    trusted_base = ['mc.engine.tracer (value of each expression = what the real bytecode compiler computes, wrapped)',
                    'CPython object identity for `is`']

    def __init__(self, tier, seed):
        super().__init__(tier, seed)
        self.space = pg.space(tier, seed)
        # development aid (mutation experiments): VERIF_C13_ONLY=J,V restricts the families; the run then
        # declares itself capped.  Registered commands never set it.
        self.only = [x for x in os.environ.get('VERIF_C13_ONLY', '').split(',') if x]
        if self.only:
            self.space = [(lab, fac, sl) for lab, fac, sl in self.space if lab[0] in self.only]

    def bounds(self):
        return {'families': [lab + ('' if sl is None else f' slice {sl[0]}/{sl[1]} (seed-rotated)')
                             for lab, _, sl in self.space],
                'pools': {k: {a: len(v) for a, v in p.items()} for k, p in pg.POOLS.items()}}

    def shards(self):
        return [(i, NSHARDS) for i in range(NSHARDS)]

    # -- one program -----------------------------------------------------
    def check_program(self, r: ShardResult, prog: pg.Prog, only_args=None):
        """runs every input of the program; returns list of (signature, case, detail)"""
        found = []
        r.count('programs')
        try:
            mod = load_source(prog.src)
        except Exception as e:  # noqa: BLE001 -- front end refuses the program
            r.count('rejected_by_frontend')
            r.outcomes['frontend-reject:' + type(e).__name__] += 1
            return found
        f = mod.f
        facts = Facts(f)
        for name, why in facts.rejected.items():
            r.count('analysis_rejected')
            r.outcomes[f'analysis-reject:{name}:{why}'] += 1
        if facts.du is None:
            return found
        interp = TracingInterpreter()
        interp.attach(mod)
        ins = pg.inputs(prog, self.tier) if only_args is None else [only_args]
        for args in ins:
            r.count('evaluations')
            r.count('states')
            try:
                act = interp.run(f, [_copy_arg(a) for a in args])
            except Exception as e:  # noqa: BLE001 -- could not even compile: not an execution
                r.count('compile_failed')
                r.outcomes['compile-failed:' + type(e).__name__] += 1
                continue
            if not act.all_returned():
                if isinstance(act.error, TraceOverflow):
                    r.count('too_long_not_judged')
                    r.notes.append('CAP execution cut off by the tracer event/length cap: ' + prog.src.strip().splitlines()[-2].strip())
                r.count('raised_not_judged')
                r.outcomes['raises:' + type(act.error).__name__] += 1
                continue
            counts = Counter()
            bad = Judge(facts, counts).run(act)
            r.count('transitions', sum(v for k, v in counts.items() if k.startswith('cmp_')))
            r.count('events', counts['events'])
            for k in ('cmp_type', 'cmp_size', 'cmp_class', 'cmp_const', 'cmp_reach', 'cmp_alias'):
                r.count(k, counts[k])
            if (counts['reach_through_phi'] or counts['class_refined'] or counts['const_nonliteral']
                    or counts['size_concrete'] or counts['size_symbolic'] or counts['alias_shared_objects']):
                r.count('nontrivial')
            r.outcomes['returns:' + prog.fam] += 1
            seen = set()
            for sig, detail in bad:
                k = tuple(sorted(sig.items()))
                if k in seen:
                    continue
                seen.add(k)
                sig = dict(sig, family=prog.fam)
                case = {'family': prog.fam, 'src': prog.src, 'args': [pg.enc(a) for a in args],
                        'argnames': list(prog.args), 'signature': sig}
                found.append((sig, case, f'program:\n{prog.src}\ninput {dict(zip(prog.args, map(_show_arg, args)))}\n{detail}'))
        interp.reset()
        return found

    def run_shard(self, shard) -> ShardResult:
        k, m = shard
        r = ShardResult()
        t0 = time.process_time()
        if self.only and k == 0:
            r.notes.append(f'CAP families restricted to {self.only} by VERIF_C13_ONLY')
        idx = 0
        for label, fac, sl in self.space:
            j = 0
            for prog in fac():
                j += 1
                if sl is not None and (j - 1) % sl[1] != sl[0]:
                    continue
                idx += 1
                if idx % m != k:
                    continue
                for sig, case, detail in self.check_program(r, prog):
                    r.violate(sig, case, detail)
                if idx % (m * 100) == k:
                    linecache.clearcache()
                    gc.collect()
            if k == 0:
                r.notes.append(f'family {label}: {j} programs generated' + ('' if sl is None else f', slice {sl[0]}/{sl[1]} run'))
        r.count('cpu_ms', int((time.process_time() - t0) * 1000))      # informational only
        if k == 0:
            r.sample({'program': prog.src, 'inputs': len(pg.inputs(prog, self.tier))})
        return r

    def replay(self, case):
        prog = pg.Prog(case['family'], case['src'], tuple(case['argnames']), 'replay')
        r = ShardResult()
        args = tuple(pg.dec(a) for a in case['args'])
        found = self.check_program(r, prog, only_args=args)
        want = case.get('signature')
        hits = [d for s, _, d in found if want is None or {k: str(v) for k, v in s.items()} == {k: str(v) for k, v in want.items()}]
        if hits:
            return True, '\n'.join(hits)
        other = '; '.join(str(s) for s, _, _ in found)
        return False, (f'case does not violate {want}' + (f' (other violations: {other})' if other else '')
                       + f'; outcomes {dict(r.outcomes)}')


def _copy_arg(a):
    return [_copy_arg(x) for x in a] if isinstance(a, list) else a


def _show_arg(a):
    return repr(a)
