"""
C08 -- Loop and iterator restructuring preserves results.

Space (bounded-exhaustive, nothing sampled): every program of the loop grammar
in mc/engine/progen_c08.py (families F for-loops, W while-loops, R any/all
reductions, E zip/enumerate comprehensions; bodies that accumulate into outer
variables, reassign the loop target, mutate the iterated list in place, rebind
its name, return early, nest a second loop; zip / enumerate / enumerate(zip)
with tuple, whole-tuple, discarded and nested targets; reductions whose element
can raise or has a side effect, in every syntactic position; user names that are
the generated temporaries `t n i m j _src _i acc b` and their numbered forms;
loops under narrow ambient rounding contexts)
  x every strategy instance {unroll_for(times 1-4, PEEL|STRICT), unroll_while
    (times 1-3), split(factor 1-4, the argument `k`, the free variable `KF`,
    PEEL|STRICT), elim_iter(4 switch settings), fuse} (thorough: also caller-
    chosen temporary names equal to user names)
  x site selection {None, each index, each cursor from strategies.sites}
    (quick: index/cursor only for times=2 and factor=3 -- selection does not
    depend on the count)
  x every input list length 0..9 (programs with a nested loop, whose cost is
    quadratic: 0..6 and 8), x k in 1..4 for the variable factor (quick: 1, 3).

Oracle: metamorphic.  f(args) versus T(f)(args), compared by deep same-value
(tuples/lists element-wise, booleans as booleans, numbers by value with NaN equal
to NaN and zeros by sign); judged only where the original returns.  STRICT is
judged only where its precondition holds for every loop it was applied to
(length divisible by the factor; lengths are computed exactly from the input
length because the grammar only mutates lists in place or rebinds them to lists
of the same length); otherwise `precondition_false`.  A loop whose length the
check cannot name (`range(x)`) under STRICT is `inconclusive` when it disagrees,
never a violation.  A transformed program that raises, or exceeds a CPU-time
limit (twice), where the original returns is a violation; so is a strategy that
raises instead of yielding a program (except STRICT's documented refusals).

Quick = a fixed core of the thorough space (same for every seed) + every m-th
remaining program starting at VERIF_SEED mod m.
"""

from __future__ import annotations

import os
import shutil
import signal
import time
from fractions import Fraction

from ..engine.runner import BaseCheck, ShardResult
from ..engine.loader import drop_interpreter_cache, load_source
from ..engine import progen_c08 as G

from fpy2 import strategies as S
from fpy2.number import Float, RealFloat, same_value
from fpy2.transform import ForUnrollStrategy, SplitLoopStrategy
from fpy2 import ast as A

NSHARDS = 64
TIMEOUT_S = 3.0            # CPU seconds
TIMEOUT_CONFIRM_S = 12.0
KF_VALUE = 3


# ---------------------------------------------------------------------------
# strategy instances

def strategy_instances(tier: str):
    """Every strategy instance of the tier.  `allsites`: the instance is also aimed at each index
    and each cursor (quick: times=2 and factor=3 under both remainder strategies; thorough: every PEEL
    and unroll_while instance, and STRICT with times=2, factor=3, factor=k -- site selection does not
    depend on the count / factor); otherwise where=None only."""
    inst = _instances(tier)
    for spec in inst:
        if spec['name'] in ('elim_iter', 'fuse'):
            continue
        rep = spec.get('times') == 2 or spec.get('factor') == 3
        if tier == 'quick':
            spec['allsites'] = rep
        else:
            spec['allsites'] = rep or spec.get('remainder', 'PEEL') == 'PEEL' or spec.get('factor') == 'k'
    return inst


def _instances(tier: str):
    inst = []
    for times in (1, 2, 3, 4):
        for st in ('PEEL', 'STRICT'):
            inst.append({'name': 'unroll_for', 'times': times, 'remainder': st})
    for factor in (1, 2, 3, 4, 'k', 'KF'):
        for st in ('PEEL', 'STRICT'):
            inst.append({'name': 'split', 'factor': factor, 'remainder': st})
    for times in (1, 2, 3):
        inst.append({'name': 'unroll_while', 'times': times})
    for en in (True, False):
        for zp in (True, False):
            inst.append({'name': 'elim_iter', 'enumerate': en, 'zip': zp})
    inst.append({'name': 'fuse'})
    if tier != 'quick':
        # caller-chosen temporary names that are the user's own names
        inst.append({'name': 'unroll_for', 'times': 2, 'remainder': 'PEEL', 'ids': 'user'})
        inst.append({'name': 'split', 'factor': 3, 'remainder': 'PEEL', 'ids': 'user'})
        inst.append({'name': 'split', 'factor': 'k', 'remainder': 'STRICT', 'ids': 'user'})
    return inst


def _user_ids(spec, scheme):
    if spec.get('ids') != 'user':
        return {}
    n = G.SCHEMES[scheme]
    if spec['name'] == 'unroll_for':
        return {'temp_id': n['A'], 'len_id': n['C'], 'idx_id': n['X']}
    return {'temp_id': n['A'], 'outer_id': n['X'], 'inner_id': n['W']}


def _kwargs(spec, scheme):
    name = spec['name']
    if name == 'unroll_for':
        return S.unroll_for, {'times': spec['times'], 'strategy': ForUnrollStrategy[spec['remainder']]}, \
            {'times': spec['times'], 'strategy': ForUnrollStrategy[spec['remainder']]}
    if name == 'split':
        f = spec['factor']
        fe = A.Integer(f, None) if isinstance(f, int) else A.Var(A.NamedId(f), None)
        return S.split, {'factor': f, 'strategy': SplitLoopStrategy[spec['remainder']]}, \
            {'factor': fe, 'strategy': SplitLoopStrategy[spec['remainder']]}
    if name == 'unroll_while':
        return S.unroll_while, {'times': spec['times']}, {}
    raise ValueError(name)


def list_sites(f, spec):
    """Cursors of the sites of a `where`-taking strategy instance."""
    fn, _, skw = _kwargs(spec, 'plain')
    return S.sites(fn, f, **skw)


def apply_strategy(f, spec, where, scheme):
    """where: ['none'] | ['index', i] | ['cursor', i].  Returns (transformed, selected cursors or None)."""
    name = spec['name']
    if name == 'elim_iter':
        return S.elim_iter(f, enable_enumerate=spec['enumerate'], enable_zip=spec['zip']), None
    if name == 'fuse':
        return S.fuse(f), None
    fn, kw, skw = _kwargs(spec, scheme)
    sites = S.sites(fn, f, **skw)
    if where[0] == 'none':
        w, selected = None, sites
    elif where[0] == 'index':
        w, selected = where[1], [sites[where[1]]]
    else:
        w = sites[where[1]]
        selected = S.sites(fn, f, within=w, **skw)
    kw = dict(kw)
    kw.update(_user_ids(spec, scheme))
    if name == 'split':
        factor = kw.pop('factor')
        return S.split(f, factor, w, **kw), selected
    return fn(f, w, **kw), selected


# ---------------------------------------------------------------------------
# exact lengths of loop iterables (the STRICT precondition)

def iter_len(e, env):
    """Length of the iterable expression `e` given the lengths of the named
    lists, or None when the grammar does not determine it."""
    if isinstance(e, A.Var):
        return env.get(str(e.name))
    if isinstance(e, A.ListExpr):
        return len(e.elts)
    if isinstance(e, A.Zip):
        ls = [iter_len(a, env) for a in e.args]
        return None if (not ls or any(x is None for x in ls)) else min(ls)
    if isinstance(e, A.Enumerate):
        return iter_len(e.arg, env)
    if isinstance(e, A.Range1):
        a = e.arg
        if isinstance(a, A.Len):
            return iter_len(a.arg, env)
        if isinstance(a, A.Integer):
            return max(0, a.val)
        if isinstance(a, A.Add) and isinstance(a.first, A.Var) and isinstance(a.second, A.Integer):
            n = env.get(str(a.first.name))        # `range(k + 3)` at function level: k as passed in
            return None if n is None else max(0, n + a.second.val)
        return None
    if isinstance(e, A.ListComp) and len(e.iterables) == 1:
        return iter_len(e.iterables[0], env)
    return None


def static_lists(f):
    """Names bound once, at function level, to a list literal."""
    out = {}
    for s in f.ast.body.stmts:
        if isinstance(s, A.Assign) and isinstance(s.target, A.NamedId) and isinstance(s.expr, A.ListExpr):
            out[str(s.target)] = len(s.expr.elts)
    return out


# ---------------------------------------------------------------------------
# running and comparing

class _Timeout(BaseException):
    pass


def _on_alarm(signum, frame):
    raise _Timeout()


def run(fn, xs, ys, k, limit=TIMEOUT_S):
    """('ret', value) | ('exc', type name, text) | ('timeout',) -- on fresh lists."""
    # the limit is CPU time of this process (ITIMER_PROF), so machine load cannot trip it
    signal.signal(signal.SIGPROF, _on_alarm)
    a, b = list(xs), list(ys)
    # programs over lists of tuples take qs, ps, rs, derived from xs, ys
    extra = G.tuple_args(xs, ys) if len(fn.ast.args) == 6 else ()
    try:
        signal.setitimer(signal.ITIMER_PROF, limit)
        try:
            v = fn(a, b, k, *extra)
        finally:
            signal.setitimer(signal.ITIMER_PROF, 0)
    except _Timeout:
        return ('timeout',)
    except RecursionError as e:
        return ('exc', 'RecursionError', '')
    except Exception as e:     # noqa: BLE001 -- any failure of the program is an outcome
        return ('exc', type(e).__name__, str(e)[:120])
    return ('ret', v)


def run_confirmed(fn, xs, ys, k):
    """`run`, where a time-limit outcome is believed only if it repeats under the longer limit
    (a stray expiry of the first limit has been seen on a loaded machine)."""
    t = run(fn, xs, ys, k)
    if t[0] == 'timeout':
        t = run(fn, xs, ys, k, TIMEOUT_CONFIRM_S)
    return t


def _num(v):
    if isinstance(v, Float):
        if v.isnan:
            return 'nan'
        if v.isinf:
            return '-inf' if v.s else 'inf'
        return Fraction(v.as_rational())
    if isinstance(v, RealFloat):
        return Fraction(v.as_rational())
    if isinstance(v, float):
        if v != v:
            return 'nan'
        if v in (float('inf'), float('-inf')):
            return 'inf' if v > 0 else '-inf'
        return Fraction(v)
    return Fraction(v)


def deep_same(a, b) -> bool:
    if isinstance(a, (tuple, list)) or isinstance(b, (tuple, list)):
        return (type(a) is type(b)) and len(a) == len(b) and all(deep_same(x, y) for x, y in zip(a, b))
    if isinstance(a, bool) or isinstance(b, bool):
        return isinstance(a, bool) and isinstance(b, bool) and a == b
    if isinstance(a, Float) and isinstance(b, Float):
        return same_value(a, b)
    try:
        return _num(a) == _num(b)
    except Exception:      # noqa: BLE001 -- a value of a kind the grammar cannot produce
        return a == b


def show(v) -> str:
    if isinstance(v, tuple):
        return '(' + ', '.join(show(x) for x in v) + ')'
    if isinstance(v, list):
        return '[' + ', '.join(show(x) for x in v) + ']'
    if isinstance(v, Float):
        if v.isnan or v.isinf:
            return str(v)
        q = Fraction(v.as_rational())
        s = '-' if (v.s and q == 0) else ''
        return s + (str(q.numerator) if q.denominator == 1 else str(q))
    return repr(v)


def show_outcome(o) -> str:
    if o[0] == 'ret':
        return 'returns ' + show(o[1])
    if o[0] == 'exc':
        return f'raises {o[1]}({o[2]})'
    return 'does not terminate (time limit)'


# where a reduction sits decides when (and how often) the original evaluates it
POSITION_CLASS = {
    'and-rhs': 'short-circuit-operand', 'or-rhs': 'short-circuit-operand',
    'ifexp-then': 'ifexp-branch', 'ifexp-else': 'ifexp-branch',
    'while-cond': 'while-cond',
    'while-body': 'loop-body', 'for-body': 'loop-body', 'if-body': 'if-body',
    'comp-elt': 'in-comprehension', 'comp-iter': 'in-comprehension',
}


def signature_base(spec, tags):
    """The class of a failure: which rewrite, on what kind of loop, with which of the hazards the
    property names (in-place mutation of a source, numbered user names, a narrow ambient context,
    where a reduction sits, what its element does)."""
    fam = tags.get('family', '-')
    pos = tags.get('position', '-')
    return {'strategy': spec['name'], 'remainder': spec.get('remainder', '-'),
            'iter': tags.get('iter', '-'), 'site': tags.get('site', '-'),
            'mut': tags.get('mut', '-'),
            'position': POSITION_CLASS.get(pos, 'unconditional') if fam == 'R' else '-',
            'elt': tags.get('elt', '-'),
            'names': 'numbered' if tags.get('scheme') == 'num' else 'plain',
            'ctx': 'ambient' if tags.get('ctx', 'ambient') == 'ambient' else 'narrow'}


# ---------------------------------------------------------------------------

class Check(BaseCheck):
    pid = 'C08'
    max_tasks_per_worker = 1        # see runner: bounds what gmpy2's per-call Token leak can accumulate
    rule = ('every program of the loop grammar (progen_c08: families F W R E; all statement sequences up to the '
            'tier bound x headers x naming schemes x ambient contexts) x every strategy instance x every site '
            'selection (None, each index, each cursor) x every input length 0..9 (x k=1..4 for a variable factor). '
            'evaluations = judged cases (run, or equal by textual identity with the original / with an already '
            'judged transformed program); transitions = transformed programs actually run and compared; '
            'nontrivial = a DISTINCT (program, transformed text, input) that was run, whose transformed text differs '
            'from the original, on a non-empty input on which the original returns and the precondition holds')
    assumptions = [
        'metamorphic: only inputs on which the original returns are judged',
        'STRICT judged only where every rewritten loop has a length divisible by the factor (exact lengths)',
        'zip sources have equal length (mismatched zip is documented undefined behaviour)',
        'a CPU-time limit (3 s, confirmed at 12 s; a judged call needs < 0.05 s) stands for non-termination of the transformed program',
        'variable split factors are >= 1 (the documented runtime assertion otherwise)',
    ]
    trusted_base = ['fpy2 front end and interpreter (both sides of the comparison run on them)',
                    'fpy2.number.same_value']

    def __init__(self, tier, seed):
        super().__init__(tier, seed)
        self._progs = None
        self.instances = strategy_instances(tier)
        self.inputs_flat = G.inputs(tier, False)
        self.inputs_nested = G.inputs(tier, True)
        self.inputs = self.inputs_flat
        self.kvalues = (1, 3) if tier == 'quick' else (1, 2, 3, 4)

    def programs(self):
        if self._progs is None:
            core, extra = G.all_programs(self.tier, self.seed)
            self._progs = core + extra
            self._ncore = len(core)
        return self._progs

    def bounds(self):
        ps = self.programs()
        fam = {}
        for p in ps:
            fam[p.family] = fam.get(p.family, 0) + 1
        return {'programs': len(ps), 'core_programs': self._ncore, 'seed_slice_programs': len(ps) - self._ncore,
                'programs_by_family': fam, 'strategy_instances': len(self.instances),
                'lengths': '0..9 (programs with a nested loop: 0..6, 8)',
                'value_patterns': 1 if self.tier == 'quick' else 2,
                'site_selection': 'None, each index, each cursor' + (
                    ' (index/cursor for times=2 and factor=3 only)' if self.tier == 'quick' else
                    ' (index/cursor for every PEEL / unroll_while instance and STRICT times=2, factor=3, k)'),
                'variable_factor_values': list(self.kvalues), 'unroll_for_times': '1..4', 'unroll_while_times': '1..3',
                'split_factors': '1..4, k, KF', 'body_sequence_length':
                    '1 (whole pool), 2 (core pool, headers xs zip enum enumzip)' if self.tier == 'quick' else
                    '1 (whole pool, every header), 2 (core pool, every header; whole pool for xs enumzip loc5), '
                    '3 (core pool, at most one nested loop, headers xs enumzip)'}

    def shards(self):
        return [(i, NSHARDS) for i in range(NSHARDS)]

    # ---- one (program, strategy instance, where) ----------------------
    def judge(self, r: ShardResult, prog_src: str, tags: dict, f, orig_text: str, originals: dict,
              spec: dict, where: list, seen_texts: dict, only_input=None):
        """Transforms and runs.  `originals` caches the original's outcome per input."""
        scheme = tags.get('scheme', 'plain')
        sigbase = signature_base(spec, tags)
        case = {'src': prog_src, 'tags': tags, 'spec': spec, 'where': where}
        r.count('transforms')
        try:
            g, selected = apply_strategy(f, spec, where, scheme)
            text = g.format()
        except Exception as e:      # noqa: BLE001
            # STRICT over a provably indivisible static length is documented to refuse
            if spec.get('remainder') == 'STRICT' and isinstance(e, (ValueError, S.TransformDeclined,
                                                                  S.TransformReferenceError)):
                r.count('precondition_false')
                r.outcomes['strict-refused-at-transform'] += 1
                return
            r.violate(dict(sigbase, kind='transform-error:' + type(e).__name__),
                      dict(case, xs=[], ys=[], k=2),
                      f'{spec} where={where} raised {type(e).__name__}: {str(e)[:300]}\n--- program\n{prog_src}')
            return
        if text == orig_text:
            # nothing to rewrite at this site selection: equal on every input by identity
            r.outcomes['transform-left-program-unchanged'] += 1
            n = len(self.inputs) if only_input is None else 1
            r.count('states', n)
            r.count('evaluations', n)
            r.count('judged_by_identity', n)
            return
        if text in seen_texts and only_input is None:
            # another site selection gave this very program: already judged on every input
            r.count('states', seen_texts[text])
            r.count('evaluations', seen_texts[text])
            r.count('judged_by_identity', seen_texts[text])
            r.count('same_text_as_judged')
            return

        # lengths of the loops STRICT was applied to
        strict = spec.get('remainder') == 'STRICT'
        factor = None
        if strict:
            factor = spec['times'] + 1 if spec['name'] == 'unroll_for' else spec['factor']
        statics = static_lists(f) if strict else {}
        first_site = [str(c) for c in list_sites(f, spec)[:1]] if strict and factor == 'k' else []

        ks = self.kvalues if spec.get('factor') == 'k' else (2,)
        nstates = 0
        timed_out = False
        for (xs, ys) in (self.inputs if only_input is None else [only_input[:2]]):
            for k in (ks if only_input is None else (only_input[2],)):
                nstates += 1
                # most originals do not read k: one run per (xs, ys); those that do, one per k
                usesk = tags.get('usesk') == 'y'
                okey0 = (tuple(xs), tuple(ys), k if usesk else 2)
                if okey0 not in originals:
                    originals[okey0] = run_confirmed(f, xs, ys, k if usesk else 2)
                o = originals[okey0]
                if o[0] == 'timeout':
                    # the grammar makes every original terminate; if one does not, the generator is wrong
                    raise RuntimeError('generated program does not terminate on '
                                       f'xs={list(xs)} ys={list(ys)}:\n{prog_src}')
                if o[0] != 'ret':
                    r.count('original_raises')
                    r.outcomes['original ' + (o[1] if o[0] == 'exc' else 'timeout')] += 1
                    continue
                unknown_len = False
                if strict:
                    q = k if factor == 'k' else (KF_VALUE if factor == 'KF' else factor)
                    env = dict(statics, xs=len(xs), ys=len(ys))
                    if tags.get('ctx', 'ambient') == 'ambient':
                        env['k'] = k          # `range(k + 3)`: exact only where `k + 3` is not rounded
                    lens = [iter_len(c.resolve().iterable, env) for c in selected]
                    if any(n is not None and n % q != 0 for n in lens):
                        r.count('precondition_false')
                        continue
                    unknown_len = any(n is None for n in lens)
                    if factor == 'k' and 'write-factor' in tags.get('features', '') and \
                            [str(c) for c in selected] != first_site:
                        # the body reassigns k: only the outermost first loop snapshots the k passed in
                        unknown_len = True
                if timed_out:
                    continue
                t = run_confirmed(g, xs, ys, k)
                timed_out = t[0] == 'timeout'
                r.count('evaluations')
                r.count('transitions')
                if len(xs) > 0:
                    r.count('nontrivial')
                if t[0] == 'ret' and deep_same(o[1], t[1]):
                    r.outcomes[f"{spec['name']}:agree"] += 1
                    continue
                if unknown_len:
                    r.count('inconclusive')
                    r.outcomes['strict-over-data-dependent-length'] += 1
                    continue
                kind = 'value' if t[0] == 'ret' else ('raises:' + t[1] if t[0] == 'exc' else 'timeout')
                r.outcomes[f"{spec['name']}:{kind}"] += 1
                r.violate(dict(sigbase, kind=kind),
                          dict(case, xs=list(xs), ys=list(ys), k=k),
                          f"{_spec_text(spec)} where={where} on xs={list(xs)} ys={list(ys)} k={k}\n"
                          f"original    {show_outcome(o)}\ntransformed {show_outcome(t)}\n"
                          f"--- original\n{prog_src}--- transformed\n{text}")
        seen_texts[text] = nstates
        r.count('states', nstates)

    # ---- one program --------------------------------------------------
    def check_program(self, r: ShardResult, p: G.Prog):
        drop_interpreter_cache()     # else every transformed program of the shard stays alive (GBs in thorough)
        try:
            mod = load_source(p.src)
            f = mod.f
            orig_text = f.format()
        except Exception as e:      # noqa: BLE001
            r.count('rejected_by_frontend')
            r.notes.append(f'front end rejected a generated program ({type(e).__name__}): {p.tags}')
            return
        r.count('programs')
        self.inputs = self.inputs_nested if 'nested' in p.tags.get('features', '') else self.inputs_flat
        originals = {}
        seen = {}
        for spec in self.instances:
            name = spec['name']
            if name in ('elim_iter', 'fuse'):
                wheres = [['none']]
            else:
                try:
                    n = len(list_sites(f, spec))
                except Exception as e:      # noqa: BLE001
                    r.violate({'strategy': name, 'kind': 'sites-error:' + type(e).__name__},
                              {'src': p.src, 'tags': p.tags, 'spec': spec, 'where': ['none'], 'xs': [], 'ys': [],
                               'k': 2}, f'sites({name}) raised {e!r}\n{p.src}')
                    continue
                if n == 0:
                    r.outcomes[f'{name}:no-site'] += 1
                    continue
                wheres = [['none']]
                if spec.get('allsites'):
                    wheres += [['index', i] for i in range(n)] + [['cursor', i] for i in range(n)]
            for where in wheres:
                self.judge(r, p.src, p.tags, f, orig_text, originals, spec, where, seen)
        if len(r.samples) < 2 and seen:
            r.sample({'program': p.src, 'tags': p.tags, 'distinct_transformed_programs': len(seen)})

    def run_shard(self, shard) -> ShardResult:
        i, m = shard
        r = ShardResult()
        t0 = time.process_time()
        for j, p in enumerate(self.programs()):
            if j % m == i:
                self.check_program(r, p)
        r.count('cpu_ms', int(1000 * (time.process_time() - t0)))     # informational only
        _drop_scratch()
        return r

    def selfcheck(self):
        # the comparison must tell apart what it has to tell apart
        F = Float
        assert deep_same((F(False, 0, 3), [F(False, -1, 6)], True), (F(False, -2, 12), [F(False, 0, 3)], True))
        assert not deep_same((F(False, 0, 3),), (F(False, 0, 4),))
        assert not deep_same(True, F(False, 0, 1))
        assert not deep_same([F(False, 0, 1)], (F(False, 0, 1),))
        assert not deep_same(F(False, 0, 0), F(True, 0, 0))
        assert not deep_same((1, 2), (1, 2, 3))
        # the oracle must see a wrong rewrite: a hand-made "unrolled" loop that drops the remainder
        good = load_source(G.all_programs('quick', 0)[0][0].src).f
        bad = load_source('KF = 3\n@fp.fpy\n' + G.SIG + '\n    t = KF - 3\n    n = 1\n'
                          '    for i in range(0, len(xs) - 1, 2):\n        t = 2 * t + xs[i]\n'
                          '        t = 2 * t + xs[i + 1]\n    return (t, n, xs, ys)\n').f
        xs, ys = G.PI[:5], G.E_[:5]
        a, b = run(good, xs, ys, 2), run(bad, xs, ys, 2)
        assert a[0] == 'ret' and b[0] == 'ret' and not deep_same(a[1], b[1]), (a, b)
        xs, ys = G.PI[:4], G.E_[:4]
        a, b = run(good, xs, ys, 2), run(bad, xs, ys, 2)
        assert deep_same(a[1], b[1])
        # the time limit must fire
        spin = load_source('@fp.fpy\n' + G.SIG + '\n    q = 0\n    while q < 1:\n        k = k + 1\n    return q\n').f
        assert run(spin, [], [], 1, 0.3) == ('timeout',)

    def replay(self, case):
        r = ShardResult()
        mod = load_source(case['src'])
        f = mod.f
        self.judge(r, case['src'], case.get('tags', {}), f, f.format(), {}, case['spec'], case['where'], {},
                   only_input=(case['xs'], case['ys'], case['k']))
        if r.violations:
            return True, '\n'.join(v.detail for v in r.violations)
        return False, (f"{_spec_text(case['spec'])} where={case['where']} on xs={case['xs']} ys={case['ys']} "
                       f"k={case['k']}: transformed program agrees with the original "
                       f"(counters {dict(r.counts)})")


def _drop_scratch():
    """Pool workers are terminated without running `atexit`, so the loader's per-process scratch
    directory is removed here, after each shard (the loader makes a new one on demand)."""
    from ..engine import loader
    d = loader._DIR
    if d and loader._PID == os.getpid():
        shutil.rmtree(d, ignore_errors=True)


def _spec_text(spec):
    name = spec['name']
    if name == 'unroll_for':
        return f"unroll_for(times={spec['times']}, strategy={spec['remainder']}" + \
            (', user temp ids' if spec.get('ids') else '') + ')'
    if name == 'split':
        return f"split(factor={spec['factor']!r}, strategy={spec['remainder']}" + \
            (', user temp ids' if spec.get('ids') else '') + ')'
    if name == 'unroll_while':
        return f"unroll_while(times={spec['times']})"
    if name == 'elim_iter':
        return f"elim_iter(enable_enumerate={spec['enumerate']}, enable_zip={spec['zip']})"
    return 'fuse()'
