"""
C03 — Elementary functions and constants are correctly rounded.

Space
  functions: every elementary / special function offered by fpy2/ops.py (24 unary, atan2, pow)
    x operands = the COMPLETE value set of a p=3 float over exponents [-4, 6] (both signs, both
      zeros) intersected with the domain, plus structured hard points: +-2^k (tiny and huge),
      +-(1 +- 2^-k), the integers 1..30 (Gamma, lgamma, exp2, exp10), half-integers, exact
      powers for log2/log10/pow; for atan2 / pow all ordered pairs of the p=3 set plus
      structured pairs (perfect powers, negative bases with integer exponents, near-axis points)
    x contexts  MPFloat p in 1..12, 24, 53, 64, 113, 237
              | MPSFloat / IEEE small (subnormals, overflow), binary16/32/64 (thorough)
              | MPFixed nmin in -10, -1, 3      (the two-pass precision branch of mpfr_call)
              | stochastic contexts with k = 1, 3 random bits, ALL 2^k draws (round_params widened);
                bounded float families (IEEE small, binary16/32, EFloat, MPBFloat) with k = 1, 3, 4
    x 8 rounding modes;
  constants: the 12 named constants of fpy2.ops x EVERY precision 1..512 (both tiers) x 8 modes
    under MPFloat, MPFixed for every nmin in -200..-1 and 0, 1, 2, 3, 5, a few MPSFloat / IEEE
    formats, and stochastic MPFloat p = 1..16 (quick 1..8), k = 1, 3, all draws.

  histories: ordered sequences of (constant or function point, context, mode) evaluated in ONE
    pristine process (fresh interpreter + one fork per history), contexts mixing MPFixed nmin in
    -1, -3, -12, -40, MPFloat p = 3, 53, IEEE(3,6), Fixed(signed,-4,8), SMFixed(-2,6): for every
    context c, every subject under c first and under every other context later; thorough also
    every ordered pair (c1, c2) as the first two contexts; every step is judged by the same
    history-independent oracle.

Oracle
  mc.model.enclose: the true result is classified from mathematics first (undefined / pole /
  exactly known rational / irrational / not known to be rational); a rational result goes
  through the shared rounding oracle mc.model.rounding.round_model as it is; otherwise
  `round_real` obtains floor(log2|x|) and floor(|x| / 2^(k-1)) from MPFR enclosures (rounding
  DOWN / UP, precision doubled until decided, cap 8192 bits), which fixes (kept digits, half
  bit, sticky = 1), and the rounding is round_model of a rational with the same three: a
  single rounding of the true value.  The inexact flag must be false exactly when the true
  result is a member of the format.  Undecided at the cap = "inconclusive": counted, noted,
  never a violation.  Operands outside the domain (and poles) are counted, not judged.
"""

from __future__ import annotations

from fractions import Fraction

from ..engine.runner import BaseCheck, ShardResult
from ..engine.adapt import to_x
from ..model.xreal import X
from ..model import rounding as R
from ..model import enclose as E
from .c01 import Config, rf, MODES
from .c17 import ScriptedRandom

import fpy2 as fp
from fpy2.number import Float, IEEEContext, RM, OV

Q = Fraction
TWO = Fraction(2)

UNARY = list(E.UNARY)
BINARY = list(E.BINARY)
CONSTANTS = list(E.CONSTANTS)
# constants that are quotients of another constant (1/ln 2, 1/ln 10, pi/2, pi/4, 1/pi, 2/pi, 2/sqrt pi)
DERIVED = ('const_log2e', 'const_log10e', 'const_pi_2', 'const_pi_4', 'const_1_pi', 'const_2_pi', 'const_2_sqrt_pi')


# ---------------------------------------------------------------------------
# the oracle: rounding a real number known through enclosures

class RatRef:
    """a rational presented through the same three queries as an Enclosed value (used by the
    self-test to show that `round_real` mirrors `round_model`)"""

    is_exact = False

    def __init__(self, q):
        self.q = Fraction(q)

    def sign(self):
        return (self.q > 0) - (self.q < 0)

    def ilog2(self):
        return R.ilog2(self.q)

    def scaled_floor(self, k):
        return R.scaled_floor(self.q, k)


def locate(spec: R.Spec, x, extra: int = 0):
    """(s, N) with N = floor(|x| / 2^(k-1-extra)), k the exponent of the format's quantum at x;
    None when an enclosure query is inconclusive.  Only sign, floor(log2|x|) and scaled_floor
    are asked of x.  Requires that x is not known to be rational."""
    sg = x.sign()
    if sg is None or sg == 0:
        return None
    e = x.ilog2()
    if e is None:
        return None
    k = spec.quantum_exp(e, None)
    sf = x.scaled_floor(k - 1 - extra)
    if sf is None:
        return None
    N, exact = sf
    if exact:
        return None                       # on a breakpoint: only a known rational may say so
    return sg < 0, k, N


def surrogate(spec: R.Spec, s: bool, k: int, N: int) -> Fraction:
    """a rational strictly inside the cell (N, N+1) * 2^(k-1): same kept digits, same half bit,
    sticky set -- so round_model treats it exactly as it would the real number"""
    q = (2 * N + 1) * TWO ** (k - 2)
    lo, hi, kept, half, sticky = R.neighbours(spec, q, None)
    assert (kept, half, sticky) == (N >> 1, N & 1, True), (spec, q, N, kept, half, sticky)
    return -q if s else q


def round_real(spec: R.Spec, x, mode: str, ovf: str):
    """admissible outcomes [(value | 'ERR', inexact, overflow)] of rounding the real x once, or
    None when inconclusive."""
    if x.is_exact:
        return round_exact(spec, x.value, mode, ovf)
    loc = locate(spec, x)
    if loc is None:
        return None
    return R.round_model(spec, X.fin(surrogate(spec, *loc)), mode, ovf)


def round_exact(spec, q: Fraction, mode, ovf):
    if q == 0:
        # the true result is the real number 0: either zero the format has is admissible
        outs = R.round_model(spec, X.zero(False), mode, ovf)
        if spec.has_negzero:
            outs = outs + R.round_model(spec, X.zero(True), mode, ovf)
        return outs
    return R.round_model(spec, X.fin(q), mode, ovf)


# ---------------------------------------------------------------------------
# contexts

IEEE_STD = {'binary16': (5, 16), 'binary32': (8, 32), 'binary64': (11, 64)}


def build(family: str, params: dict, mode: str, ovf: str, k: int = 0, rng=None):
    if family == 'IEEEstd':
        es, nbits = IEEE_STD[params['name']]
        p = nbits - es
        emax = (1 << (es - 1)) - 1
        emin = 1 - emax
        mx = (2 - TWO ** (1 - p)) * TWO ** emax
        ctx = IEEEContext(es, nbits, RM[mode], OV[ovf], k, rng=rng)
        return ctx, R.Spec('float', p=p, emin=emin, maxpos=mx, maxneg=-mx)
    return Config(family, params).build(mode, ovf, k, rng)


def cfg_text(family, params):
    return f'{family}({", ".join(f"{a}={b}" for a, b in params.items())})'


def function_contexts(tier: str, seed: int):
    """[(family, params, overflow modes)]"""
    core = [('MPFloat', {'p': p}, ['OVERFLOW']) for p in list(range(1, 13)) + [53]]
    core += [('MPSFloat', {'p': 3, 'emin': -3}, ['OVERFLOW']), ('MPSFloat', {'p': 5, 'emin': 0}, ['OVERFLOW']),
             ('IEEE', {'es': 3, 'nbits': 6}, ['OVERFLOW']), ('IEEE', {'es': 4, 'nbits': 8}, ['OVERFLOW', 'SATURATE'])]
    core += [('MPFixed', {'nmin': n}, ['OVERFLOW']) for n in (-10, -1, 3)]
    extra = [('MPFloat', {'p': p}, ['OVERFLOW']) for p in (24, 64, 113, 237)]
    extra += [('MPSFloat', {'p': 1, 'emin': 2}, ['OVERFLOW']), ('MPSFloat', {'p': 8, 'emin': -20}, ['OVERFLOW']),
              ('IEEE', {'es': 2, 'nbits': 5}, ['OVERFLOW', 'SATURATE']),
              ('IEEE', {'es': 5, 'nbits': 8}, ['OVERFLOW']),
              ('IEEEstd', {'name': 'binary16'}, ['OVERFLOW', 'SATURATE']),
              ('IEEEstd', {'name': 'binary32'}, ['OVERFLOW']), ('IEEEstd', {'name': 'binary64'}, ['OVERFLOW']),
              ('MPFixed', {'nmin': -40}, ['OVERFLOW']), ('MPFixed', {'nmin': 0}, ['OVERFLOW'])]
    if tier == 'quick':
        return core + [extra[seed % len(extra)]]
    return core + extra


# stochastic variants of the BOUNDED float families (IEEE / EFloat delegate to MPBFloat)
BOUNDED_CTX = [('IEEE', {'es': 4, 'nbits': 8}), ('IEEEstd', {'name': 'binary32'}),
               ('EFloat', {'es': 4, 'nbits': 8, 'inf': True, 'nan_kind': 'IEEE_754', 'eoffset': 0}),
               ('EFloat', {'es': 3, 'nbits': 8, 'inf': False, 'nan_kind': 'NEG_ZERO', 'eoffset': 0}),
               ('MPBFloat', {'p': 5, 'emin': -4, 'maxval': Q(124)}), ('IEEEstd', {'name': 'binary16'})]
BOUNDED_FUN = ('exp', 'log', 'sin', 'atan', 'tgamma')
BOUNDED_ARGS = (Q(1), Q(2), Q(3, 4), Q(5, 4), Q(3), Q(7, 8))
BOUNDED_CONST = ('const_pi', 'const_e', 'const_ln2', 'const_1_pi')


def stochastic_contexts(tier: str):
    out = [('MPFloat', {'p': 2}), ('MPFixed', {'nmin': -3})]
    if tier != 'quick':
        out += [('MPFloat', {'p': 5}), ('MPFloat', {'p': 1}), ('MPSFloat', {'p': 3, 'emin': -2}),
                ('MPFixed', {'nmin': 1})]
    return out


# ---------------------------------------------------------------------------
# operands

def p3_magnitudes(exps=range(-4, 7)):
    return [Q(c) * TWO ** (e - 2) for e in exps for c in (4, 5, 6, 7)]


K_TINY = [-5, -6, -7, -8, -9, -10, -11, -12, -16, -20, -26, -30, -40, -52, -60, -100]
K_HUGE = [7, 8, 9, 10, 11, 12, 16, 20, 30, 40, 64, 100, 1000]
K_ONE = [1, 2, 3, 4, 5, 6, 7, 8, 9, 10, 11, 12, 16, 20, 30, 40, 52, 60, 100]
# functions whose value has ~|x| (or more) digits before the point, or approaches a rational limit
# to within 2^-|x| (erf, erfc, tanh): operands are capped so that exact results and enclosures stay
# within a few thousand bits (the cap covers the whole p=3 operand set, whose largest value is 112)
LIMIT = {'exp': 2 ** 10, 'exp2': 2 ** 12, 'exp10': 2 ** 10, 'expm1': 2 ** 10, 'sinh': 2 ** 10, 'cosh': 2 ** 10,
         'tgamma': 2 ** 10, 'erfc': 2 ** 7, 'erf': 2 ** 7, 'tanh': 2 ** 12, 'lgamma': 2 ** 64}


def unary_operands(fname: str, tier: str):
    """[(Fraction, form)]; form 'Float' or '-0'"""
    quick = tier == 'quick'
    pts: list[Fraction] = [Q(0)]
    for m in p3_magnitudes():
        pts += [m, -m]
    tiny = K_TINY[::2] if quick else K_TINY
    huge = K_HUGE[::3] if quick else K_HUGE
    one = K_ONE[::3] if quick else K_ONE
    for k in tiny + huge:
        pts += [TWO ** k, -TWO ** k]
    for k in one:
        for b in (1 + TWO ** -k, 1 - TWO ** -k):
            pts += [b, -b]
    ints = list(range(1, 31)) + [50, 100, 171, 172, 1000]
    if quick:
        ints = ints[::2] + [2, 10]
    for n in ints:
        pts += [Q(n), -Q(n)]
    for h in (Q(1, 2), Q(3, 2), Q(5, 2), Q(21, 2), Q(201, 2)):
        pts += [h, -h]
    lim = LIMIT.get(fname)
    seen, out = set(), []
    for q in pts:
        if q in seen or (lim is not None and abs(q) > lim):
            continue
        seen.add(q)
        out.append((q, 'Float'))
    out.append((Q(0), '-0'))
    return out


def binary_operands(fname: str, tier: str):
    """[((a, b), form)]"""
    quick = tier == 'quick'
    mags = p3_magnitudes((-3, 0, 1, 3) if quick else range(-4, 7))
    vals = [Q(0)] + [v for m in mags for v in (m, -m)]
    pairs = [(a, b) for a in vals for b in vals]
    if fname == 'pow':
        xs = [Q(2), Q(4), Q(9), Q(16), Q(25), Q(27), Q(81), Q(1, 4), Q(9, 4), Q(1, 16), Q(10), Q(3), Q(1, 64),
              1 + TWO ** -10, 1 - TWO ** -10, 1 + TWO ** -30, Q(1), Q(0)]
        ys = [Q(1, 2), Q(1, 4), Q(3, 2), Q(-1, 2), Q(2), Q(3), Q(-2), Q(10), Q(1, 8), Q(3, 4), Q(100), Q(-100),
              TWO ** -10, TWO ** 20, Q(-3, 2), Q(1), Q(0), TWO ** -40]
        extra = [(x, y) for x in xs for y in ys if not (abs(y) >= 2 ** 20 and abs(x - 1) > Q(1, 512))]
        extra += [(x, Q(n)) for x in (Q(-2), Q(-3), Q(-3, 2), Q(-1, 2), Q(-1), Q(-10))
                  for n in (-3, -2, -1, 0, 1, 2, 3, 4, 5, 10, 11)]
        extra += [(Q(-2), Q(1, 2)), (Q(-8), Q(3, 2))]
    else:
        ks = [5, 10, 20, 40, 100]
        extra = []
        for k in ks:
            t = TWO ** -k
            for a, b in ((t, Q(1)), (Q(1), t), (TWO ** k, Q(1)), (Q(1), TWO ** k), (1 + t, Q(1)), (Q(1), 1 + t)):
                extra += [(a, b), (-a, b), (a, -b), (-a, -b)]
        extra += [(Q(1), Q(1)), (Q(-1), Q(-1)), (Q(3), Q(4)), (Q(0), Q(0))]
    if quick:
        extra = extra[::2]
    seen, out = set(), []
    for pr in pairs + extra:
        if pr in seen:
            continue
        seen.add(pr)
        out.append((pr, 'Float'))
    return out


def as_float(q: Fraction, form: str = 'Float'):
    if q == 0:
        return Float(s=(form == '-0'), c=0, exp=0)
    return Float(x=rf(q))


# ---------------------------------------------------------------------------

def _arm(outs) -> str:
    if any(o[0] == 'ERR' or o[2] for o in outs):
        return 'overflow'
    if any(o[0] != 'ERR' and o[0].iszero and o[1] is False for o in outs):
        return 'zero'
    if any(o[1] for o in outs):
        return 'inexact'
    return 'exact'


def _fi(n: int) -> str:
    """decimal when short, hex otherwise (str(int) refuses more than 4300 digits)"""
    return str(n) if n.bit_length() < 200 else hex(n)


def fx(v) -> str:
    """compact text of an X (or 'ERR'): dyadic values as m*2^e"""
    if v == 'ERR' or not v.isfin or v.q == 0:
        return str(v)
    n, d = v.q.numerator, v.q.denominator
    if d & (d - 1) == 0 and (d.bit_length() > 20 or abs(n).bit_length() > 60):
        tz = (abs(n) & -abs(n)).bit_length() - 1
        return f'{_fi(n >> tz)}*2^{tz - (d.bit_length() - 1)}'
    return f'{_fi(n)}/{_fi(d)}' if d != 1 else _fi(n)


def _fmt_outs(outs):
    return '{' + ', '.join(f'{fx(o[0])}[inexact={o[1]}]' for o in outs) + '}'


def _group(fname):
    if fname in DERIVED:
        return 'const-quotient'
    if fname in CONSTANTS:
        return 'const-base'
    return 'function'


class Check(BaseCheck):
    pid = 'C03'
    rule = ('(function or constant, operand tuple, context configuration, rounding mode, overflow mode[, random '
            'draw]); operand sets, precisions 1..512 and modes are enumerated completely.  nontrivial = distinct '
            '(function, operands, configuration, mode) whose true result is NOT a member of the format (the '
            'rounding is inexact or overflows).  Histories: every step of every history is a state and a transition')
    assumptions = ['MPFR (gmpy2) directed rounding RNDD/RNDU of one function at the oracle precision is a valid '
                   'enclosure; a common-mode MPFR error is out of scope',
                   'rationality of the true result is decided by the table in mc/model/enclose.py '
                   '(Lindemann-Weierstrass, unique factorisation); for erf/erfc/Gamma/lgamma at generic points no '
                   'irrationality theorem is used: strict enclosures decide, else the case is inconclusive',
                   'the sign of a zero returned for a true result that is the real number 0 is not judged',
                   'operands outside the real domain, poles, 0^0 and atan2(0,0) are counted, not judged; operands '
                   'are finite; atan2 is not given -0',
                   'the overflow flag is not judged (the statement names only the value and the inexact flag)',
                   'RTE/RTO on overflow may go to infinity or to the largest value (as C01)',
                   'stochastic contexts: per draw the result is the RTZ or RAZ rounding; the number of draws rounding '
                   'away is the position in the gap times 2^k rounded by the base mode (C17 oracle)']
    trusted_base = ['MPFR 4.x via gmpy2 (directed rounding at precision <= 8192)', 'mc.model.rounding (C01 oracle)']

    def __init__(self, tier, seed):
        super().__init__(tier, seed)
        self.fctx = function_contexts(tier, seed)
        self.sctx = stochastic_contexts(tier)
        self.cprecs = list(range(1, 513))          # cheap: both tiers sweep every precision
        self.cnmins = list(range(-200, 0)) + [0, 1, 2, 3, 5]
        self.ubparts = 2
        self.bparts = 8 if tier == 'quick' else 24
        self.hparts = 3 if tier == 'quick' else 16

    def bounds(self):
        return {'unary_functions': len(UNARY), 'binary_functions': len(BINARY), 'constants': len(CONSTANTS),
                'function_contexts': [cfg_text(f, p) for f, p, _ in self.fctx],
                'stochastic_contexts': [cfg_text(f, p) for f, p in self.sctx], 'stochastic_k': [1, 3],
                'unary_operands_per_function': len(unary_operands('sin', self.tier)),
                'binary_operand_pairs': {f: len(binary_operands(f, self.tier)) for f in BINARY},
                'constant_precisions': f'{len(self.cprecs)} of 1..512 (max {max(self.cprecs)})',
                'constant_fixed_nmin': f'{len(self.cnmins)}: -200..-1, 0, 1, 2, 3, 5', 'modes': 8,
                'enclosure_cap_bits': E.MAX_PREC,
                'history_contexts': [cfg_text(f, p) for f, p in HIST_CTX], 'history_modes': list(HIST_MODES),
                'history_subjects': [s[0] for s in hist_subjects()],
                'histories': len(hist_histories(self.tier)),
                'history_shape': 'per first context c: every subject under c first, then under all others; thorough: '
                                 'every ordered pair (c1, c2) first; plus Eulerian walks over each subject\'s items'}

    def shards(self):
        sh = [('u', f, i) for f in UNARY for i in range(self.ubparts)]
        sh += [('b', f, i) for f in BINARY for i in range(self.bparts)]
        sh += [('c', c, 0) for c in CONSTANTS]
        sh += [('s', 'functions', i) for i in range(8)]
        sh += [('s', 'constants', 0)]
        sh += [('s', 'bounded', i) for i in range(2)]
        sh += [('h', 'histories', i) for i in range(self.hparts)]
        return sh

    def selfcheck(self):
        # 1. round_real mirrors round_model (rationals presented through the three queries)
        specs = [R.Spec('float', p=1), R.Spec('float', p=3), R.Spec('float', p=4, emin=-2),
                 R.Spec('float', p=3, emin=0, maxpos=Q(14), maxneg=Q(-14)), R.Spec('fixed', nmin=-3),
                 R.Spec('fixed', nmin=2)]
        n = 0
        for spec in specs:
            for j in range(1, 90):
                for q in (Q(j, 16) + Q(1, 3072), Q(j, 64) - Q(1, 7 * 64), Q(j) * 3 + Q(1, 3)):
                    for s in (1, -1):
                        for mode in MODES:
                            a = round_real(spec, RatRef(s * q), mode, 'OVERFLOW')
                            b = R.round_model(spec, X.fin(s * q), mode, 'OVERFLOW')
                            if _key(a) != _key(b):
                                raise AssertionError(f'round_real != round_model at {spec} {s * q} {mode}: {a} vs {b}')
                            n += 1
        # 2. canaries through the enclosure path
        sp = R.Spec('float', p=5)
        (v, inx, _), = round_real(sp, E.Enclosed('exp', (Q(1),)), 'RNE', 'OVERFLOW')
        assert v.q == Q(11, 4) and inx is True, v
        (v, inx, _), = round_real(sp, E.Enclosed('pow', (Q(2), Q(10))), 'RTZ', 'OVERFLOW')
        assert v.q == 1024 and inx is False
        (v, inx, _), = round_real(R.Spec('fixed', nmin=-11), E.Enclosed('const_pi'), 'RTP', 'OVERFLOW')
        assert v.q == Q(3217, 1024) and inx is True, v
        # 3. enclosures are nested and contain a high-precision evaluation
        for f in UNARY:
            for q in (Q(3, 8), Q(5, 4), Q(-3, 2), Q(7)):
                x = E.Enclosed(f, (q,))
                if x.kind in (E.IRRATIONAL, E.UNKNOWN):
                    a, b = x.enclosure(64), x.enclosure(512)
                    assert E._dy_le(a[0], b[0]) and E._dy_le(b[0], b[1]) and E._dy_le(b[1], a[1]), (f, q)

    # ---- one evaluation --------------------------------------------------
    def call(self, fname, objs, ctx):
        return getattr(fp.ops, fname)(*objs, ctx=ctx)

    def compare(self, fname, args, forms, ctx, outs):
        """one call of the implementation -> (outcome label, None | (kind, text))"""
        objs = [as_float(a, f) for a, f in zip(args, forms)]
        try:
            y = self.call(fname, objs, ctx)
        except (ValueError, OverflowError) as e:
            return 'raises', (None if any(o[0] == 'ERR' for o in outs) else ('raised', f'raised {e!r}'))
        except Exception as e:
            return 'raises-other', ('raised-other', f'raised {type(e).__name__}: {e}')
        try:
            xy = to_x(y)
        except Exception:
            return 'bad-type', ('result-type', f'returned a {type(y).__name__}')
        ok_val = [o for o in outs if o[0] != 'ERR' and o[0].same(xy)]
        if not ok_val:
            return xy.kind, ('value', f'returned {fx(xy)}')
        if not any((o[1] is None or o[1] == bool(y.inexact)) for o in ok_val):
            return xy.kind, ('inexact-flag', f'returned {fx(xy)} with inexact={y.inexact}')
        return xy.kind, None

    def judge(self, r, fname, args, forms, family, params, mode, ovf, ctx, outs):
        """one call of the implementation against the admissible outcomes"""
        r.count('evaluations')
        r.count('transitions')
        arm = _arm(outs)
        label, fail = self.compare(fname, args, forms, ctx, outs)
        r.outcomes[f'{arm}:{label}'] += 1
        if fail is not None:
            kind, detail = fail
            case = {'fn': fname, 'args': [str(a) for a in args], 'forms': list(forms), 'family': family,
                    'params': {a: str(b) for a, b in params.items()}, 'mode': mode, 'overflow': ovf, 'k': 0}
            sig = {'fn': fname, 'group': _group(fname), 'family': family, 'arm': arm, 'kind': kind}
            r.violate(sig, case, f'{fname}({", ".join(str(a) for a in args)}) under {cfg_text(family, params)} '
                                 f'rm={mode} ov={ovf}: {detail}; admissible {_fmt_outs(outs)}')

    def check_point(self, r, fname, x, args, forms, cache, family, params, ovfs, built):
        """all modes of one (function, operands, configuration)"""
        for ovf in ovfs:
            for mode in MODES:
                ctx, spec = built[(family, _pk(params), mode, ovf)]
                r.count('states')
                if x.is_exact:
                    outs = round_exact(spec, x.value, mode, ovf)
                else:
                    key = (spec.kind, spec.p, spec.emin, spec.nmin)
                    if key not in cache:
                        loc = locate(spec, x)
                        cache[key] = None if loc is None else surrogate(spec, *loc)
                    sq = cache[key]
                    if sq is None:
                        r.count('inconclusive')
                        r.outcomes['inconclusive'] += 1
                        if len(r.notes) < 6:
                            r.notes.append(f'inconclusive (enclosure cap {E.MAX_PREC} bits): {x!r} under '
                                           f'{cfg_text(family, params)}')
                        continue
                    outs = R.round_model(spec, X.fin(sq), mode, ovf)
                if all(o[0] == 'ERR' or o[1] for o in outs):
                    r.count('nontrivial')
                self.judge(r, fname, args, forms, family, params, mode, ovf, ctx, outs)

    def build_all(self, cfgs):
        built = {}
        for family, params, ovfs in cfgs:
            for ovf in ovfs:
                for mode in MODES:
                    built[(family, _pk(params), mode, ovf)] = build(family, params, mode, ovf)
        return built

    def run_functions(self, r, fname, points):
        built = self.build_all(self.fctx)
        maxp = 0
        for args, forms in points:
            x = E.Enclosed(fname, args)
            if not x.is_real:
                r.count('precondition_false')
                r.outcomes[f'not-judged:{x.kind}'] += 1
                continue
            cache = {}
            for family, params, ovfs in self.fctx:
                self.check_point(r, fname, x, args, forms, cache, family, params, ovfs, built)
            maxp = max(maxp, x.max_prec_used)
        if maxp:
            r.notes.append(f'enclosure precision reached {maxp} bits')

    def run_constant(self, r, cname):
        x = E.Enclosed(cname)
        for p in self.cprecs:
            cfgs = [('MPFloat', {'p': p}, ['OVERFLOW'])]
            built = self.build_all(cfgs)
            self.check_point(r, cname, x, (), (), {}, 'MPFloat', {'p': p}, ['OVERFLOW'], built)
        for n in self.cnmins:
            cfgs = [('MPFixed', {'nmin': n}, ['OVERFLOW'])]
            built = self.build_all(cfgs)
            self.check_point(r, cname, x, (), (), {}, 'MPFixed', {'nmin': n}, ['OVERFLOW'], built)
        for family, params in (('MPSFloat', {'p': 11, 'emin': 1}), ('MPSFloat', {'p': 24, 'emin': -1}),
                               ('IEEEstd', {'name': 'binary16'}), ('IEEEstd', {'name': 'binary32'}),
                               ('IEEEstd', {'name': 'binary64'}), ('IEEE', {'es': 2, 'nbits': 4})):
            built = self.build_all([(family, params, ['OVERFLOW'])])
            self.check_point(r, cname, x, (), (), {}, family, params, ['OVERFLOW'], built)
        r.notes.append(f'enclosure precision reached {x.max_prec_used} bits')

    # ---- stochastic contexts: all draws ------------------------------------
    def check_stochastic(self, r, fname, x, args, forms, family, params, k, mode):
        rng = ScriptedRandom()
        ctx, spec = build(family, params, mode, 'OVERFLOW', k, rng)
        r.count('states')
        case = {'fn': fname, 'args': [str(a) for a in args], 'forms': list(forms), 'family': family,
                'params': {a: str(b) for a, b in params.items()}, 'mode': mode, 'overflow': 'OVERFLOW', 'k': k}
        sig = {'fn': fname, 'group': _group(fname), 'family': family, 'arm': 'stochastic'}

        def bad(kind, detail):
            s = dict(sig)
            s['kind'] = kind
            r.violate(s, case, f'{fname}({", ".join(str(a) for a in args)}) under {cfg_text(family, params)} '
                               f'k={k} rm={mode}: {detail}')
        want = None
        if x.is_exact:
            if x.value == 0:
                lo_outs = hi_outs = round_exact(spec, Q(0), 'RTZ', 'OVERFLOW')
                inside = False
            else:
                q = x.value
                lo_outs = R.round_model(spec, X.fin(q), 'RTZ', 'OVERFLOW')
                hi_outs = R.round_model(spec, X.fin(q), 'RAZ', 'OVERFLOW')
                lo, hi, kept, half, sticky = R.neighbours(spec, q)
                inside = bool(half or sticky)
                if inside:
                    e = R.ilog2(q)
                    kq = spec.quantum_exp(e, None)
                    N2, ex = R.scaled_floor(q, kq - 1 - k)
                    s = q < 0
        else:
            loc = locate(spec, x, 0)
            loc2 = locate(spec, x, k)
            if loc is None or loc2 is None:
                r.count('inconclusive')
                r.outcomes['inconclusive'] += 1
                return
            s, kq, N = loc
            sq = surrogate(spec, s, kq, N)
            lo_outs = R.round_model(spec, X.fin(sq), 'RTZ', 'OVERFLOW')
            hi_outs = R.round_model(spec, X.fin(sq), 'RAZ', 'OVERFLOW')
            inside = True
            kept = N >> 1
            N2, ex = loc2[2], False
        if inside:
            ft = (N2 >> 1) - (kept << k)
            assert 0 <= ft < (1 << k), (ft, k)
            want = ft + (1 if R.choose(ft, N2 & 1, not ex, mode, s) else 0)
            r.count('nontrivial')
        objs = [as_float(a, f) for a, f in zip(args, forms)]
        away = 0
        for draw in range(1 << k):
            r.count('evaluations')
            r.count('transitions')
            rng.value = draw
            rng.calls = []
            try:
                y = self.call(fname, objs, ctx)
                xy = to_x(y)
            except Exception as e:
                bad('raised', f'draw {draw}: raised {type(e).__name__}: {e}')
                return
            is_lo = any(o[0] != 'ERR' and o[0].same(xy) for o in lo_outs)
            is_hi = any(o[0] != 'ERR' and o[0].same(xy) for o in hi_outs)
            if not (is_lo or is_hi):
                bad('not-a-neighbour', f'draw {draw}: returned {fx(xy)}; neighbours {_fmt_outs(lo_outs)} / '
                                       f'{_fmt_outs(hi_outs)}')
                return
            if bool(y.inexact) != inside:
                bad('inexact-flag', f'draw {draw}: returned {fx(xy)} with inexact={y.inexact}; true result '
                                    f'{"is not" if inside else "is"} a member of the format')
                return
            if inside and is_hi:
                away += 1
        r.outcomes[f'stochastic:inside={inside}:away='
                   f'{"n/a" if want is None else "0" if away == 0 else "all" if away == 1 << k else "some"}'] += 1
        if want is not None and away != want:
            bad('probability', f'{away} of {1 << k} draws round away from zero; expected {want}')

    def run_stochastic(self, r, what, part):
        if what == 'bounded':
            # bounded float families delegate round_params to MPBFloatContext: results are kept well inside
            # the normal range, so both neighbours exist and the count oracle applies unchanged
            subjects = [(f, (q,)) for f in BOUNDED_FUN for q in BOUNDED_ARGS] + [(c, ()) for c in BOUNDED_CONST]
            ctxs = [c for i, c in enumerate(BOUNDED_CTX) if i % 2 == part]
            for fname, args in subjects:
                x = E.Enclosed(fname, args)
                if not x.is_real:
                    r.count('precondition_false')
                    continue
                for family, params in ctxs:
                    for k in (1, 3, 4):
                        for mode in (MODES if self.tier != 'quick' or k != 4 else ('RNE', 'RTZ', 'RTP', 'RTO')):
                            self.check_stochastic(r, fname, x, args, ('Float',) * len(args), family, params, k, mode)
            return
        if what == 'constants':
            for cname in CONSTANTS:
                x = E.Enclosed(cname)
                for p in (range(1, 9) if self.tier == 'quick' else range(1, 17)):
                    for k in (1, 3):
                        for mode in MODES:
                            self.check_stochastic(r, cname, x, (), (), 'MPFloat', {'p': p}, k, mode)
                for n in (-7, -2, 1):
                    for k in (1, 3):
                        for mode in MODES:
                            self.check_stochastic(r, cname, x, (), (), 'MPFixed', {'nmin': n}, k, mode)
            return
        fns = [f for i, f in enumerate(UNARY + BINARY) if i % 8 == part]
        for fname in fns:
            if fname in BINARY:
                pts = binary_operands(fname, 'quick')
                pts = pts[::7] if self.tier == 'quick' else pts[::2]
            else:
                pts = unary_operands(fname, self.tier)
                if self.tier == 'quick':
                    pts = pts[::5]
            for args, forms in ((a if isinstance(a, tuple) else (a,), (f,) * (2 if isinstance(a, tuple) else 1))
                                for a, f in pts):
                x = E.Enclosed(fname, args)
                if not x.is_real:
                    r.count('precondition_false')
                    continue
                for family, params in self.sctx:
                    for k in (1, 3):
                        for mode in MODES:
                            self.check_stochastic(r, fname, x, args, forms, family, params, k, mode)


    # ---- histories ------------------------------------------------------------
    def _zygote(self, req: dict):
        """starts a pristine interpreter (imports, evaluates nothing) and returns its answer"""
        import json
        import os
        import pickle
        import subprocess
        import sys
        from ..engine.runner import ROOT
        boot = ("import os, sys\n"
                "alt = os.environ.get('FPY_REPO')\n"
                "if alt:\n"
                "    sys.path.insert(0, alt)\n"
                "    import fpy2\n"
                "    assert os.path.abspath(fpy2.__file__).startswith(os.path.abspath(alt)), fpy2.__file__\n"
                "from mc.checks.c03 import zygote_main\n"
                "zygote_main()\n")
        req = dict(req, tier=self.tier, seed=self.seed)
        p = subprocess.run([sys.executable, '-W', 'ignore', '-c', boot], input=json.dumps(req).encode(), cwd=ROOT,
                           env=dict(os.environ), capture_output=True, timeout=3000)
        i = p.stdout.find(HIST_MARK)
        if p.returncode != 0 or i < 0:
            raise RuntimeError(f'pristine interpreter failed (exit {p.returncode}):\n' +
                               p.stderr.decode(errors='replace')[-3000:])
        return pickle.loads(p.stdout[i + len(HIST_MARK):])

    def run_history_shard(self, r, part):
        sub = self._zygote({'op': 'histories', 'part': part, 'parts': self.hparts})
        r.counts.update(sub.counts)
        r.outcomes.update(sub.outcomes)
        r.violations.extend(sub.violations)
        r.samples.extend(sub.samples)
        r.notes.extend(sub.notes)

    def confirm_pristine(self, r):
        """The single-call shards run in a long-lived worker, so a failure seen there may depend on
        what that worker evaluated earlier, which its replay case does not record.  Every failing
        case is therefore re-run alone in a pristine process: it is reported here only if it fails
        there too; order-dependent failures are the business of the history shards (whose cases carry
        the sequence) and are only counted here."""
        if not r.violations:
            return
        ok = self._zygote({'op': 'confirm', 'cases': [v.case for v in r.violations]})
        dropped = [v for v, k in zip(r.violations, ok) if not k]
        r.violations = [v for v, k in zip(r.violations, ok) if k]
        if dropped:
            r.count('order_dependent_failures_left_to_history_shards', len(dropped))
            r.outcomes['failed in a long-lived worker, correct alone in a pristine process'] += len(dropped)
            r.notes.append('some single-call failures did not recur alone in a pristine process (they depend on earlier '
                           'evaluations in the worker): not reported by the single-call shards, e.g. ' +
                           dropped[0].detail[:160])

    def run_histories(self, part, parts):
        """runs in the zygote: one forked child per history"""
        r = ShardResult()
        hs = [h for i, h in enumerate(hist_histories(self.tier)) if i % parts == part]
        runner = _HistoryRunner(self)
        runner.warm([st for g in hist_items() for st in g[:1]])
        alone = {}                       # step key -> does the step fail on its own from the pristine state?
        budget = [24]                    # forks spent on minimisation in this shard
        reported = {}

        def key(st):
            return json_key(st)

        def fails_at_end(history):
            res = _in_fork(lambda: runner.run(history))
            last = len(history) - 1
            return [f for f in res['fails'] if f[0] == last]

        for h in hs:
            res = _in_fork(lambda: runner.run(h))
            r.count('histories')
            r.count('states', res['n'])
            r.count('evaluations', res['n'])
            r.count('transitions', res['n'])
            r.count('nontrivial', res['nontrivial'])
            if res['inconclusive']:
                r.count('inconclusive', res['inconclusive'])
            r.outcomes.update(res['labels'])
            for i, kind, text in res['fails'][:4]:
                st = h[i]
                sig = {'fn': st['fn'], 'group': _group(st['fn']), 'family': st['family'], 'kind': kind}
                skey = tuple(sorted(sig.items()))
                if reported.get(skey, 0) >= 3:
                    r.count('violations_raw')
                    continue
                reported[skey] = reported.get(skey, 0) + 1
                # minimise: the step alone; then one earlier step + the step; else the prefix as run
                seq = h[:i + 1]
                k = key(st)
                if i > 0 and budget[0] > 0:
                    if k not in alone:
                        budget[0] -= 1
                        alone[k] = bool(fails_at_end([st]))
                    if alone[k]:
                        seq = [st]
                    else:
                        cands = [j for j in range(i) if h[j]['fn'] == st['fn']] + \
                                [j for j in range(i) if h[j]['fn'] != st['fn']]
                        for j in cands[:12]:
                            if budget[0] <= 0:
                                break
                            budget[0] -= 1
                            if fails_at_end([h[j], st]):
                                seq = [h[j], st]
                                break
                elif i == 0:
                    alone[k] = True
                sig['arm'] = 'history' if len(seq) > 1 else 'alone'
                if len(seq) > 1:
                    sig['after'] = seq[0]['family'] if len(seq) == 2 else 'long'
                case = {'history': seq}
                before = '' if len(seq) == 1 else (
                    'after ' + '; '.join(step_text(x) for x in seq[:-1][:3]) +
                    (f' ... ({len(seq) - 1} earlier steps)' if len(seq) > 4 else '') + ': ')
                r.violate(sig, case, f'{before}{step_text(st)}: {text}' +
                          ('' if len(seq) == 1 else '  [the same call is correct in a fresh process]'
                           if alone.get(k) is False else ''))
        if part == 0 and hs:
            r.sample({'history': [step_text(x) for x in hs[0][:4]] + [f'... {len(hs[0])} steps'],
                      'histories in this shard': len(hs)})
        return r

    # ---- shards ---------------------------------------------------------------
    def run_shard(self, shard):
        r = ShardResult()
        kind, name, part = shard
        if kind == 'u':
            pts = [((q,), (f,)) for i, (q, f) in enumerate(unary_operands(name, self.tier)) if i % self.ubparts == part]
            self.run_functions(r, name, pts)
            if part == 0:
                r.sample({'function': name, 'operands': len(pts) * self.ubparts, 'first': [str(p[0][0]) for p in pts[:6]],
                          'contexts': len(self.fctx), 'modes': 8})
        elif kind == 'b':
            pts = [(pr, (f, f)) for i, (pr, f) in enumerate(binary_operands(name, self.tier)) if i % self.bparts == part]
            self.run_functions(r, name, pts)
        elif kind == 'c':
            self.run_constant(r, name)
            r.sample({'constant': name, 'precisions': f'{len(self.cprecs)} (max {max(self.cprecs)})',
                      'fixed nmin': len(self.cnmins), 'modes': 8})
        elif kind == 'h':
            self.run_history_shard(r, part)
        else:
            self.run_stochastic(r, name, part)
        if kind != 'h':
            self.confirm_pristine(r)
        return r

    def replay(self, case):
        if 'history' in case:
            # this process has evaluated nothing yet: run the whole sequence here
            h = case['history']
            res = _HistoryRunner(self).run(h)
            lines = [f'step {i + 1}/{len(h)}: {step_text(st)}' for i, st in enumerate(h[-6:], max(0, len(h) - 6))]
            if res['fails']:
                return True, '\n'.join(lines + [f'step {i + 1}: {step_text(h[i])}: {text}' for i, _, text in res['fails']])
            return False, '\n'.join(lines + [f'all {len(h)} steps return the correctly rounded result'])
        P = _parse_params(case['params'])
        fname = case['fn']
        args = tuple(Fraction(a) for a in case['args'])
        forms = tuple(case['forms'])
        x = E.Enclosed(fname, args)
        r = ShardResult()
        if not x.is_real:
            return False, f'{x!r} is {x.kind}: not judged'
        if case.get('k'):
            self.check_stochastic(r, fname, x, args, forms, case['family'], P, case['k'], case['mode'])
        else:
            mode, ovf = case['mode'], case['overflow']
            ctx, spec = build(case['family'], P, mode, ovf)
            outs = round_real(spec, x, mode, ovf)
            if outs is None:
                return False, f'{x!r}: inconclusive at {E.MAX_PREC} bits'
            self.judge(r, fname, args, forms, case['family'], P, mode, ovf, ctx, outs)
        if r.violations:
            return True, '\n'.join(v.detail for v in r.violations) + f'\n(true result: {x.kind}' + \
                (f' = {fx(X.fin(x.value))}' if x.is_exact else f', decided with enclosures of up to {x.max_prec_used} bits') + ')'
        return False, f'case {case}: implementation returns the correctly rounded result'



# ---------------------------------------------------------------------------
# HISTORY dimension: a result must not depend on what was evaluated before in the process.
#
# A history is an ordered sequence of steps (constant-or-function, context, mode) evaluated
# in ONE process that starts pristine (fpy2 imported, nothing evaluated).  Each history shard
# starts a fresh interpreter (the "zygote": imports, evaluates nothing) which forks one child
# per history; the child runs the history and compares EVERY step with the history-independent
# enclosure oracle.  Enumerated (see hist_histories):
#   * for every context c of the pool: a history in which every subject is evaluated under c
#     FIRST and under every other context later (all ordered pairs "c first, c' later", coarse
#     before fine and fine before coarse);
#   * thorough: the same with the two modes swapped, and for every ordered pair (c1, c2) a history
#     in which every subject meets c1, then c2, then the rest (sequences of length 3 and more);
#   * walks along an Eulerian circuit over a subject's items, so every ordered pair of items of
#     a subject also occurs as ADJACENT steps (state of the "last call" kind).
# A failing step is minimised in fresh forks (the step alone; then [earlier step, step]); the
# replay case carries the whole sequence to be run from the pristine state.

HIST_CTX = [('MPFixed', {'nmin': -1}), ('MPFixed', {'nmin': -3}), ('MPFixed', {'nmin': -12}),
            ('MPFixed', {'nmin': -40}), ('MPFloat', {'p': 3}), ('MPFloat', {'p': 53}),
            ('IEEE', {'es': 3, 'nbits': 6}), ('Fixed', {'signed': True, 'scale': -4, 'nbits': 8}),
            ('SMFixed', {'scale': -2, 'nbits': 6})]
HIST_FUN = [('exp', (Q(1),)), ('log', (Q(2),)), ('sin', (Q(1),)), ('pow', (Q(2), Q(1, 2))), ('atan2', (Q(1), Q(1)))]
HIST_MODES = ('RNE', 'RTP')
HIST_MARK = b'\n@@C03-HISTORY-RESULT@@\n'


def hist_subjects():
    return [(c, ()) for c in CONSTANTS] + HIST_FUN


def hist_step(subject, ctx, mode):
    fname, args = subject
    family, params = ctx
    return {'fn': fname, 'args': [str(a) for a in args], 'family': family,
            'params': {a: str(b) for a, b in params.items()}, 'mode': mode}


def hist_items():
    """all steps, grouped by subject"""
    return [[hist_step(sub, c, m) for c in HIST_CTX for m in HIST_MODES] for sub in hist_subjects()]


def _euler(n: int):
    """a closed walk on n vertices that uses every ordered pair (i, j), loops included, once"""
    nxt = [0] * n
    stack, out = [0], []
    while stack:
        v = stack[-1]
        if nxt[v] < n:
            w = nxt[v]
            nxt[v] += 1
            stack.append(w)
        else:
            out.append(stack.pop())
    out.reverse()
    assert len(out) == n * n + 1
    return out


def hist_histories(tier: str):
    """deterministic list of histories (lists of steps); each is run in its own pristine process.

    A history visits every subject; for a subject X it evaluates X under the history's FIRST
    context(s) before any other context, then under every other context (rotated), so that over
    all histories every ordered pair (context used first for X, context used later for X) occurs,
    coarse before fine as well as fine before coarse.  Forking is expensive here (~0.2 s), hence
    one process per choice of first context(s) rather than one per pair."""
    subs = hist_subjects()
    n = len(HIST_CTX)
    out = []

    def visit(first, modes, rot):
        h = []
        order = subs[rot % len(subs):] + subs[:rot % len(subs)]
        for sub in order:
            later = [c for c in range(n) if c not in first]
            later = later[rot % len(later):] + later[:rot % len(later)]
            for c in list(first) + later:
                for m in modes:
                    h.append(hist_step(sub, HIST_CTX[c], m))
        return h

    def walks(modes):
        h = []
        for sub in subs:
            items = [hist_step(sub, c, m) for c in HIST_CTX for m in modes]
            h += [items[i] for i in _euler(len(items))]
        return h

    for c in range(n):
        out.append(visit([c], ('RNE', 'RTP'), c) + (walks(('RNE',)) if c % 4 == 0 else []))
    if tier != 'quick':
        for c in range(n):
            out.append(visit([c], ('RTP', 'RNE'), c + 4))
        for c1 in range(n):
            for c2 in range(n):
                if c1 != c2:
                    out.append(visit([c1, c2], ('RNE', 'RTP'), c1 * n + c2))
        out.append(walks(HIST_MODES))
        out.append(list(reversed(walks(HIST_MODES))))
    return out


def _parse_params(params: dict) -> dict:
    P = {}
    for a, v in params.items():
        if a in ('name', 'nan_kind'):
            P[a] = v
        elif v in ('True', 'False'):
            P[a] = v == 'True'
        elif v == 'None':
            P[a] = None
        else:
            P[a] = Fraction(v) if '/' in v else int(v)
    return P


class _HistoryRunner:
    """evaluates steps in THIS process; oracle values are history-independent"""

    def __init__(self, check):
        self.check = check
        self.built = {}
        self.enc = {}

    def subject(self, step):
        key = (step['fn'], tuple(step['args']))
        if key not in self.enc:
            self.enc[key] = E.Enclosed(step['fn'], tuple(Fraction(a) for a in step['args']))
        return self.enc[key]

    def warm(self, steps):
        """oracle-side work that needs no fpy2: done before forking"""
        for st in steps:
            x = self.subject(st)
            if not x.is_exact:
                x.sign()
                x.ilog2()

    def step(self, st):
        """-> (arm, label, None | (kind, text), outs) or None when inconclusive"""
        key = (st['family'], _pk(st['params']), st['mode'])
        if key not in self.built:
            self.built[key] = build(st['family'], _parse_params(st['params']), st['mode'], 'OVERFLOW')
        ctx, spec = self.built[key]
        x = self.subject(st)
        outs = round_real(spec, x, st['mode'], 'OVERFLOW')
        if outs is None:
            return None
        args = tuple(Fraction(a) for a in st['args'])
        label, fail = self.check.compare(st['fn'], args, ('Float',) * len(args), ctx, outs)
        return _arm(outs), label, fail, outs

    def run(self, history):
        """-> {'n': steps run, 'inexact': .., 'inconclusive': .., 'labels': Counter, 'fails': [(index, kind, text)]}"""
        from collections import Counter
        res = {'n': 0, 'nontrivial': 0, 'inconclusive': 0, 'labels': Counter(), 'fails': []}
        for i, st in enumerate(history):
            o = self.step(st)
            res['n'] += 1
            if o is None:
                res['inconclusive'] += 1
                continue
            arm, label, fail, outs = o
            if arm in ('inexact', 'overflow'):
                res['nontrivial'] += 1
            res['labels'][f'history:{arm}:{label}'] += 1
            if fail is not None:
                res['fails'].append((i, fail[0], f'{fail[1]}; admissible {_fmt_outs(outs)}'))
        return res


def _in_fork(fn):
    """runs fn() in a forked child of this (pristine) process and returns its picklable result"""
    import os
    import pickle
    rfd, wfd = os.pipe()
    pid = os.fork()
    if pid == 0:
        code = 0
        try:
            os.close(rfd)
            try:
                data = pickle.dumps(('ok', fn()))
            except BaseException:
                import traceback
                data = pickle.dumps(('error', traceback.format_exc()))
            with os.fdopen(wfd, 'wb') as f:
                f.write(data)
        except BaseException:
            code = 3
        finally:
            os._exit(code)
    os.close(wfd)
    with os.fdopen(rfd, 'rb') as f:
        data = f.read()
    os.waitpid(pid, 0)
    tag, val = pickle.loads(data)
    if tag != 'ok':
        raise RuntimeError('history child failed:\n' + val)
    return val


def step_text(st):
    return (f'{st["fn"]}({", ".join(st["args"])}) under {cfg_text(st["family"], st["params"])} rm={st["mode"]}')


def zygote_main():
    """entry point of the fresh interpreter started by a history shard.  NOTHING of fpy2.ops is
    evaluated in this process: every history runs in a forked child."""
    import json
    import pickle
    import sys
    req = json.loads(sys.stdin.read())
    check = Check(req['tier'], req['seed'])
    if req.get('op') == 'confirm':
        # each case alone, from the pristine state
        r = [_in_fork(lambda c=c: check.replay(c)[0]) for c in req['cases']]
    else:
        r = check.run_histories(req['part'], req['parts'])
    sys.stdout.buffer.write(HIST_MARK + pickle.dumps(r))
    sys.stdout.buffer.flush()


def json_key(st):
    import json
    return json.dumps(st, sort_keys=True)


def _pk(params):
    return tuple(sorted((a, str(b)) for a, b in params.items()))


def _key(outs):
    return None if outs is None else [(str(o[0]), o[1], o[2]) for o in outs]
