"""
C19 -- Sites, indices and cursors name exactly what they say.

Space: every program of a site-rich grammar (mc/engine/progen_c19.py: loop-nest
skeletons with 2-4 for/while loops at different depths x every assignment of
their leaf slots from an alphabet of rounding blocks -- some refused by every
rounding rewrite -- helper calls -- some refused by inline -- and plain
statements), every statement carrying a unique marker.  On each program an
explicit-state exploration of strategy histories: from every reached program
version, every aimable strategy configuration x every `where` in
{0..k-1, None} is applied (plus, on the original program, where=sites[j],
where in {k, k+1, -1} and the parameter variants), up to the tier's depth.

User rewrite rules (fpy2.rewrite: find_all lists the matches, Rewrite.apply takes
where in {0..k-1, None, match cursor}) are part of the same space: a statement
rule whose replacement is longer than its pattern (1->2) and an expression rule
sit in the history alphabet next to the built-in strategies, a same-size (1->1)
and a shorter (2->1, window matches) statement rule are applied to the original
program; skeletons P1/P2 hold several matches at different depths (a match
directly followed by a sibling whose block starts with another, a nested match
before an outer one, adjacent matches).  Documented refusals (no match at all ->
TransformReferenceError, overlapping windows -> TransformDeclined) are expected.

Indexed assignments (skeletons S1/S2, no slots: one program each) are the one
statement kind with two expression fields: `us[g1(u)] = g1(a) + m`,
`ws[g1(u)][g1(v)] = g1(a) + m` (one and two indices, an inlinable call in every
index AND in the value) and `us[h * h] = (h + h) * h + m`,
`ws[h * h][h * u] = (h + h) * h + m` (products / exact arithmetic on both sides:
rule:expr-mul, insert_round), every candidate of one statement textually
distinct, so that "the j-th listed site is the node where=j rewrites" is judged
across the index/value boundary for every expression-sited strategy.

Oracle (all of it from an independent reading of the AST -- own walk, tuple
paths, own candidate enumeration, marker tokens; see progen_c19.Reading):

 listing    every independently enumerated candidate is a site or a refusal
            (a listing wider than the documented shape is recorded, not judged),
            the two are disjoint, no duplicates, every reason a non-empty string,
            cursors of the right kind, owned by the program that was listed and
            resolving to the node the own walk finds there.
 where      where=j (j<k) / where=sites[j] / where=None returns (any exception is
            judged: k sites were listed); every reported edit lies at (or under)
            a selected site, every selected site is covered by an edit;
            statements outside the reported edits (not beneath one, not holding
            one, not reported as expression-rewritten) keep their text, are
            is_equiv, and their one-step forwarded cursor resolves to them at the
            place a replay of the edits predicts; a consumed statement forwards
            to exactly the run that replaced it; what stands in the place of a
            selected statement site differs from it, loops nested in a selected
            loop are rewritten iff selected themselves; for expression sites the
            remaining candidates are exactly the unselected ones;
            where=sites[j] == where=j when the cursor selects only site j;
            where in {k, k+1, -1} raises TransformReferenceError.
 forward    a cursor taken on EVERY statement of the original program and
            forwarded with Function.forward across the whole history either
            raises TransformReferenceError or resolves to a statement/region
            whose text contains every marker of the statement it was taken on
            and no marker of an unrelated original statement, at the place an
            independent replay of the reported edit logs (progen_c19.ref_chain)
            puts it; a statement that no reported edit touched along the way
            (tracked independently by its unique text) must resolve, to exactly
            that statement, unchanged.  Raising where the replay resolves is
            allowed by the statement and only counted.

Not demanded: which candidates a strategy refuses (only that each candidate is
listed or explained); a listing that raises something other than a Transform*
error (an analysis failing: counted `inconclusive`, never judged); run-time
behaviour (programs are never executed).
"""

from __future__ import annotations

import json
import os
from collections import Counter

from ..engine.runner import BaseCheck, ShardResult
from ..engine.loader import load_source
from ..engine import progen_c19 as G

import fpy2 as fp
from fpy2.ast import fpyast as A
from fpy2.ast.fpyast import Integer
from fpy2 import strategies as ST
from fpy2.strategies import (
    BlockCursor, ExprCursor, StmtCursor, TransformDeclined, TransformError, TransformReferenceError,
    refusals, sites,
)
from fpy2.transform import ForUnrollStrategy, SplitLoopStrategy


# ----------------------------------------------------------------------------
# Strategy configurations

class Cfg:
    def __init__(self, name, strat, kind, list_kw, apply, cands, core=True, lister=None, window=1,
                 merges=False):
        self.name = name          # unique label
        self.strat = strat        # the strategy callable (key of _SITES)
        self.kind = kind          # 'stmt' | 'expr'
        self.list_kw = list_kw    # module -> kwargs for sites()/refusals()
        self.apply = apply        # (func, where, module) -> Function
        self.cands = cands        # (Reading, module) -> ('stmt', [paths]) | ('expr', [nodes], certain)
        self.core = core          # part of the history alphabet (else: original program only)
        self.lister = lister      # user rule: (func, module) -> matches (no refusals); None: sites()/refusals()
        self.window = window      # statements one site spans (user statement rules)
        self.merges = merges      # several statements become one: their markers legitimately meet


def _round_cfg(name, strat, casts, **kw):
    return Cfg(name, strat, 'stmt', lambda m: {},
               lambda f, w, m: strat(f, where=w, **kw),
               lambda rd, m: ('stmt', rd.rounding_blocks(casts), True),
               core=not kw)


def _insert_cfg(name, ctxname, core):
    return Cfg(name, ST.insert_round, 'expr', lambda m: {'ctx': getattr(fp, ctxname)},
               lambda f, w, m: ST.insert_round(f, getattr(fp, ctxname), where=w),
               lambda rd, m: ('expr',) + rd.exact_roundables(), core=core)


def _split_cfg(name, factor, strategy, core, as_int=False):
    # `sites` forwards its kwargs to SplitLoop.sites, whose `factor` is an AST expression (the repository's
    # own tests pass Integer(2, None)); `as_int` passes the int that `split` itself takes, as the docstring
    # of `sites` ("pass the same arguments the rewrite will get") suggests
    st = getattr(SplitLoopStrategy, strategy)
    return Cfg(name, ST.split, 'stmt',
               lambda m: {'factor': factor if as_int else Integer(factor, None), 'strategy': st},
               lambda f, w, m: ST.split(f, factor, where=w, strategy=st),
               lambda rd, m: ('stmt', rd.stmts_of(A.ForStmt), True), core=core)


def _unroll_for_cfg(name, times, strategy, core):
    st = getattr(ForUnrollStrategy, strategy)
    return Cfg(name, ST.unroll_for, 'stmt',
               lambda m: {'times': times, 'strategy': st},
               lambda f, w, m: ST.unroll_for(f, w, times, strategy=st),
               lambda rd, m: ('stmt', rd.stmts_of(A.ForStmt), True), core=core)


def _unroll_while_cfg(name, times, core):
    return Cfg(name, ST.unroll_while, 'stmt', lambda m: {},
               lambda f, w, m: ST.unroll_while(f, w, times),
               lambda rd, m: ('stmt', rd.stmts_of(A.WhileStmt), True), core=core)


def _inline_cfg(name, only, core, recursive=True):
    def funcs(m):
        return None if only is None else [getattr(m, g) for g in only]
    return Cfg(name, ST.inline, 'expr',
               lambda m: {} if only is None else {'funcs': funcs(m)},
               lambda f, w, m: ST.inline(f, w, funcs=funcs(m), recursive=recursive),
               lambda rd, m: ('expr', rd.fpy_calls(funcs(m)), True), core=core)


def _rule_cfg(name, lhs, rhs, kind, cands, core, window=1):
    from fpy2.rewrite import Rewrite, find_all

    def rule(m):
        cache = m.__dict__.setdefault('_c19_rules', {})
        if name not in cache:
            cache[name] = Rewrite(getattr(m, lhs), getattr(m, rhs))
        return cache[name]
    return Cfg(name, None, kind, lambda m: {},
               lambda f, w, m: rule(m).apply(f, w),
               cands, core=core, lister=lambda f, m: find_all(getattr(m, lhs), f),
               window=window, merges=window > 1)


CONFIGS: list[Cfg] = [
    _round_cfg('unfold_special', ST.unfold_special, True),
    _round_cfg('unfold_neg_zero', ST.unfold_neg_zero, False),
    _round_cfg('unfold_overflow', ST.unfold_overflow, False),
    _round_cfg('float_to_fixed', ST.float_to_fixed, False),
    _round_cfg('rescale_fixed', ST.rescale_fixed, True),
    _insert_cfg('insert_round:FP64', 'FP64', True),
    _split_cfg('split:2:PEEL', 2, 'PEEL', True),
    _unroll_for_cfg('unroll_for:1:PEEL', 1, 'PEEL', True),
    _unroll_while_cfg('unroll_while:1', 1, True),
    _inline_cfg('inline', None, True),
    # user rewrite rules through fpy2.rewrite (find_all / Rewrite.apply): replacement longer than the
    # pattern, and an expression rule, in the history alphabet; same size and shorter on the original
    _rule_cfg('rule:stmt-1to2', 'sl_l', 'sl_r', 'stmt', lambda rd, m: ('stmt', rd.self_increments(), True), True),
    _rule_cfg('rule:expr-mul', 'em_l', 'em_r', 'expr', lambda rd, m: ('expr', rd.products(), True), True),
    _rule_cfg('rule:stmt-1to1', 'sl_l', 'ss_r', 'stmt', lambda rd, m: ('stmt', rd.self_increments(), True), False),
    _rule_cfg('rule:stmt-2to1', 'sh_l', 'sh_r', 'stmt', lambda rd, m: ('stmt', rd.increment_pairs(), True), False,
              window=2),
    # parameter variants: exercised on the original program of every history tree
    _round_cfg('unfold_overflow:early', ST.unfold_overflow, False, early_check=True),
    _insert_cfg('insert_round:FP16', 'FP16', False),
    _split_cfg('split:2:STRICT', 2, 'STRICT', False),
    _split_cfg('split:3:PEEL', 3, 'PEEL', False),
    _split_cfg('split:2:STRICT:int-factor', 2, 'STRICT', False, as_int=True),
    _unroll_for_cfg('unroll_for:1:STRICT', 1, 'STRICT', False),
    _unroll_for_cfg('unroll_for:2:PEEL', 2, 'PEEL', False),
    _unroll_while_cfg('unroll_while:2', 2, False),
    _inline_cfg('inline:g1', ('g1',), False),
    _inline_cfg('inline:flat', None, False, recursive=False),
]
CFG = {c.name: c for c in CONFIGS}


def _covers_every_aimable_strategy():
    from fpy2.strategies.sites import _SITES
    missing = set(_SITES) - {c.strat for c in CONFIGS if c.strat is not None}
    if missing:
        raise RuntimeError(f'aimable strategies without a configuration: {missing}')


# ----------------------------------------------------------------------------
# One history tree

class Ctx:
    """What is fixed for one original program."""

    def __init__(self, name, src, module):
        self.name = name
        self.src = src
        self.module = module
        self.f0 = module.f
        self.rd0 = G.Reading(self.f0.ast)
        self.texts0 = {p: self.rd0.text(p) for p, _ in self.rd0.stmts}
        self.tok0 = {p: G.tokens(t) for p, t in self.texts0.items()}
        self.all_tok = frozenset().union(*self.tok0.values()) if self.tok0 else frozenset()
        self.cursors0 = {p: StmtCursor(self.f0.ast, G.to_stmt_path(p)) for p, _ in self.rd0.stmts}
        self.unique0 = len(set(self.texts0.values())) == len(self.texts0)


class State:
    __slots__ = ('func', 'rd', 'hist', 'untouched', 'chain')

    def __init__(self, func, rd, hist, untouched, chain):
        self.func = func
        self.rd = rd
        self.hist = hist              # list of [cfgname, wherespec]
        self.untouched = untouched    # original path -> current path (independently tracked)
        self.chain = chain            # reported edits of every step, as tuples


def _where_str(w):
    return w if isinstance(w, str) else json.dumps(w)


class Explorer:
    def __init__(self, r: ShardResult, ctx: Ctx, depth: int, variants=True):
        self.r = r
        self.cx = ctx
        self.depth = depth
        self.variants = variants

    # ---- violations ----------------------------------------------------
    def bad(self, part, cfgname, kind, hist, detail, extra=None):
        sig = {'part': part, 'strategy': cfgname, 'kind': kind}
        if part == 'forward':
            sig['steps'] = len(hist)
        case = {'program': self.cx.name, 'src': self.cx.src, 'history': [list(h) for h in hist],
                'part': part, 'strategy': cfgname, 'kind': kind}
        if extra:
            case.update(extra)
        text = (f'[{part}/{cfgname}/{kind}] program {self.cx.name} history {hist}\n{detail}\n'
                f'--- original program ---\n{self.cx.f0.format()}')
        self.r.violate(sig, case, text)

    # ---- listing ---------------------------------------------------------
    def listing(self, st: State, cfg: Cfg):
        """sites/refusals of cfg in st.func, checked against own candidates.
        Returns (site_keys, site_cursors) or None if the listing is unusable."""
        r, cx = self.r, self.cx
        kw = cfg.list_kw(cx.module)
        r.count('transitions', 2)
        try:
            if cfg.lister is not None:
                ss, rr = cfg.lister(st.func, cx.module), []
            else:
                ss = sites(cfg.strat, st.func, **kw)
                rr = refusals(cfg.strat, st.func, **kw)
        except TransformError as e:
            self.bad('listing', cfg.name, 'listing-raises:' + type(e).__name__, st.hist,
                     f'sites/refusals raised {e!r}\n--- program ---\n{st.func.format()}')
            return None
        except Exception as e:  # noqa: BLE001  -- an analysis failing is not about references: not judged
            r.count('inconclusive')
            r.outcomes[f'listing-error:{cfg.name}:{type(e).__name__}'] += 1
            note = (f'inconclusive: listing {cfg.name} raised {type(e).__name__} '
                    f'(after a {st.hist[-1][0] if st.hist else "no"} step): {str(e)[:120]}')
            if not any(n.startswith(note[:60]) for n in r.notes) and len(r.notes) < 20:
                r.notes.append(note)
            return None
        want_kind = StmtCursor if cfg.kind == 'stmt' else ExprCursor
        if cfg.window > 1:
            want_kind = BlockCursor
        got = cfg.cands(st.rd, cx.module)
        certain = got[2]
        ok = True
        skeys, rkeys = [], []
        for c in ss:
            if not isinstance(c, want_kind) or c.func is not st.func.ast:
                self.bad('listing', cfg.name, 'site-cursor-kind', st.hist,
                         f'site {c!r} is not a {want_kind.__name__} of the listed program')
                return None
        for item in rr:
            c, why = item
            if not isinstance(c, want_kind) or c.func is not st.func.ast:
                self.bad('listing', cfg.name, 'refusal-cursor-kind', st.hist,
                         f'refusal {c!r} is not a {want_kind.__name__} of the listed program')
                return None
            if not isinstance(why, str) or not why.strip():
                self.bad('listing', cfg.name, 'refusal-without-reason', st.hist,
                         f'refusal at {c} has reason {why!r}')
                ok = False
        if cfg.kind == 'stmt':
            if cfg.window > 1:
                for c in ss:
                    if len(c.span) != cfg.window:
                        self.bad('listing', cfg.name, 'match-of-wrong-length', st.hist, f'match {c}')
                        return None
                skeys = [G.block_tuple(c.block_path) + (c.span.start,) for c in ss]
            else:
                skeys = [G.path_tuple(c.path) for c in ss]
            rkeys = [G.path_tuple(c.path) for c, _ in rr]
            cand = list(got[1])
            show = lambda k: str(k)  # noqa: E731
            # the cursor must resolve to the node my walk finds at that path
            for c, k in zip(ss, skeys):
                res = c.resolve()
                if st.rd.by_path.get(k) is not (res[0] if cfg.window > 1 else res):
                    self.bad('listing', cfg.name, 'site-resolves-elsewhere', st.hist, f'site {c} path {k}')
                    ok = False
        else:
            nodes = {id(n): n for n in got[1]}
            skeys = [id(c.resolve()) for c in ss]
            rkeys = [id(c.resolve()) for c, _ in rr]
            cand = list(nodes)
            allx = {}
            for c in list(ss) + [c for c, _ in rr]:
                allx[id(c.resolve())] = c.resolve()
            show = lambda k: (nodes.get(k) or allx.get(k)).format()  # noqa: E731
        if len(set(skeys)) != len(skeys) or len(set(rkeys)) != len(rkeys):
            self.bad('listing', cfg.name, 'duplicate-entry', st.hist,
                     f'sites {[show(k) for k in skeys]} refusals {[show(k) for k in rkeys]}')
            ok = False
        both = set(skeys) & set(rkeys)
        if both:
            self.bad('listing', cfg.name, 'site-and-refusal', st.hist,
                     f'listed both as site and refusal: {[show(k) for k in both]}')
            ok = False
        if certain:
            listed = set(skeys) | set(rkeys)
            missing = [k for k in cand if k not in listed]
            extra = [k for k in listed if k not in set(cand)]
            if missing:
                self.bad('listing', cfg.name, 'candidate-unaccounted', st.hist,
                         f'candidate(s) neither a site nor a refusal: {[show(k) for k in missing]}\n'
                         f'sites={[show(k) for k in skeys]} refusals={[show(k) for k in rkeys]}\n'
                         f'--- program ---\n{st.func.format()}')
                ok = False
            if extra:
                # wider than the documented shape: the statement only asks that every considered
                # point be accounted for, so this is recorded, not judged
                r.count('listed_beyond_documented_shape')
                note = f'note: {cfg.name} lists a point outside the documented candidate shape: {show(extra[0])[:80]}'
                if not any(n.startswith(note[:50]) for n in r.notes) and len(r.notes) < 20:
                    r.notes.append(note)
        else:
            r.count('inconclusive')
            r.outcomes['listing:scope-unreadable'] += 1
        r.outcomes[f'list:{cfg.name}:k={min(len(ss), 4)}{"+" if len(ss) > 4 else ""}'
                   f',ref={min(len(rr), 3)}{"+" if len(rr) > 3 else ""}'] += 1
        if not ok:
            return None
        if cfg.kind == 'stmt':
            spaths = [[k[:-1] + (k[-1] + off,) for off in range(cfg.window)] for k in skeys]
        else:
            spaths = [[G.expr_stmt_tuple(c.path)] for c in ss]
        return skeys, list(ss), spaths

    # ---- one application ---------------------------------------------------
    def selected(self, st, cfg, skeys, scur, w):
        """Indices of the listed sites a `where` selects (documented meaning)."""
        if w == 'none':
            return list(range(len(skeys)))
        kind, j = w
        if kind == 'idx':
            return [j]
        # a listed cursor: a statement cursor takes every site at or beneath it,
        # an expression cursor exactly one
        if cfg.kind == 'expr':
            return [j]
        if cfg.window > 1:
            return [j]          # a window is taken only in full; overlapping ones are handled by the caller
        return [i for i, k in enumerate(skeys) if G.beneath(k, skeys[j])]

    def apply(self, st: State, cfg: Cfg, skeys, scur, spaths, w):
        """Apply cfg at `w`; returns the new State or None.  Judges the step."""
        r, cx = self.r, self.cx
        hist = st.hist + [[cfg.name, _where_str(w)]]
        if w == 'none':
            where = None
        elif w[0] == 'idx':
            where = w[1]
        else:
            where = scur[w[1]]
        r.count('transitions')
        r.count('evaluations')
        expect = None
        if cfg.lister is not None and w == 'none' and not skeys:
            expect = TransformReferenceError       # documented: the pattern matches nothing
        elif cfg.window > 1 and w == 'none' and any(
                a[:-1] == b[:-1] and abs(a[-1] - b[-1]) < cfg.window for a in skeys for b in skeys if a != b):
            expect = TransformDeclined             # documented: overlapping matches cannot both be rewritten
        if expect is not None:
            try:
                cfg.apply(st.func, where, cx.module)
            except expect:
                r.outcomes[f'rule-declines:{expect.__name__}'] += 1
                return None
            except Exception as e:  # noqa: BLE001
                self.bad('where', cfg.name, 'documented-refusal-raises:' + type(e).__name__, hist,
                         f'where={w}: expected {expect.__name__}, got {e!r}\n--- program ---\n{st.func.format()}')
                return None
            self.bad('where', cfg.name, 'documented-refusal-accepted', hist,
                     f'where={w} with matches {skeys}: expected {expect.__name__}\n--- program ---\n{st.func.format()}')
            return None
        try:
            out = cfg.apply(st.func, where, cx.module)
        except Exception as e:  # noqa: BLE001
            # k sites were listed and `where` is in range (or None): the statement says this rewrites
            self.bad('where', cfg.name, f'in-range-{w if w == "none" else w[0]}-raises:' + type(e).__name__, hist,
                     f'{len(skeys)} site(s) listed, where={w} raised {e!r}\n--- program ---\n{st.func.format()}')
            return None
        r.outcomes[f'apply:{cfg.name}:{w if w == "none" else w[0]}'] += 1
        return self.judge_step(st, cfg, skeys, spaths, w, out, hist)

    def judge_step(self, st: State, cfg: Cfg, skeys, spaths, w, out, hist):
        r, cx = self.r, self.cx
        log = out.edits
        if log is None or out.parent is not st.func or log.source is not st.func.ast or log.result is not out.ast:
            self.bad('where', cfg.name, 'no-edit-log', hist, 'result carries no edit log of this step')
            return None
        rd, rd2 = st.rd, G.Reading(out.ast)
        sel = self.selected(st, cfg, skeys, None, w)
        site_stmt = dict(enumerate(spaths))
        edits = [(G.block_tuple(e.block_path), e.index, e.removed, e.inserted) for e in log.edits]
        dirty = {G.path_tuple(p) for p in log.exprs_rewritten}
        spans = [blk + (i,) for blk, idx, rem, _ in edits for i in range(idx, idx + rem)]
        ins_at = [blk + (idx,) for blk, idx, rem, _ in edits if rem == 0]
        good = True

        # every edit lies at or under a selected site
        sel_paths = [q for i in sel for q in site_stmt[i]]
        for blk, idx, rem, ins in edits:
            at = [blk + (i,) for i in range(idx, idx + max(rem, 1))]
            if not all(any(G.beneath(p, q) for q in sel_paths) for p in at):
                self.bad('where', cfg.name, 'edit-outside-selected-site', hist,
                         f'where={w} selects site(s) {sel_paths}; edit block={blk} index={idx} removed={rem} '
                         f'inserted={ins} lies outside\n--- before ---\n{st.func.format()}\n--- after ---\n{out.format()}')
                good = False
        # every selected site is covered by an edit
        for i, q in [(i, q) for i in sel for q in site_stmt[i]]:
            if not (any(G.beneath(q, s) for s in spans) or q in ins_at or q in dirty):
                self.bad('where', cfg.name, 'selected-site-not-in-edit-log', hist,
                         f'where={w}: site {i} at {q} is covered by no reported edit {edits}\n'
                         f'--- before ---\n{st.func.format()}\n--- after ---\n{out.format()}')
                good = False

        # statements the reported edits did not touch
        def touched(p):
            if any(G.beneath(p, s) for s in spans):
                return True
            if p in dirty or any(G.strictly_beneath(d, p) for d in dirty):
                return True      # its expressions, or those of a statement it holds, were rewritten
            for blk, _, _, _ in edits:
                if len(blk) > len(p) and blk[:len(p)] == p:
                    return True      # holds a rewritten block: its text changes
            return False

        counts2 = rd2.text_counts()
        n_untouched = 0
        for p, node in rd.stmts:
            if touched(p):
                continue
            n_untouched += 1
            t = rd.text(p)
            r.count('transitions')
            try:
                img = log.forward(StmtCursor(st.func.ast, G.to_stmt_path(p)))
                res = img.resolve()
            except Exception as e:  # noqa: BLE001
                self.bad('where', cfg.name, 'untouched-does-not-forward', hist,
                         f'statement {p} `{t.splitlines()[0]}` is outside every reported edit {edits} but '
                         f'forwarding it raised {e!r}\n--- before ---\n{st.func.format()}\n--- after ---\n{out.format()}')
                good = False
                break
            ref = G.ref_forward(edits, p)
            if isinstance(img, BlockCursor) or res.format() != t or not res.is_equiv(node) \
                    or ref != ('stmt', G.path_tuple(img.path)):
                got = res.format() if not isinstance(res, list) else '\n'.join(x.format() for x in res)
                self.bad('where', cfg.name, 'untouched-statement-changed', hist,
                         f'statement {p} is outside every reported edit {edits} (where={w}, selected {sel_paths}) '
                         f'but its image differs\n--- was ---\n{t}\n--- image {img} ---\n{got}\n'
                         f'--- before ---\n{st.func.format()}\n--- after ---\n{out.format()}')
                good = False
                break
        if not good:
            return None

        # a statement an edit consumed forwards to exactly what replaced it
        for sp in spans:
            r.count('transitions')
            ref = G.ref_chain([edits], sp)
            try:
                img = log.forward(StmtCursor(st.func.ast, G.to_stmt_path(sp)))
            except TransformReferenceError:
                img = None
            except Exception as e:  # noqa: BLE001
                self.bad('where', cfg.name, 'consumed-forward-raises:' + type(e).__name__, hist,
                         f'forwarding consumed statement {sp} raised {e!r}; edits {edits}')
                good = False
                continue
            if img is None:
                got = ('raise',)
            elif isinstance(img, BlockCursor):
                got = ('region', G.block_tuple(img.block_path), img.span.start, len(img.span))
            else:
                got = ('stmt', G.path_tuple(img.path))
            if got[0] != 'raise' and ref[0] != 'raise' and got != ref:
                self.bad('where', cfg.name, 'consumed-statement-image-differs-from-edit', hist,
                         f'statement {sp} was consumed by a reported edit {edits}; replaying the edits puts its '
                         f'replacement at {ref}, forward gave {got}\n--- before ---\n{st.func.format()}\n'
                         f'--- after ---\n{out.format()}')
                good = False
        if not good:
            return None

        # the selected sites were rewritten, the unselected were not
        def image_text(q):
            """Text of what stands where statement q stood, by the reference model."""
            where_to = G.ref_forward(edits, q)
            if where_to[0] == 'stmt':
                node = rd2.by_path.get(where_to[1])
                return None if node is None else rd2.text(where_to[1])
            if where_to[0] == 'region':
                _, blk, start, n = where_to
                parts = []
                for off in range(n):
                    if blk + (start + off,) not in rd2.by_path:
                        return None
                    parts.append(rd2.text(blk + (start + off,)))
                return '\n'.join(parts)
            return None

        if cfg.kind == 'stmt':
            wraps = cfg.strat is ST.unroll_while     # keeps the loop verbatim, inside `if cond:`
            loops = cfg.strat in (ST.unroll_while, ST.unroll_for, ST.split)

            def peels(reading, cond):
                # every peel of a `while` is one more `if <cond>:` in front of it
                return sum(1 for _, s in reading.stmts
                           if isinstance(s, A.If1Stmt) and s.cond.format() == cond)

            for i, q in enumerate(skeys):
                t = '\n'.join(rd.text(x) for x in site_stmt[i])
                under_sel = any(G.strictly_beneath(q, s) for s in sel_paths)
                holds_sel = any(G.strictly_beneath(s, q) for s in sel_paths)
                cond = rd.by_path[q].cond.format() if wraps else None
                if i in sel and not under_sel:
                    # what stands in its place must differ from it
                    now = image_text(q)
                    if now is None or now == t:
                        self.bad('where', cfg.name, 'selected-site-left-unrewritten', hist,
                                 f'where={w}: site {i} at {q} was selected, but what stands in its place is '
                                 f'{"missing" if now is None else "the same statement"}\n--- site ---\n{t}\n'
                                 f'--- edits ---\n{edits}\n--- after ---\n{out.format()}')
                        good = False
                elif i in sel:
                    # selected, inside another selected site (loops only): its copies must be rewritten
                    if not loops:
                        r.count('rewritten_check_skipped')
                    elif not wraps and not holds_sel and counts2.get(t, 0) != 0:
                        self.bad('where', cfg.name, 'nested-selected-site-left-unrewritten', hist,
                                 f'where={w}: loop {i} at {q}, nested in another selected loop, still occurs '
                                 f'verbatim\n--- site ---\n{t}\n--- after ---\n{out.format()}')
                        good = False
                    elif wraps and peels(rd2, cond) <= peels(rd, cond):
                        self.bad('where', cfg.name, 'nested-selected-site-left-unrewritten', hist,
                                 f'where={w}: loop {i} at {q}, nested in another selected loop, gained no '
                                 f'`if {cond}:` peel\n--- after ---\n{out.format()}')
                        good = False
                elif under_sel and not holds_sel and loops:
                    # not selected, but copied along with the selected loop around it
                    if not wraps and counts2.get(t, 0) == 0:
                        self.bad('where', cfg.name, 'unselected-nested-site-rewritten', hist,
                                 f'where={w} selects {sel_paths}; listed site {i} at {q} nested in it was not '
                                 f'selected but no longer occurs verbatim\n--- site ---\n{t}\n--- after ---\n{out.format()}')
                        good = False
                    elif wraps and peels(rd, cond) == 0 and peels(rd2, cond) != 0:
                        self.bad('where', cfg.name, 'unselected-nested-site-rewritten', hist,
                                 f'where={w} selects {sel_paths}; loop {i} at {q} nested in it was not selected '
                                 f'but was peeled\n--- site ---\n{t}\n--- after ---\n{out.format()}')
                        good = False
        else:
            c1 = cfg.cands(rd, cx.module)[1]
            c2 = cfg.cands(rd2, cx.module)[1]
            ids = {skeys[i] for i in sel}
            keep = []
            wild = 0
            for n in c1:
                if id(n) in ids:
                    continue
                if any(id(x) in ids for x in G.all_exprs(n)):
                    wild += 1
                else:
                    keep.append(n.format())
            have = Counter(n.format() for n in c2)
            want = Counter(keep)
            lost = want - have
            flat = cfg.name == 'inline:flat'
            if lost or (not flat and len(c2) != len(c1) - len(sel)):
                self.bad('where', cfg.name, 'wrong-expression-site-rewritten', hist,
                         f'where={w} selects {[n.format() for n in c1 if id(n) in ids]}; expected the other '
                         f'{len(keep)}(+{wild} enclosing) candidates to remain, missing {dict(lost)}; '
                         f'candidates before {len(c1)}, after {len(c2)}\n'
                         f'--- before ---\n{st.func.format()}\n--- after ---\n{out.format()}')
                good = False
        if not good:
            return None

        # independent tracking of never-touched original statements by their unique text
        unt = {}
        for p0, p in st.untouched.items():
            if touched(p):
                continue
            t = cx.texts0[p0]
            where_now = [q for q, _ in rd2.stmts if rd2.text(q) == t]
            if len(where_now) != 1:
                self.bad('where', cfg.name, 'untouched-statement-lost', hist,
                         f'original statement {p0} was touched by no reported edit but occurs '
                         f'{len(where_now)} times afterwards\n{t}\n--- after ---\n{out.format()}')
                return None
            unt[p0] = where_now[0]
        new = State(out, rd2, hist, unt, st.chain + [edits])
        changed = bool(edits) or bool(dirty)
        if changed:
            r.count('steps_changing_program')
        return new

    # ---- forwarding all original cursors -----------------------------------
    def forward_all(self, st: State):
        r, cx = self.r, self.cx
        moved = False
        last = st.hist[-1][0]
        for p0, c0 in cx.cursors0.items():
            r.count('transitions')
            r.count('cursor_forwards')
            t0 = cx.texts0[p0]
            try:
                img = st.func.forward(c0)
                res = img.resolve()
            except TransformReferenceError as e:
                if p0 in st.untouched:
                    self.bad('forward', last, 'untouched-cursor-raises', st.hist,
                             f'cursor on {p0} `{t0.splitlines()[0]}`: no reported edit touched it, yet forward raised {e!r}'
                             f'\n--- final ---\n{st.func.format()}', {'cursor': list(p0)})
                r.outcomes['fwd:reference-error'] += 1
                if G.ref_chain(st.chain, p0)[0] != 'raise':
                    r.outcomes['fwd:raises-where-replay-resolves'] += 1
                moved = True
                continue
            except Exception as e:  # noqa: BLE001
                self.bad('forward', last, 'forward-raises:' + type(e).__name__, st.hist,
                         f'cursor on {p0} `{t0.splitlines()[0]}`: forward raised {e!r}\n--- final ---\n{st.func.format()}',
                         {'cursor': list(p0)})
                continue
            if img.func is not st.func.ast:
                self.bad('forward', last, 'image-of-other-program', st.hist,
                         f'cursor on {p0}: the image {img} does not belong to the final program', {'cursor': list(p0)})
                continue
            if isinstance(img, BlockCursor):
                text = '\n'.join(s.format() for s in res)
                ipath = None
                got = ('region', G.block_tuple(img.block_path), img.span.start, len(img.span))
            else:
                text = res.format()
                ipath = G.path_tuple(img.path)
                got = ('stmt', ipath)
            ref = G.ref_chain(st.chain, p0)
            if ref[0] == 'raise':
                r.outcomes['fwd:resolves-where-replay-raises'] += 1
            elif ref != got:
                self.bad('forward', last, 'image-differs-from-replay-of-reported-edits', st.hist,
                         f'cursor on {p0} `{t0.splitlines()[0]}`: replaying the reported edits {st.chain} gives {ref}, '
                         f'forward gave {got}\n--- image ---\n{text}\n--- final ---\n{st.func.format()}',
                         {'cursor': list(p0)})
                continue
            if p0 in st.untouched:
                want = st.untouched[p0]
                if ipath != want or text != t0 or not res.is_equiv(cx.rd0.by_path[p0]):
                    self.bad('forward', last, 'untouched-cursor-misresolves', st.hist,
                             f'cursor on {p0}: no reported edit touched it; it sits at {want} in the final program '
                             f'but forward gave {img}\n--- was ---\n{t0}\n--- image ---\n{text}\n--- final ---\n{st.func.format()}',
                             {'cursor': list(p0)})
                    continue
                if ipath != p0:
                    moved = True
                    r.outcomes['fwd:untouched-shifted'] += 1
                else:
                    r.outcomes['fwd:untouched-in-place'] += 1
                continue
            moved = True
            tk = G.tokens(text)
            own = cx.tok0[p0]
            if not own <= tk:
                self.bad('forward', last, 'image-lacks-own-marker', st.hist,
                         f'cursor on {p0}: image {img} lacks marker(s) {sorted(own - tk)} of its statement\n'
                         f'--- was ---\n{t0}\n--- image ---\n{text}\n--- final ---\n{st.func.format()}',
                         {'cursor': list(p0)})
                continue
            foreign = (tk & cx.all_tok) - own
            if any(CFG[h[0]].merges for h in st.hist):
                foreign = frozenset()      # a many-to-one rule legitimately joins statements
            if foreign:
                self.bad('forward', last, 'image-holds-unrelated-statement', st.hist,
                         f'cursor on {p0}: image {img} holds marker(s) {sorted(foreign)} of unrelated statements\n'
                         f'--- was ---\n{t0}\n--- image ---\n{text}\n--- final ---\n{st.func.format()}',
                         {'cursor': list(p0)})
                continue
            r.outcomes['fwd:touched->' + ('region' if isinstance(img, BlockCursor) else 'stmt')] += 1
        return moved

    # ---- exploration ---------------------------------------------------------
    def out_of_range(self, st: State, cfg: Cfg, k: int, js):
        r, cx = self.r, self.cx
        for j in js:
            r.count('transitions')
            r.count('evaluations')
            hist = st.hist + [[cfg.name, json.dumps(['idx', j])]]
            try:
                cfg.apply(st.func, j, cx.module)
            except TransformReferenceError:
                r.outcomes['oob:reference-error'] += 1
                continue
            except Exception as e:  # noqa: BLE001
                self.bad('where', cfg.name, 'out-of-range-raises:' + type(e).__name__, hist,
                         f'{k} site(s) listed; where={j} raised {e!r} instead of TransformReferenceError\n'
                         f'--- program ---\n{st.func.format()}', {'oob': j})
                continue
            self.bad('where', cfg.name, 'out-of-range-accepted', hist,
                     f'{k} site(s) listed; where={j} was accepted\n--- program ---\n{st.func.format()}', {'oob': j})

    def after_step(self, new: State):
        """Book-keeping + the forward check for a freshly reached history."""
        r = self.r
        r.count('states')
        log = new.func.edits
        moved = self.forward_all(new)
        if log.edits or log.exprs_rewritten:
            if moved:
                r.count('nontrivial')
        else:
            r.outcomes['step:no-op'] += 1

    def compare_twin(self, st, cfg, skeys, scur, j, by_cursor: State, by_index: State):
        """where=sites[j] == where=j when the cursor selects only site j."""
        r = self.r
        w = ('cur', j)
        if self.selected(st, cfg, skeys, scur, w) != [j]:
            r.outcomes['cursor-takes-nested-sites'] += 1
            return
        r.count('transitions')
        if not by_cursor.func.ast.is_equiv(by_index.func.ast) or by_cursor.func.format() != by_index.func.format():
            self.bad('where', cfg.name, 'cursor-and-index-disagree', st.hist + [[cfg.name, _where_str(w)]],
                     f'where=sites[{j}] and where={j} give different programs\n'
                     f'--- by cursor ---\n{by_cursor.func.format()}\n--- by index ---\n{by_index.func.format()}')

    def expand(self, st: State, level: int):
        first = level == 0
        for cfg in CONFIGS:
            if not cfg.core and not (first and self.variants):
                continue
            got = self.listing(st, cfg)
            if got is None:
                continue
            skeys, scur, spaths = got
            k = len(skeys)
            self.out_of_range(st, cfg, k, [k, k + 1, -1] if first else [k])
            ws = [('idx', j) for j in range(k)] + ['none']
            if first:
                ws += [('cur', j) for j in range(k)]
            results = {}
            for w in ws:
                new = self.apply(st, cfg, skeys, scur, spaths, w)
                if new is None:
                    continue
                results[w] = new
                self.after_step(new)
            for w, new in results.items():
                if w != 'none' and w[0] == 'cur' and ('idx', w[1]) in results:
                    self.compare_twin(st, cfg, skeys, scur, w[1], new, results[('idx', w[1])])
            if level + 1 < self.depth and cfg.core:
                for w, new in results.items():
                    if w != 'none' and w[0] == 'cur':
                        continue
                    if w == 'none' and k <= 1:
                        continue          # k=0: nothing changed; k=1: same program as where=0
                    self.expand(new, level + 1)

    def follow(self, st: State, path, final_cfg=None):
        """Replay: exactly one history, with every check on the way."""
        for cfgname, wstr in path:
            cfg = CFG[cfgname]
            got = self.listing(st, cfg)
            if got is None:
                return
            skeys, scur, spaths = got
            k = len(skeys)
            w = 'none' if wstr == 'none' else tuple(json.loads(wstr))
            if w != 'none' and not (0 <= w[1] < k):
                self.out_of_range(st, cfg, k, [w[1]])
                return
            new = self.apply(st, cfg, skeys, scur, spaths, w)
            if new is None:
                return
            self.after_step(new)
            if w != 'none' and w[0] == 'cur':
                twin = self.apply(st, cfg, skeys, scur, spaths, ('idx', w[1]))
                if twin is not None:
                    self.compare_twin(st, cfg, skeys, scur, w[1], new, twin)
            st = new
        if final_cfg is not None:
            self.listing(st, CFG[final_cfg])


def explore_program(r: ShardResult, name: str, src: str, depth: int, variants=True, path=None, final_cfg=None):
    try:
        module = load_source(src)
    except Exception as e:  # noqa: BLE001
        r.count('rejected_by_frontend')
        if len(r.notes) < 10:
            r.notes.append(f'frontend rejected {name}: {e!r}'[:300])
        return
    cx = Ctx(name, src, module)
    if not cx.unique0:
        raise RuntimeError(f'generator bug: statements of {name} are not textually unique')
    r.count('programs')
    r.count('states')
    root = State(cx.f0, cx.rd0, [], {p: p for p in cx.texts0}, [])
    ex = Explorer(r, cx, depth, variants)
    if path is not None:
        ex.follow(root, path, final_cfg)
    else:
        ex.expand(root, 0)


# ----------------------------------------------------------------------------

QUICK_ALPHABET = ('RfU', 'Rx', 'C1')
DEEP_ALPHABET = ('RfU', 'Rx', 'C1')
FULL_ALPHABET = ('RfU', 'Rr', 'Rx', 'Rs', 'R2', 'C1', 'C2', 'C11', 'Cn', 'M2')   # A, Rn, Rc, C3: fixed leaves only
K_SKELETONS = tuple(k for k, _, _ in G.SKELETONS if k[0] in 'KHPS')
D_SKELETONS = tuple(k for k, _, _ in G.SKELETONS if k.startswith('D'))
EXTRA_PER_SEED = 8


def _programs(skeletons, alphabet):
    only = os.environ.get('C19_ONLY')          # development aid; a run that sets it reports a CAP
    if only:
        skeletons = [k for k in skeletons if k in only.split(',')]
    return [(name, G.render_program(units, ret)) for name, units, ret in
            G.enumerate_programs(skeletons, alphabet)]


class Check(BaseCheck):
    pid = 'C19'
    rule = ('every program of the grammar (14 skeletons -- 8 loop nests, 2 with arithmetic where insert_round '
            'cannot put a block, 2 with several user-rule matches at different depths, 2 with indexed assignments '
            'holding call / product / exact-arithmetic sites in their indices and their value -- x every assignment of '
            'their 1-2 leaf slots from the tier alphabet; each statement uniquely marked) x every history of '
            'rewrites (10 aimable strategies + 2 user rewrite rules in the history alphabet x where in '
            '{0..k-1, None}; on the original program also where=sites[j], where in {k,k+1,-1}, 10 parameter '
            'variants and 2 more user rules) up to the tier depth, each step of '
            'which changes the program except possibly the last; listing, where and forward oracles from an '
            'independent reading of the AST.  nontrivial = histories whose last step changed the program and '
            'after which at least one original cursor moved, became a region or raised')
    assumptions = [
        'statement text (Ast.format) and is_equiv are faithful observations of a statement',
        'candidate shapes are the documented ones: every for / while loop, every FPy call (filtered by funcs), '
        'every `with C:` block whose body is entirely x = fp.round(v) (fp.cast(v) too for unfold_special and '
        'rescale_fixed) or a returned one, every + - * abs neg round cast whose innermost context is fp.REAL',
        'a listing (sites/refusals) that raises a non-Transform exception (an analysis KeyError) is counted '
        'inconclusive, not judged; a rewrite that raises on a listed, in-range site is judged',
        'a where=cursor on a statement site selects every listed site at or beneath it (documented)',
    ]
    trusted_base = ['fpy2 front end (parser, syntax check)', 'Ast.format / is_equiv', 'mc.engine.loader']

    def __init__(self, tier, seed):
        super().__init__(tier, seed)
        self.depth = 2
        self.deep_depth = 3

    def bounds(self):
        if self.tier == 'quick':
            return {'skeletons': list(K_SKELETONS), 'alphabet': list(QUICK_ALPHABET),
                    'programs_core': len(_programs(K_SKELETONS, QUICK_ALPHABET)),
                    'extra_programs_rotated_by_seed': EXTRA_PER_SEED, 'history_depth': self.depth,
                    'strategy_configs': len(CONFIGS), 'history_alphabet': [c.name for c in CONFIGS if c.core]}
        return {'skeletons': list(K_SKELETONS), 'alphabet': list(FULL_ALPHABET),
                'programs': len(_programs(K_SKELETONS, FULL_ALPHABET)), 'history_depth': self.depth,
                'deep_skeletons': list(D_SKELETONS), 'deep_alphabet': list(DEEP_ALPHABET),
                'deep_programs': len(D_SKELETONS) * len(DEEP_ALPHABET) ** 2,
                'deep_history_depth': self.deep_depth, 'strategy_configs': len(CONFIGS),
                'history_alphabet': [c.name for c in CONFIGS if c.core]}

    def selfcheck(self):
        _covers_every_aimable_strategy()
        # marker tokens: a literal, a rounding definition, and a use that is neither
        tk = G.tokens('with fp.FP16:\n    r7000002 = fp.round(a)\na = (r7000002 + 7000003)\nt7000009 = 1')
        if tk != frozenset({'D7000002', 'L7000003'}):
            raise RuntimeError(f'marker tokenizer broken: {sorted(tk)}')

    def shards(self):
        out = []
        if self.tier == 'quick':
            core = _programs(K_SKELETONS, QUICK_ALPHABET)
            names = {n for n, _ in core}
            rest = [p for p in _programs(K_SKELETONS, FULL_ALPHABET) if p[0] not in names]
            extra = [rest[(self.seed * EXTRA_PER_SEED + i) * 89 % len(rest)] for i in range(EXTRA_PER_SEED)] \
                if rest else []
            progs = core + extra
            for i in range(0, len(progs), 2):
                out.append(('hist', self.depth, progs[i:i + 2]))
            return out
        for p in _programs(D_SKELETONS, DEEP_ALPHABET):
            out.append(('hist', self.deep_depth, [p]))
        full = _programs(K_SKELETONS, FULL_ALPHABET)
        for i in range(0, len(full), 4):
            out.append(('hist', self.depth, full[i:i + 4]))
        return out

    def run_shard(self, shard):
        _, depth, progs = shard
        r = ShardResult()
        for name, src in progs:
            explore_program(r, name, src, depth)
        if os.environ.get('C19_ONLY'):
            r.notes.append('CAP development filter C19_ONLY=' + os.environ['C19_ONLY'])
        if r.counts.get('programs'):
            r.sample({'program': progs[0][0], 'depth': depth, 'states': r.counts['states'],
                      'source': progs[0][1][progs[0][1].index('@fp.fpy(ctx'):]}, limit=1)
        return r

    def replay(self, case):
        r = ShardResult()
        path = [tuple(h) for h in case['history']]
        explore_program(r, case['program'], case['src'], len(path), path=path,
                        final_cfg=case['strategy'] if case['part'] == 'listing' else None)
        for v in r.violations:
            if v.signature.get('kind') == case['kind'] and v.signature.get('strategy') == case['strategy'] \
                    and v.signature.get('part') == case['part']:
                return True, v.detail
        return False, f'no {case["part"]}/{case["strategy"]}/{case["kind"]} violation on this case ' \
                      f'({len(r.violations)} other violation(s))'
