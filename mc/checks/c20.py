"""
C20 -- Library decompositions are exact.

Space
  contexts   MPFloatContext(p) p = 2..6, MPSFloatContext(p, emin), small IEEEContext(es, nbits)
             (also with SATURATE for the ideal_* family), fixed point (MPFixed, Fixed, SMFixed; ideal_* and the
             decompositions only)
  modes      all 8 for ideal_2sum ideal_2mul ideal_fma priest_2sum fast_2mul and the decompositions;
             RNE and RNA for fast_2sum classic_2sum classic_2mul classic_2fma veltkamp_split (their docstrings /
             the literature require rounding to nearest)
  operands   EVERY pair of members of the format in the exponent window [-3, 3] (bounded formats: every
             finite member down to the smallest subnormal) including both zeros; triples for the FMA variants:
             unbounded formats use the scale-reduced cube (a in {+-0} u [1,2), b in {+-0} u +-[1,2), c anywhere
             in the window -- a*b+c commutes with scaling a against b, with scaling (b, c) together and with
             negating (a, b); at the largest precision of a tier b > 0 only, a*b+c being odd in (b, c)), small
             bounded formats the full cube, larger bounded formats the declared slab
             a in {+-0} u [1,2), b in {+-0} u [1,2) u +-(lowest normal binade), c any member;
             the product variants additionally on the scale-reduced square a in [1,2), b in +-[1,2) (and zeros)
             at the next larger precisions (quick p = 5, 6; thorough p = 7, 8);
             veltkamp_split(x, s) for every member x and every 1 <= s <= p-1;
             split(x, n) n in [-6, 6], modf, frexp, ldexp(x, n) n in [-8, 8] for every member in the window
             [-8, 8], +-0, +-inf, NaN and Python floats carrying three more bits than the format.
  clamping   (both tiers, decompositions only: split modf frexp ldexp, all four under every listed mode)
             bounded contexts whose overflow CLAMPS to the largest finite value instead of producing an infinity:
             IEEE(2,5), IEEE(3,6), EFloat(es=2, nbits=5, no inf, nan MAX_VAL), MPBFloat(p=3, emin=-2, maxval=5/2)
             with every member, and IEEE(es=2, nbits=13) (p = 11, maxval ~ 3.998, subnormals whose integer
             exponent -5..-10 exceeds maxval) with a thinned operand set (per binade the members with <= 3
             significant digits and the all-ones members, the first/last extra-digit Python floats);
             each under OVERFLOW x {RTZ, RTP, RTN} and SATURATE x {RNE, RTZ, RTP, RTN};
             plus the wider Python operands +-100.5 whose split parts exceed maxval.
             A part that is not a member must be refused, never clamped to +-maxval.
  Operands are obtained the documented way: `ctx.round(<Python number>)` or plain Python numbers.

Oracle (mc.model.rounding, exact Fractions)
  s + t (+ u) == a o b (+ c) exactly and s == the oracle's single rounding of the exact result (priest_2sum:
  one of the two neighbours, its docstring says "faithfully rounded"), judged ONLY where the stated
  preconditions hold, each evaluated exactly in the model; everything else is counted `precondition_false`.
  split/modf: the documented digit placement and hi + lo == x; frexp: m * 2^e == x only; ldexp: the oracle's
  rounding of x * 2^n, once.  A decomposition whose documented components are not members of the context may
  refuse with ValueError (the exactness check of `round(..., exact=True)`); a returned value must be right.
"""

from __future__ import annotations

from fractions import Fraction

from ..engine.runner import BaseCheck, ShardResult
from ..engine.adapt import to_x
from ..model.xreal import X
from ..model import rounding as R
from .c01 import Config, MODES

from fpy2.libraries import eft, core

Q = Fraction
NEAREST = ('RNE', 'RNA')
ALL = tuple(MODES)

# name -> arity, exact operation, modes claimed, context kinds claimed, minimal precision, rough cost (ms/call)
FNS = {
    'ideal_2sum':   dict(ar=2, op='add', modes=ALL, kinds=('float', 'fixed'), ideal=True, cost=0.12),
    'fast_2sum':    dict(ar=2, op='add', modes=NEAREST, kinds=('float',), ordered=True, cost=0.45),
    'classic_2sum': dict(ar=2, op='add', modes=NEAREST, kinds=('float',), headroom='sum', cost=0.28),
    'priest_2sum':  dict(ar=2, op='add', modes=ALL, kinds=('float',), faithful=True, cost=0.32),
    'ideal_2mul':   dict(ar=2, op='mul', modes=ALL, kinds=('float', 'fixed'), ideal=True, cost=0.12),
    'classic_2mul': dict(ar=2, op='mul', modes=NEAREST, kinds=('float',), minp=4, headroom='split', cost=1.1),
    'fast_2mul':    dict(ar=2, op='mul', modes=ALL, kinds=('float',), cost=0.13),
    'ideal_fma':    dict(ar=3, op='fma', modes=ALL, kinds=('float', 'fixed'), ideal=True, cost=0.2),
    'classic_2fma': dict(ar=3, op='fma', modes=NEAREST, kinds=('float',), minp=5, headroom='fma', cost=1.5),
}
FN_ORDER = list(FNS)
SPLIT_NS = list(range(-6, 7))
LDEXP_NS = list(range(-8, 9))
SPECIAL_TEXT = {'+0': 0.0, '-0': -0.0, '+inf': float('inf'), '-inf': float('-inf'), 'nan': float('nan')}
SPECIAL_X = {'+0': X.zero(False), '-0': X.zero(True), '+inf': X.inf(False), '-inf': X.inf(True), 'nan': X.nan()}


# ---------------------------------------------------------------------------------------------------
# the context axis

class Entry:
    """one context configuration (minus the rounding mode) and what is run under it"""

    def __init__(self, cfg: Config, ovf='OVERFLOW', only_ideal=False, probe=0, pairs=True, triples=True, wide_modes=ALL,
                 fma_modes=ALL, fma_nearest=NEAREST, half_b=False, dec_only=False, dec_modes=ALL, thin=False):
        self.cfg = cfg
        self.ovf = ovf
        self.only_ideal = only_ideal      # run only the ideal_* family (and the decompositions)
        self.probe = probe                # > 0: also run statically precondition-false cells (p <= probe), unjudged
        self.pairs = pairs                # True: every pair; 'mul': only the product variants, on the
        #                                   scale-reduced square a in {+-0} u [1,2), b in {+-0} u +-[1,2)
        #                                   (a*b commutes with scaling either operand in an unbounded format)
        self.wide_modes = wide_modes      # modes under which the all-mode two-operand functions are run
        self.fma_modes = fma_modes        # modes under which ideal_fma is run
        self.fma_nearest = fma_nearest    # modes under which classic_2fma is run
        self.half_b = half_b              # triples: b > 0 only (a*b+c is odd in (b, c))
        self.triples = triples            # run the three-operand functions
        self.dec = triples                # run veltkamp_split and the decompositions (off for the product-only entries)
        self.dec_only = dec_only          # run ONLY split/modf/frexp/ldexp, all four under every mode of `dec_modes`
        self.dec_modes = dec_modes        #   (the clamping-overflow entries)
        self.thin = thin                  # decomposition operands: per binade the members with <= 3 significant
        #                                   digits and the all-ones members, a few extra-digit Python floats

    def text(self):
        return f'{self.cfg.text()}/{self.ovf}'


FOUR = ('RNE', 'RTZ', 'RTP', 'RTN')


def entries(tier: str, seed: int = 0) -> list[Entry]:
    """quick: a complete core that is the same for every seed; the seed only picks one extra mode for the
    entries that run a mode subset (and the `extra` shard)"""
    quick = tier == 'quick'
    rot = MODES[seed % 8]
    out = []
    if quick:
        for p in (2, 3, 4):
            out.append(Entry(Config('MPFloat', {'p': p}), probe=3))
        out.append(Entry(Config('MPFloat', {'p': 5}), pairs='mul', half_b=True, fma_modes=FOUR, fma_nearest=('RNE',)))
        out.append(Entry(Config('MPFloat', {'p': 6}), pairs='mul', triples=False))
        five = tuple(dict.fromkeys(FOUR + (rot,)))
        for p, emin in ((2, -2), (3, -2)):
            out.append(Entry(Config('MPSFloat', {'p': p, 'emin': emin}), fma_modes=five))
        out.append(Entry(Config('MPSFloat', {'p': 4, 'emin': -2}), wide_modes=five, fma_modes=five))
        for es, nbits in ((2, 5), (3, 6)):
            out.append(Entry(Config('IEEE', {'es': es, 'nbits': nbits}), fma_modes=five))
    else:
        for p in (2, 3, 4, 5):
            out.append(Entry(Config('MPFloat', {'p': p}), probe=4))
        out.append(Entry(Config('MPFloat', {'p': 6}), half_b=True, wide_modes=FOUR, fma_modes=FOUR, fma_nearest=('RNE',)))
        for p in (7, 8):
            out.append(Entry(Config('MPFloat', {'p': p}), pairs='mul', triples=False))
        for p, emin in ((2, -2), (3, -2), (4, -2), (3, -5), (4, -5)):
            out.append(Entry(Config('MPSFloat', {'p': p, 'emin': emin})))
        out.append(Entry(Config('MPSFloat', {'p': 5, 'emin': -2}), wide_modes=FOUR, fma_modes=FOUR))
        for es, nbits in ((2, 5), (3, 6), (3, 7), (4, 6), (2, 7), (4, 8)):
            out.append(Entry(Config('IEEE', {'es': es, 'nbits': nbits})))
        out.append(Entry(Config('IEEE', {'es': 3, 'nbits': 8}), wide_modes=FOUR, fma_modes=FOUR))
    out.append(Entry(Config('IEEE', {'es': 3, 'nbits': 6}), ovf='SATURATE', only_ideal=True))
    out.append(Entry(Config('MPFixed', {'nmin': -3}), only_ideal=True))
    for ovf in ('OVERFLOW', 'SATURATE', 'WRAP'):
        out.append(Entry(Config('Fixed', {'signed': True, 'scale': -2, 'nbits': 5}), ovf=ovf, only_ideal=True))
    out.append(Entry(Config('SMFixed', {'scale': -1, 'nbits': 4}), ovf='SATURATE', only_ideal=True))
    out.extend(clamp_entries())
    return out


CLAMP_DIRECTED = ('RTZ', 'RTP', 'RTN')


def clamp_entries() -> list[Entry]:
    """bounded contexts whose overflow CLAMPS to the largest finite value (SATURATE under any mode; OVERFLOW under
    RTZ, RTP for negatives, RTN for positives): a decomposition part that exceeds maxval (the integer exponent of
    a subnormal under es=2/p=11, a split part of a wider Python operand) must be refused, never clamped.
    Decompositions only, all four primitives under every listed mode, both tiers."""
    cfgs = [(Config('IEEE', {'es': 2, 'nbits': 5}), False),
            (Config('IEEE', {'es': 3, 'nbits': 6}), False),
            (Config('EFloat', {'es': 2, 'nbits': 5, 'inf': False, 'nan_kind': 'MAX_VAL', 'eoffset': 0}), False),
            (Config('MPBFloat', {'p': 3, 'emin': -2, 'maxval': Q(5, 2)}), False),
            (Config('IEEE', {'es': 2, 'nbits': 13}), True)]
    out = []
    for cfg, thin in cfgs:
        out.append(Entry(cfg, ovf='OVERFLOW', dec_only=True, dec_modes=CLAMP_DIRECTED, thin=thin))
        out.append(Entry(cfg, ovf='SATURATE', dec_only=True, dec_modes=('RNE',) + CLAMP_DIRECTED, thin=thin))
    return out


def parse_params(params: dict) -> dict:
    P = {}
    for k, v in params.items():
        if v in ('True', 'False'):
            P[k] = v == 'True'
        elif v == 'None':
            P[k] = None
        else:
            try:
                P[k] = Fraction(v) if '/' in v else int(v)
            except ValueError:
                P[k] = v                # a name (EFloat nan_kind)
    return P


# ---------------------------------------------------------------------------------------------------
# members of a format inside an exponent window (model side only)

def float_members(spec: R.Spec, lowe: int, hie: int) -> list[Fraction]:
    """positive members with floor(log2 v) in [lowe, hie]"""
    out = []
    for e in range(lowe, hie + 1):
        k = spec.quantum_exp(e, None)
        if k > e:
            continue
        q = Q(2) ** k
        v = Q(2) ** e
        top = Q(2) ** (e + 1)
        while v < top:
            out.append(v)
            v += q
    return out


def operand_values(spec: R.Spec, wide: bool) -> list[Fraction]:
    """non-zero members (both signs) of the operand window; `wide` = the window of the decompositions"""
    if spec.kind == 'fixed':
        u = Q(2) ** (spec.nmin + 1)
        if spec.maxpos is not None:
            lo, hi = int(spec.maxneg / u), int(spec.maxpos / u)
        else:
            lo, hi = (-40, 40) if wide else (-32, 32)
        vals = [k * u for k in range(lo, hi + 1) if k != 0]
    else:
        lowe = -8 if wide else -3
        hie = 8 if wide else 3
        if spec.emin is not None:
            lowe = spec.emin - spec.p + 1
        if spec.maxpos is not None:
            hie = R.ilog2(max(spec.maxpos, -spec.maxneg))
        pos = float_members(spec, lowe, hie)
        vals = [-v for v in reversed(pos)] + pos
    return [v for v in vals if R.is_member(spec, X.fin(v))]


def binade(spec: R.Spec, vals, e: int):
    return [v for v in vals if v > 0 and R.ilog2(v) == e]


def exact_of(op: str, qs) -> Fraction:
    if op == 'add':
        return qs[0] + qs[1]
    if op == 'mul':
        return qs[0] * qs[1]
    return qs[0] * qs[1] + qs[2]


def xq(q: Fraction) -> X:
    return X.fin(q) if q != 0 else X.zero(False)


def text_of(x: X) -> str:
    if x.isnan:
        return 'nan'
    if x.isinf:
        return '-inf' if x.s else '+inf'
    if x.q == 0:
        return '-0' if x.s else '+0'
    return str(x.q)


def digits(q: Fraction) -> int:
    """number of significant binary digits of a dyadic rational"""
    if q == 0:
        return 0
    n = abs(q.numerator)
    return (n // (n & -n)).bit_length()


# ---------------------------------------------------------------------------------------------------

class Env:
    """a live context + its model"""

    def __init__(self, entry: Entry, mode: str):
        self.entry = entry
        self.cfg = entry.cfg
        self.mode = mode
        self.ovf = entry.ovf
        self.ctx, self.spec = entry.cfg.build(mode, entry.ovf)
        self.bounded = self.spec.maxpos is not None
        self._objs: dict = {}

    def obj(self, text: str):
        """operand text -> (python object handed to the library, X denotation).  Members and specials are
        produced by rounding a Python number under the context; 'py:' operands stay Python numbers."""
        o = self._objs.get(text)
        if o is not None:
            return o
        if text in SPECIAL_TEXT:
            v = self.ctx.round(SPECIAL_TEXT[text])        # may raise: not a member of this format
            x = SPECIAL_X[text]
            if not to_x(v).same(x):
                raise ValueError(f'{text} is not a member')
        elif text.startswith('py:'):
            q = Fraction(text[3:])
            v = int(q) if q.denominator == 1 else float(q)
            assert Fraction(v) == q
            x = X.fin(q)
        else:
            q = Fraction(text)
            v = self.ctx.round(q)
            x = X.fin(q)
            assert to_x(v).same(x), f'operand {text} is not a member of {self.cfg.text()}'
        self._objs[text] = (v, x)
        return v, x

    def case(self, fn, args, n=None):
        c = {'family': self.cfg.family, 'params': {k: str(v) for k, v in self.cfg.params.items()},
             'mode': self.mode, 'overflow': self.ovf, 'fn': fn, 'args': list(args)}
        if n is not None:
            c['n'] = n
        return c

    def where(self):
        return f'{self.cfg.text()} rm={self.mode} ov={self.ovf}'


class Check(BaseCheck):
    pid = 'C20'
    rule = ('(context, mode, function, operand tuple): every pair / scale-reduced triple of members of the format in '
            'the exponent window (all finite members for bounded formats) for the nine error-free transformations, '
            'every (x, s) for veltkamp_split, every (x, n) for split/ldexp and every x for modf/frexp; '
            'nontrivial = distinct judged cases whose exact result is not representable (non-zero error term), '
            'a split with both parts non-zero, an inexact ldexp, or a special operand')
    assumptions = [
        '"round to nearest" = RNE or RNA; fast_2sum classic_2sum classic_2mul classic_2fma veltkamp_split are '
        'judged under those two modes only',
        '"no overflow/underflow of an error term" = the exact error term (exact result minus the oracle rounding) '
        'is a member of the format model; for classic_2fma additionally a*b - RN(a*b) and the pair '
        '(RN(err), err - RN(err)) are members',
        '"no overflow" in bounded formats covers the intermediate quantities of the published sequences, taken as '
        'generous headroom: 2(|a|+|b|) (classic_2sum, Knuth-Moller is not immune to spurious overflow), '
        '(2^ceil(p/2)+2)*max(|operand|,1), 2|ab| and p itself (classic_2mul), (2^s+2)*max(|x|,1) (veltkamp_split), '
        '4*max(|ab|,|c|) (classic_2fma) do not exceed the largest finite value; cases without it are '
        'precondition-false',
        'enough precision: p >= 4 for classic_2mul and veltkamp_split (digit widths judged for 2 <= s <= p-2), '
        'p >= 5 for classic_2fma (Boldo-Muller)',
        'the rounded result must be finite in every admissible outcome; the sign of a zero is not judged '
        'except for modf(+-0) and ldexp (documented)',
        'frexp: only m * 2^e == x with integer e; a decomposition may refuse with ValueError when a documented '
        'component is not a member of the context',
        'priest_2sum: s may be either neighbour of the exact sum (docstring: faithfully rounded)',
    ]
    trusted_base = ['mc.model.rounding (validated against the contexts by C01)', 'Python Fraction arithmetic']

    def __init__(self, tier, seed):
        super().__init__(tier, seed)
        self.entries = entries(tier, seed)

    def selfcheck(self):
        """vacuity canary on the model side: 3/2 * 5/4 at p = 3 must be a judged, inexact case"""
        E = Env(Entry(Config('MPFloat', {'p': 3})), 'RNE')
        reason, adm, err = self.precondition(E, 'fast_2mul', [Q(3, 2), Q(5, 4)], Q(15, 8))
        assert reason is None and adm == [Q(2)] and err == Q(-1, 8), (reason, adm, err)
        r = ShardResult()
        self.check_eft(r, E, 'fast_2mul', ('3/2', '5/4'), 'judge')
        assert r.counts['transitions'] == 1 and r.counts['nontrivial'] == 1, dict(r.counts)
        reason, _, _ = self.precondition(E, 'fast_2sum', [Q(1), Q(2)], Q(3))
        assert reason == 'unordered-magnitudes'

    # ---- space -----------------------------------------------------------------------------------
    def bounds(self):
        return {'contexts': [e.text() for e in self.entries],
                'functions': FN_ORDER + ['veltkamp_split', 'split', 'modf', 'frexp', 'ldexp'],
                'operand_window': [-3, 3], 'decomposition_window': [-8, 8],
                'split_n': [SPLIT_NS[0], SPLIT_NS[-1]], 'ldexp_n': [LDEXP_NS[0], LDEXP_NS[-1]],
                'triples': 'scale-reduced cube (unbounded), full cube (bounded, <= %d members), slab (larger bounded)'
                           % self.cube_limit(),
                'quick_extra': 'seed-rotated 1/16 of the MPFloat(6) pairs under RNE' if self.tier == 'quick' else None}

    def cube_limit(self):
        return 30 if self.tier == 'quick' else 40

    def fn_runs(self, entry: Entry, spec: R.Spec, fn: str, mode: str):
        """-> None (not run), 'judge', or 'probe:<reason>' (run, recorded, never judged)"""
        m = FNS[fn]
        if entry.only_ideal and not m.get('ideal'):
            return None
        if spec.kind not in m['kinds']:
            return None
        if m['ar'] == 2 and (not entry.pairs or (entry.pairs == 'mul' and m['op'] != 'mul')):
            return None
        if m['ar'] == 3 and not entry.triples:
            return None
        reasons = []
        if mode not in m['modes']:
            reasons.append('mode-not-nearest')
        if spec.kind == 'float' and spec.p < m.get('minp', 0):
            reasons.append(f'p<{m["minp"]}')
        if not reasons:
            if fn == 'ideal_fma':
                ok = mode in entry.fma_modes
            elif fn == 'classic_2fma':
                ok = mode in entry.fma_nearest
            elif m['modes'] is ALL:
                ok = mode in entry.wide_modes
            else:
                ok = True
            return 'judge' if ok else None
        if not entry.probe or spec.p > entry.probe:
            return None
        if 'mode-not-nearest' in reasons and (spec.p != 3 or len(reasons) > 1):
            return None          # the mode probe is done at p = 3 only
        return 'probe:' + '+'.join(reasons)

    def tuples(self, entry: Entry, spec: R.Spec, ar: int):
        """-> (list of first operands, function first -> iterator of the remaining operands), as texts"""
        if ar == 2 and entry.pairs == 'mul':
            vals = operand_values(spec, wide=False)
            unit = [str(v) for v in binade(spec, vals, 0)]
            B = unit + ['-' + u for u in unit] + ['+0', '-0']
            return unit + ['+0', '-0'], lambda a: ((b,) for b in B)
        return self._tuples(entry, spec, ar)

    def _tuples(self, entry: Entry, spec: R.Spec, ar: int):
        """-> (list of first operands, function first -> iterator of the remaining operands), as texts"""
        vals = operand_values(spec, wide=False)
        zeros = ['+0', '-0'] if spec.has_negzero else ['+0']
        allv = [str(v) for v in vals] + zeros
        if ar == 2:
            return allv, lambda a: ((b,) for b in allv)
        unit = [str(v) for v in (binade(spec, vals, 0) if spec.kind == 'float' else [])]
        if spec.kind == 'float' and not (spec.maxpos is not None or spec.emin is not None):
            A = unit + zeros
            B = unit + ([] if entry.half_b else ['-' + u for u in unit]) + zeros
        elif len(allv) <= self.cube_limit():
            A = B = allv
        elif spec.kind == 'float':
            A = unit + zeros
            lowb = [str(v) for v in binade(spec, vals, spec.emin)] if spec.emin is not None else []
            B = unit + [v for v in lowb if v not in unit] + ['-' + v for v in lowb] + zeros
        else:
            u = Q(2) ** (spec.nmin + 1)
            small = [str(k * u) for k in range(-6, 7) if k != 0 and R.is_member(spec, X.fin(k * u))] + zeros
            return small, lambda a: ((b, c) for b in small for c in small)
        return A, lambda a: ((b, c) for b in B for c in allv)

    def shards(self):
        out = []
        for ei, entry in enumerate(self.entries):
            _, spec = entry.cfg.build('RNE', entry.ovf)
            for mi, mode in enumerate(MODES):
                if entry.dec_only:
                    if mode in entry.dec_modes:
                        out.append((3000, ('dec', ei, mi)))
                    continue
                for fn in FN_ORDER:
                    if self.fn_runs(entry, spec, fn, mode) is None:
                        continue
                    A, rest = self.tuples(entry, spec, FNS[fn]['ar'])
                    n = len(A) * sum(1 for _ in rest(A[0])) if A else 0
                    cost = n * FNS[fn]['cost']
                    parts = max(1, min(len(A), int(cost / 6000) + 1))
                    out.extend((cost / parts, ('eft', ei, mi, fn, k, parts)) for k in range(parts))
                if not entry.dec:
                    continue
                if spec.kind == 'float' and mode in NEAREST and not entry.only_ideal:
                    out.append((100, ('velt', ei, mi)))
                out.append((3000, ('dec', ei, mi)))
        if self.tier == 'quick':
            # seed-rotated slice of the next larger bound on top of the complete quick core
            out.append((9000, ('extra', self.seed % 16)))
        # long shards first (stable: equal costs keep enumeration order)
        out.sort(key=lambda t: -t[0])
        return [s for _, s in out]

    # ---- error-free transformations -----------------------------------------------------------------
    def precondition(self, E: Env, fn: str, qs, exact: Fraction):
        """-> (reason | None, admissible values of the rounded result, exact error term | None)"""
        m = FNS[fn]
        spec = E.spec
        if m.get('ordered') and abs(qs[0]) < abs(qs[1]):
            return 'unordered-magnitudes', None, None
        if m.get('faithful'):
            outs = R.round_model(spec, xq(exact), 'RTZ', E.ovf) + R.round_model(spec, xq(exact), 'RAZ', E.ovf)
        else:
            outs = R.round_model(spec, xq(exact), E.mode, E.ovf)
        if any(o[0] == 'ERR' or not o[0].isfin for o in outs):
            return 'rounded-result-not-finite', None, None
        adm = sorted({o[0].q for o in outs})
        if m.get('ideal') or m.get('faithful'):
            return None, adm, exact - adm[0]
        assert len(adm) == 1
        err = exact - adm[0]
        if fn != 'classic_2fma' and not R.is_member(spec, xq(err)):
            return 'error-term-not-representable', adm, err      # classic_2fma: two error terms, see below
        if E.bounded:
            top = min(spec.maxpos, -spec.maxneg)
            if m.get('headroom') == 'split':
                s = -(-spec.p // 2)
                if (2 ** s + 2) * max(abs(qs[0]), abs(qs[1]), 1) > top or 2 * abs(exact) > top or spec.p > top:
                    return 'no-headroom', adm, err
            elif m.get('headroom') == 'sum':
                if 2 * (abs(qs[0]) + abs(qs[1])) > top:
                    return 'no-headroom', adm, err
            elif m.get('headroom') == 'fma':
                if 4 * max(abs(qs[0] * qs[1]), abs(qs[2])) > top:
                    return 'no-headroom', adm, err
        if fn == 'classic_2fma':
            ab = qs[0] * qs[1]
            o1 = R.round_model(spec, xq(ab), E.mode, E.ovf)
            if len(o1) != 1 or o1[0][0] == 'ERR' or not o1[0][0].isfin or \
                    not R.is_member(spec, xq(ab - o1[0][0].q)):
                return 'product-error-not-representable', adm, err
            o2 = R.round_model(spec, xq(err), E.mode, E.ovf)
            if len(o2) != 1 or o2[0][0] == 'ERR' or not o2[0][0].isfin or \
                    not R.is_member(spec, xq(err - o2[0][0].q)):
                return 'error-terms-not-representable', adm, err
        return None, adm, err

    def check_eft(self, r: ShardResult, E: Env, fn: str, args, status: str):
        m = FNS[fn]
        objs, qs = [], []
        for a in args:
            v, x = E.obj(a)
            objs.append(v)
            qs.append(x.q)
        exact = exact_of(m['op'], qs)
        r.count('states')
        reason, adm, err = self.precondition(E, fn, qs, exact)
        judged = status == 'judge' and reason is None
        if not judged:
            r.count('precondition_false')
            why = reason if status == 'judge' else status[6:] + ('' if reason is None else '+' + reason)
            if not (status != 'judge' or (E.entry.probe and E.spec.p <= 2)):
                r.outcomes[f'{fn}:unjudged:{why}:not-run'] += 1
                return
            # recorded, never judged
            r.count('evaluations')
            try:
                res = getattr(eft, fn)(*objs, ctx=E.ctx)
                parts = [to_x(v) for v in res]
                if all(p.isfin for p in parts) and sum(p.q for p in parts) == exact and \
                        (adm is None or parts[0].q in adm):
                    what = 'holds'
                else:
                    what = 'fails'
            except Exception as e:      # noqa: BLE001 - outcome class only
                what = 'raises-' + type(e).__name__
            r.outcomes[f'{fn}:unjudged:{why}:{what}'] += 1
            return

        r.count('evaluations')
        r.count('transitions')
        inexact = err != 0
        if inexact:
            r.count('nontrivial')
        sig = {'fn': fn, 'ctx_kind': E.spec.kind}

        def bad(kind, detail, **extra):
            s = dict(sig, kind=kind, **extra)
            r.violate(s, E.case(fn, args),
                      f'{E.where()} {fn}({", ".join(args)}): {detail}; exact result {exact}, admissible rounded '
                      f'result {[str(a) for a in adm]}')
        try:
            res = getattr(eft, fn)(*objs, ctx=E.ctx)
        except Exception as e:          # noqa: BLE001 - every exception is a failure under true preconditions
            r.outcomes[f'{fn}:raises'] += 1
            bad('raised', f'raised {type(e).__name__}: {e}', error=type(e).__name__)
            return
        try:
            parts = [to_x(v) for v in res]
            assert len(parts) == (3 if fn == 'classic_2fma' else 2)
        except Exception:               # noqa: BLE001
            bad('result-type', f'returned {res!r}')
            return
        if not all(p.isfin for p in parts):
            r.outcomes[f'{fn}:non-finite'] += 1
            bad('non-finite-part', f'returned {[text_of(p) for p in parts]}')
            return
        r.outcomes[f'{fn}:{"inexact" if inexact else "exact"}'] += 1
        if parts[0].q not in adm:
            bad('rounded-result', f'first component {parts[0].q} is not the rounding of the exact result '
                f'(returned {[str(p.q) for p in parts]})')
        elif sum(p.q for p in parts) != exact:
            bad('sum-not-exact', f'returned {[str(p.q) for p in parts]} whose exact sum is '
                f'{sum(p.q for p in parts)}')

    def run_eft(self, r, entry, mode, fn, part, parts):
        E = Env(entry, mode)
        status = self.fn_runs(entry, E.spec, fn, mode)
        A, rest = self.tuples(entry, E.spec, FNS[fn]['ar'])
        for i, a in enumerate(A):
            if i % parts != part:
                continue
            for tail in rest(a):
                self.check_eft(r, E, fn, (a,) + tail, status)
        if part == 0:
            r.sample({'context': E.where(), 'fn': fn, 'status': status, 'first_operands': len(A),
                      'tuples': len(A) * sum(1 for _ in rest(A[0]))}, limit=1)

    # ---- veltkamp_split ---------------------------------------------------------------------------
    def check_velt(self, r: ShardResult, E: Env, xt: str, s: int):
        v, x = E.obj(xt)
        p = E.spec.p
        r.count('states')
        reason = None
        if p < 4:
            reason = 'p<4'
        elif E.bounded and (2 ** s + 2) * max(abs(x.q), 1) > min(E.spec.maxpos, -E.spec.maxneg):
            reason = 'no-headroom'
        if reason is not None:
            r.count('precondition_false')
            if not (E.entry.probe or reason == 'p<4'):
                return
        r.count('evaluations')
        try:
            res = eft.veltkamp_split(v, s, ctx=E.ctx)
            hi, lo = (to_x(t) for t in res)
            fin = hi.isfin and lo.isfin
            err = None
        except Exception as e:          # noqa: BLE001
            fin, err = False, e
        if reason is not None:
            ok = fin and hi.q + lo.q == x.q
            r.outcomes[f'veltkamp_split:unjudged:{reason}:{"holds" if ok else "fails"}'] += 1
            return
        r.count('transitions')

        def bad(kind, detail, **extra):
            r.violate(dict({'fn': 'veltkamp_split', 'ctx_kind': 'float', 'kind': kind}, **extra),
                      E.case('veltkamp_split', [xt], s), f'{E.where()} veltkamp_split({xt}, {s}): {detail}')
        if err is not None:
            bad('raised', f'raised {type(err).__name__}: {err}', error=type(err).__name__)
            return
        if not fin:
            bad('non-finite-part', f'returned ({text_of(hi)}, {text_of(lo)})')
            return
        if lo.q != 0:
            r.count('nontrivial')
        r.outcomes[f'veltkamp_split:{"two-parts" if lo.q != 0 else "low-part-zero"}'] += 1
        if hi.q + lo.q != x.q:
            bad('sum-not-exact', f'returned ({hi.q}, {lo.q}) whose sum is {hi.q + lo.q}')
        elif 2 <= s <= p - 2 and (digits(hi.q) > p - s or digits(lo.q) > s):
            bad('digit-width', f'returned ({hi.q}, {lo.q}) with {digits(hi.q)} and {digits(lo.q)} significant digits; '
                f'documented: at most {p - s} and {s}')

    def run_velt(self, r, entry, mode):
        E = Env(entry, mode)
        vals = [str(v) for v in operand_values(E.spec, wide=False)] + ['+0']
        for xt in vals:
            for s in range(1, max(2, E.spec.p)):
                self.check_velt(r, E, xt, s)
        r.sample({'context': E.where(), 'fn': 'veltkamp_split', 'operands': len(vals), 's': [1, E.spec.p - 1]}, limit=1)

    # ---- decompositions -----------------------------------------------------------------------------
    def dec_operands(self, E: Env):
        """texts of the operands of the decompositions: members, specials, Python numbers with extra digits"""
        spec = E.spec
        vals = operand_values(spec, wide=True)
        thin = E.entry.thin
        if thin:
            def keep(v):
                n = abs(v.numerator)
                n //= n & -n
                return n < 8 or (n & (n + 1) == 0 and n.bit_length() >= spec.p - 1)
            vals = [v for v in vals if keep(v)]
        out = [str(v) for v in vals]
        for t in ('+0', '-0', '+inf', '-inf', 'nan'):
            try:
                E.obj(t)
                out.append(t)
            except (ValueError, OverflowError):
                pass                    # not an operand of this format
        py = []
        if spec.kind == 'float':
            es = sorted({R.ilog2(min(v for v in vals if v > 0)), -1, 0})
            for e in es:
                k = spec.quantum_exp(e, None)
                if k > e:
                    k = e
                q = Q(2) ** (k - 3)
                n = int(Q(2) ** e / q)
                py += [Q(2) ** e + j * q for j in range(n) if j % 8 and (not thin or j < 16 or j > n - 8)]
        else:
            u = Q(2) ** (spec.nmin + 1)
            py += [j * u / 8 for j in range(1, 24) if j % 8]
        for v in py:
            out += [f'py:{v}', f'py:{-v}']
        out += ['py:3', 'py:-5']
        if E.entry.dec_only:
            out += ['py:201/2', 'py:-201/2']        # a wider operand whose split parts exceed maxval
        return out

    def components_ok(self, E: Env, comps) -> bool:
        return all(R.is_member(E.spec, c) for c in comps)

    def check_dec(self, r: ShardResult, E: Env, fn: str, xt: str, n):
        v, x = E.obj(xt)
        spec = E.spec
        r.count('states')
        r.count('evaluations')
        r.count('transitions')
        special = not x.isfin or x.iszero

        def bad(kind, detail, **extra):
            r.violate(dict({'fn': fn, 'ctx_kind': spec.kind, 'kind': kind}, **extra), E.case(fn, [xt], n),
                      f'{E.where()} {fn}({xt}{"" if n is None else ", " + str(n)}): {detail}')
        try:
            if fn == 'split':
                res = core.split(v, n, ctx=E.ctx)
            elif fn == 'modf':
                res = core.modf(v, ctx=E.ctx)
            elif fn == 'frexp':
                res = core.frexp(v, ctx=E.ctx)
            else:
                res = core.ldexp(v, n, ctx=E.ctx)
            err = None
        except (ValueError, OverflowError) as e:
            err = e
        except Exception as e:          # noqa: BLE001
            r.outcomes[f'{fn}:raises-{type(e).__name__}'] += 1
            bad('raised', f'raised {type(e).__name__}: {e}', error=type(e).__name__)
            return

        if fn == 'ldexp':
            prod = x.mul(X.fin(Q(2) ** n))
            outs = R.round_model(spec, prod, E.mode, E.ovf)
            inexact = any(o[0] != 'ERR' and o[1] for o in outs)
            if inexact or special:
                r.count('nontrivial')
            if err is not None:
                r.outcomes['ldexp:refuses'] += 1
                if not any(o[0] == 'ERR' for o in outs):
                    bad('raised', f'raised {type(err).__name__}: {err}; admissible {[str(o[0]) for o in outs]}',
                        error=type(err).__name__)
                return
            y = to_x(res)
            r.outcomes[f'ldexp:{"special" if special else "inexact" if inexact else "exact"}:{y.kind}'] += 1
            if not any(o[0] != 'ERR' and o[0].same(y) for o in outs):
                bad('value', f'returned {text_of(y)}; the exact product {text_of(prod)} rounds once to '
                    f'{[str(o[0]) for o in outs]}')
            return

        # split / modf / frexp: model components
        if x.isfin and not x.iszero:
            if fn == 'frexp':
                e0 = R.ilog2(x.q)
                alts = [(X.fin(x.q / Q(2) ** e0), X.fin(e0) if e0 else X.zero()),
                        (X.fin(x.q / Q(2) ** (e0 + 1)), X.fin(e0 + 1) if e0 + 1 else X.zero())]
                representable = all(self.components_ok(E, a) for a in alts)
            else:
                k = n if fn == 'split' else -1
                unit = Q(2) ** (k + 1)
                mag = (abs(x.q) / unit).__floor__() * unit
                hi_m = -mag if x.q < 0 else mag
                lo_m = x.q - hi_m
                representable = self.components_ok(E, (xq(hi_m), xq(lo_m)))
                if hi_m != 0 and lo_m != 0:
                    r.count('nontrivial')
        else:
            representable = True
            r.count('nontrivial')
        if err is not None:
            r.outcomes[f'{fn}:refuses'] += 1
            if representable:
                bad('raised', f'raised {type(err).__name__}: {err} although every documented component is a member '
                    f'of the context', error=type(err).__name__)
            return
        try:
            c0, c1 = (to_x(t) for t in res)
        except Exception:               # noqa: BLE001
            bad('result-type', f'returned {res!r}')
            return
        got = f'({text_of(c0)}, {text_of(c1)})'
        r.outcomes[f'{fn}:{"special" if special else "finite"}:{c0.kind},{c1.kind}'] += 1
        if x.isnan:
            if not (c0.isnan or c1.isnan):
                bad('recombine', f'returned {got} for a NaN operand', operand='nan')
            return
        if fn == 'frexp':
            if x.isinf:
                if not c0.same(x):
                    bad('recombine', f'returned {got}; the mantissa of an infinity is the infinity', operand='inf')
            elif x.iszero:
                if not (c0.iszero and c1.isfin):
                    bad('recombine', f'returned {got} for a zero operand', operand='zero')
            elif not (c0.isfin and c1.isfin and c1.q.denominator == 1 and c0.q * Q(2) ** int(c1.q) == x.q):
                bad('recombine', f'returned {got}: m * 2^e = '
                    f'{c0.q * Q(2) ** int(c1.q) if c0.isfin and c1.isfin and c1.q.denominator == 1 else "undefined"}, '
                    f'not the operand', operand='finite')
            return
        total = c0.add(c1)
        if x.isinf:
            if not total.same(x):
                bad('recombine', f'returned {got} which does not recombine to the operand', operand='inf')
            return
        if x.iszero:
            zs = fn == 'modf' and spec.has_negzero
            if not (c0.iszero and c1.iszero and (not zs or (c0.s == x.s and c1.s == x.s))):
                bad('recombine', f'returned {got} for a zero operand', operand='zero')
            return
        if not (c0.isfin and c1.isfin) or c0.q + c1.q != x.q:
            bad('recombine', f'returned {got} which does not recombine to the operand', operand='finite')
        elif c0.q != hi_m:
            bad('digit-placement', f'returned {got}; documented split is ({hi_m}, {lo_m})')

    def run_dec(self, r, entry, mode):
        E = Env(entry, mode)
        ops = self.dec_operands(E)
        # split/modf/frexp do not round: the quick tier runs them under RNE and one seed-rotated mode
        exact_fns = self.tier != 'quick' or mode in ('RNE', MODES[self.seed % 8]) or entry.dec_only
        for xt in ops:
            if exact_fns:
                for n in SPLIT_NS:
                    self.check_dec(r, E, 'split', xt, n)
                self.check_dec(r, E, 'modf', xt, None)
                self.check_dec(r, E, 'frexp', xt, None)
            for n in LDEXP_NS:
                self.check_dec(r, E, 'ldexp', xt, n)
        r.sample({'context': E.where(), 'fn': 'split/modf/frexp/ldexp', 'operands': len(ops),
                  'split_n': len(SPLIT_NS), 'ldexp_n': len(LDEXP_NS)}, limit=1)

    # ---- driver -----------------------------------------------------------------------------------
    def run_shard(self, shard) -> ShardResult:
        r = ShardResult()
        kind = shard[0]
        if kind == 'eft':
            _, ei, mi, fn, part, parts = shard
            self.run_eft(r, self.entries[ei], MODES[mi], fn, part, parts)
        elif kind == 'velt':
            self.run_velt(r, self.entries[shard[1]], MODES[shard[2]])
        elif kind == 'dec':
            self.run_dec(r, self.entries[shard[1]], MODES[shard[2]])
        elif kind == 'extra':
            entry = Entry(Config('MPFloat', {'p': 6}))
            for fn in ('classic_2sum', 'fast_2mul', 'priest_2sum'):
                self.run_eft(r, entry, 'RNE', fn, shard[1], 16)
        return r

    def replay(self, case):
        entry = Entry(Config(case['family'], parse_params(case['params'])), ovf=case['overflow'], probe=False)
        E = Env(entry, case['mode'])
        r = ShardResult()
        fn = case['fn']
        if fn in FNS:
            self.check_eft(r, E, fn, tuple(case['args']), 'judge')
        elif fn == 'veltkamp_split':
            self.check_velt(r, E, case['args'][0], case['n'])
        else:
            self.check_dec(r, E, fn, case['args'][0], case.get('n'))
        if r.violations:
            return True, '\n'.join(v.detail for v in r.violations)
        if r.counts.get('precondition_false'):
            return False, f'case {case}: a precondition is false; not judged'
        return False, f'case {case}: the implementation agrees with the model'
