"""
C15 -- An accepted program never reads an unbound name or falls off its end.

Space: ALL programs of at most N statements over the alphabet of
mc.engine.progen_c15 (assign, copy, tuple pattern, comprehension, if/else,
one-armed if, for, for-enumerate, while, with-as, return of every name, pass),
each decorated by the real `@fp.fpy`; every accepted one is run on all 18
steering inputs u in {-1, 1} x len(us) in {0, 1, 2} x n in {0, 1, 2}.
Plus family E (both tiers, complete): 4 prefixes x 14 comprehensions (tuple
targets, two generators, nested, targets shadowing arguments / their own
iterable) x 14 shapes that read a probe name OUTSIDE the comprehension (other
operand/argument of the same expression, arms of an `if` whose condition holds
it, after that `if`, in/after a loop whose header holds it, element of an
enclosing comprehension) x 4 probe names.
Plus family W (both tiers, complete, run in the E shards): `k = 0; [R = u]; while k < n and R > 0:
k = k + 1; <body>` with R in {a, b, x, i} bound only in the body (8 forms), only before, both or nowhere.
Plus family I (both tiers, complete, 378 programs): an indexed assignment `R[0] = u` as the USE site of
R in {a, x}: 15 binding shapes of R (nowhere / before / one-armed if / one arm, both arms, one arm with a
returning sibling of if-else / for, for-enumerate, while body / loop target / comprehension variable /
with body / tuple pattern) x 6 use positions (straight after, or inside a one-armed if, an if-else arm, a
for, while or with body) x 2 tails (`return u`, which reads no local, and `return R[0]`); plus use-before-
bind, bind-then-use and conditional-bind-then-use inside one for / for-enumerate / while body.

Oracle (a), dynamic: an accepted program never fails with NameError /
UnboundLocalError / a KeyError whose key is an identifier (missing definition,
from compilation or execution) and never runs past the end of its body (observed
as a None result or as the interpreter's TypeError('not an FPy value: None')).
Oracle (b), static: `ScopeModel` below -- written from docs/USAGE.md "Control
Flow" and docs/source/dev/semantics.rst, not from the implementation -- marks
programs in which some reachable read is not preceded by a binding on every
path; accepting one is a violation even when no input exposes it.

Not demanded: that an acceptable program is accepted (over-rejection is counted,
never reported); anything about reads in dead code (after a `return` in the
same block); which exception class the front end rejects with.
"""

from __future__ import annotations

import gc
import itertools
import linecache

from ..engine.runner import BaseCheck, ShardResult
from ..engine import progen_c15 as G
from ..engine.loader import load_source

PRELUDE = 'import fpy2 as fp\n_R = {}\n'
BATCH = 200

US = ([], [3.0], [3.0, 4.0])
INPUTS = [(u, len_us, n) for u in (-1.0, 1.0) for len_us in (0, 1, 2) for n in (0, 1, 2)]


def make_args(inp):
    u, len_us, n = inp
    return (u, 2.0, list(US[len_us]), n)


# ---------------------------------------------------------------------------
# (b) the scope model.  State = (D, live): D = names bound on every path that
# reaches this point, live = some path reaches this point.
#
# Guide: a name introduced only inside a one-armed `if`, a `for` body or a
# `while` body "is not accessible outside the block"; a name introduced in both
# branches of a two-armed `if` is; the `for` target and a comprehension variable
# exist only inside the loop / the comprehension; `with e as x` binds x and does
# not scope the environment (semantics.rst, E-Context); `return` ends the path.
# `leaks` switches individual rules off; the honest model has none and the
# others are used only to *name* what a wrongly accepted program relied on.
# ---------------------------------------------------------------------------

LEAKS = ('for-target', 'for-body', 'while-body', 'while-cond-sees-body', 'if1-body', 'ifelse-arm', 'comp-var')

USES = {'a=u': ('u',), 'b=a': ('a',), 'ab=uv': ('u', 'v'), 'b=comp': ('us',), 'k=0': (), 'pass': ()}
DEFS = {'a=u': ('a',), 'b=a': ('b',), 'ab=uv': ('a', 'b'), 'b=comp': ('b',), 'k=0': ('k',), 'pass': ()}
TARGETS = {'for': ('x',), 'fore': ('i', 'x')}


class ScopeModel:
    def __init__(self, leaks=(), strict_join=False, py_comp=False):
        self.leaks = frozenset(leaks)
        self.strict_join = strict_join   # diagnosis only: a returning arm does NOT drop out of the join
        self.py_comp = py_comp           # diagnosis only: Python's rule that only the FIRST iterable of a
        #                                  comprehension sees enclosing bindings its targets shadow
        self.bad = []              # (name, statement path) reachable reads of a possibly-unbound name
        self.local_reads = 0       # reachable reads of non-parameter names that follow a compound header
        self.dead = False          # some statement follows a `return` in its block (unreachable)
        self._seen_compound = False

    def run(self, prog):
        D, live = self.block(prog, frozenset(G.PARAMS), True, ())
        self.falls_off = live      # some path reaches the end of the body without `return`
        return self

    def read(self, names, D, live, path):
        if not live:
            return
        for v in names:
            if v not in D:
                self.bad.append((v, path))
            if v not in G.PARAMS and self._seen_compound:
                self.local_reads += 1

    def block(self, stmts, D, live, path):
        for j, st in enumerate(stmts):
            if not live:
                self.dead = True
            D, live = self.stmt(st, D, live, path + (j,))
        return D, live

    def join(self, D1, l1, D2, l2):
        if self.strict_join:
            return D1 & D2, l1 or l2
        if l1 and not l2:
            return D1, True
        if l2 and not l1:
            return D2, True
        return D1 & D2, l1 and l2

    def expr(self, e, D, live, path):
        """Reads of `e`, left to right.  Returns D -- extended by comprehension targets only under the
        (dishonest) 'comp-var' leak: a comprehension variable is not accessible outside the comprehension."""
        if e[0] == 'n':
            self.read((e[1],), D, live, path)
            return D
        if e[0] == 'op':
            for sub in e[2:]:
                D = self.expr(sub, D, live, path)
            return D
        self._seen_compound = True
        elt, gens = e[1], e[2]
        Dc, bound = D, frozenset()
        for j, (T, _, it) in enumerate(gens):       # generators nest: a later iterable sees earlier targets
            Dv = Dc
            if self.py_comp and j > 0:
                Dv = Dc - (frozenset(n for g in gens[j:] for n in g[0]) - bound)
            Dc = Dc | self.expr(it, Dv, live, path) | frozenset(T)
            bound = bound | frozenset(T)
        Dc = self.expr(elt, Dc, live, path)
        return Dc if 'comp-var' in self.leaks else D

    def stmt(self, st, D, live, path):
        op = st[0]
        if op == 'let':
            names = (st[1],) if isinstance(st[1], str) else st[1]
            return self.expr(st[2], D, live, path) | frozenset(names), live
        if op == 'rete':
            return self.expr(st[1], D, live, path), False
        if op == 'iset':
            # `R[i] = e` updates the list R already names: a read of R (and of i, e), binds nothing
            self.read((st[1],), D, live, path)
            D = self.expr(st[2], D, live, path)
            return self.expr(st[3], D, live, path), live
        if op.startswith('ret_'):
            self.read((op[4:],), D, live, path)
            return D, False
        if op in USES:
            self.read(USES[op], D, live, path)
            D = D | frozenset(DEFS[op])
            if op == 'b=comp' and 'comp-var' in self.leaks:
                D = D | {'x'}
            return D, live
        self._seen_compound = True
        if op == 'with':
            return self.block(st[1], D | {'c'}, live, path + (0,))
        if op in ('ife', 'ifex'):
            D = self.expr(('n', 'u') if op == 'ife' else st[1], D, live, path)
            D1, l1 = self.block(st[-2], D, live, path + (0,))
            D2, l2 = self.block(st[-1], D, live, path + (1,))
            if 'ifelse-arm' in self.leaks:
                return D1 | D2, l1 or l2
            return self.join(D1, l1, D2, l2)
        if op in ('if1', 'if1x'):
            D = self.expr(('n', 'u') if op == 'if1' else st[1], D, live, path)
            Db, lb = self.block(st[-1], D, live, path + (0,))
            return (Db if lb and 'if1-body' in self.leaks else D), live
        if op in TARGETS or op == 'forx':
            D = self.expr(('n', 'us') if op in TARGETS else st[1], D, live, path)
            T = frozenset(TARGETS.get(op, ('z',)))
            Db, lb = self.block(st[-1], D | T, live, path + (0,))
            out = D                                   # the zero-trip path binds nothing
            if 'for-target' in self.leaks:
                out = out | T
            if 'for-body' in self.leaks and lb:
                out = out | (Db - T)
            return out, live
        if op in ('while', 'whilex'):
            # The condition is evaluated before the first trip, where nothing the body binds exists yet:
            # a name bound only in the body is not readable in the condition.
            cond = ('op', '', ('n', 'k'), ('n', 'n')) if op == 'while' else st[1]
            if 'while-cond-sees-body' not in self.leaks:
                D = self.expr(cond, D, live, path)
            self.read(('k',), D, live, path + (0,))   # k = k + 1
            Db, lb = self.block(st[-1], D, live, path + (0,))
            if 'while-cond-sees-body' in self.leaks:
                self.expr(cond, Db if lb else D, live, path)
            return (Db if lb and 'while-body' in self.leaks else D), live
        raise ValueError(op)


def blame(prog) -> str:
    """Smallest set of scoping rules that would have to be off for the program to be well-scoped."""
    for k in range(1, len(LEAKS) + 1):
        for L in itertools.combinations(LEAKS, k):
            if not ScopeModel(L).run(prog).bad:
                return '+'.join(L)
    return 'unexplained'


# ---------------------------------------------------------------------------

def classify_exception(e: BaseException):
    """'unbound' for the failures the property names, else None."""
    if isinstance(e, NameError):          # includes UnboundLocalError
        return type(e).__name__
    if isinstance(e, KeyError) and e.args:
        key = e.args[0]
        try:
            from fpy2.utils.identifier import Id
            is_id = isinstance(key, Id)
        except Exception:
            is_id = False
        if is_id or (isinstance(key, str) and key.isidentifier()):
            return 'KeyError'
    return None


def fell_off_end(e: BaseException) -> bool:
    """The compiled body returned Python's None (no `return` was executed); the interpreter's boundary
    conversion reports that as TypeError('not an FPy value: None')."""
    return isinstance(e, TypeError) and str(e).strip() == 'not an FPy value: None'


def reject_label(e: BaseException) -> str:
    msg = str(e)
    if 'unbound variable' in msg:
        what = 'unbound'
    elif 'not defined along all paths' in msg:
        what = 'not-all-paths'
    elif 'unreachable' in msg:
        what = 'unreachable'
    elif 'return statement' in msg:
        what = 'fallthrough'
    else:
        what = 'other'
    return f'{type(e).__name__}:{what}'


def tail_shape(prog) -> str:
    return prog[-1][0] if prog else 'empty'


class Check(BaseCheck):
    pid = 'C15'
    rule = ('every program of <= N statements over the C15 alphabet (13 simple statements, 6 compound constructs; '
            'enumeration by index over a fixed order) is decorated with the real @fp.fpy; each accepted program is '
            'called on all 18 steering inputs; plus the complete product family E of comprehensions used as '
            'sub-expressions with a probe read outside them. nontrivial = DISTINCT programs that contain a compound construct and a '
            'reachable read of a non-parameter name after that construct\'s header (so that a join / zero-trip rule '
            'decided the verdict); plus the complete family I in which an indexed assignment `R[0] = u` (a read of '
            'R that binds nothing) is the use site of R under every binding shape of the alphabet')
    assumptions = [
        'the scope model reads docs/USAGE.md "Control Flow" + semantics.rst: one-armed if / for / while bodies, loop '
        'targets and comprehension variables do not bind afterwards; both arms of if/else do; with-as does not scope',
        'a returning arm contributes nothing to a join (every path that reaches the use must have bound the name)',
        'reads in dead code (after a return in the same block) are not judged',
        'exceptions other than NameError/UnboundLocalError/KeyError(identifier) raised by an accepted program are '
        'counted as inconclusive, not as violations',
    ]
    trusted_base = ['mc.engine.loader (source text -> module)', 'CPython exception classes']

    NSHARDS4 = 32
    NSHARDS5 = 160
    SLICE = 48              # quick tier adds 1/SLICE of the size-5 programs, rotated by the seed

    def __init__(self, tier, seed):
        super().__init__(tier, seed)
        self.space = G.Space(3)
        self.maxsize = 4 if tier == 'quick' else 5

    def bounds(self):
        b = {'max_statements': self.maxsize,
             'programs_per_size': {str(n): len(self.space.programs(n)) for n in range(1, self.maxsize + 1)},
             'family_E_comprehension_subexpressions': len(self.space.programs('E')) - len(G.W_PROGRAMS),
             'family_W_while_condition_reads': len(G.W_PROGRAMS),
             'family_I_indexed_assignment_use_sites': len(self.space.programs('I')),
             'inputs_per_accepted_program': len(INPUTS)}
        if self.tier == 'quick':
            b['extra_slice'] = (f'size-5 programs with index = {self.seed % self.SLICE} mod {self.SLICE} '
                                f'({len(range(self.seed % self.SLICE, len(self.space.programs(5)), self.SLICE))} programs)')
        return b

    def shards(self):
        sh = [(n, 0, 1) for n in (1, 2, 3)] + [('E', j, 4) for j in range(4)] + [('I', 0, 1)]
        sh += [(4, j, self.NSHARDS4) for j in range(self.NSHARDS4)]
        if self.tier == 'quick':
            r = self.seed % self.SLICE
            sh += [(5, r + self.SLICE * j, self.SLICE * 16) for j in range(16)]
        else:
            sh += [(5, j, self.NSHARDS5) for j in range(self.NSHARDS5)]
        # biggest first so that the pool drains evenly
        sh.sort(key=lambda s: -len(range(s[1], len(self.space.programs(s[0])), s[2])))
        return sh

    # ---- one batch of programs -> decorated functions / rejections -------
    @staticmethod
    def load_batch(progs):
        parts = []
        for j, p in enumerate(progs):
            parts.append('try:\n' + G.render(p, f'f{j}', 4) + f'except Exception as _e:\n    _R[{j}] = _e\n')
        mod = load_source(''.join(parts), prelude=PRELUDE)
        out = []
        for j in range(len(progs)):
            if j in mod._R:
                e = mod._R[j]
                e.__traceback__ = None          # do not keep the front end's frames alive
                out.append((None, e))
            else:
                out.append((getattr(mod, f'f{j}'), None))
        mod._R.clear()
        return out

    # ---- judge one program ------------------------------------------------
    def judge(self, r: ShardResult, prog, fn, rej):
        r.count('evaluations')
        r.count('transitions')
        model = ScopeModel().run(prog)
        if model.local_reads:
            r.count('nontrivial')
        mr = bool(model.bad)
        if fn is None:
            r.count('states')
            r.count('rejected_by_frontend')
            if model.local_reads and mr and not model.dead and 'rej' not in self._sampled and len(prog) > 1:
                self._sampled.add('rej')
                r.sample({'program': G.render(prog), 'front_end': f'rejected: {type(rej).__name__}: {rej}'[:160],
                          'model': f'must reject: `{model.bad[0][0]}` read at path {list(model.bad[0][1])}'})
            r.outcomes['reject:' + reject_label(rej)] += 1
            r.outcomes['model-must-reject/rejected' if mr else
                       ('model-falls-off/rejected' if model.falls_off else
                        ('model-ok/rejected(dead code)' if model.dead else 'model-ok/rejected(live code only)'))] += 1
            if not mr and not model.falls_off and not model.dead:
                r.count('over_rejected_live')
            return
        r.count('accepted')
        if model.local_reads and not mr and 'acc' not in self._sampled:
            self._sampled.add('acc')
            r.sample({'program': G.render(prog), 'front_end': 'accepted', 'model': 'well-scoped',
                      'run_on': '18 steering inputs (u, len(us), n)'})
        # (a) run on every steering input
        unbound = {}          # exception class -> first input
        none_inputs = []
        other = {}
        for inp in INPUTS:
            r.count('evaluations')
            r.count('transitions')
            r.count('states')
            try:
                res = fn(*make_args(inp))
            except Exception as e:  # noqa: BLE001 - classification is the point
                cls = classify_exception(e)
                if fell_off_end(e):
                    none_inputs.append(inp)
                elif cls is not None:
                    unbound.setdefault(cls, (inp, repr(e)))
                else:
                    other.setdefault(type(e).__name__, (inp, repr(e)))
                continue
            if res is None:
                none_inputs.append(inp)
        src = G.render(prog)
        case = {'program': G.to_json(prog), 'source': src}
        exposed = '+'.join(sorted(unbound)) if unbound else 'none'
        if mr:
            r.outcomes['model-must-reject/ACCEPTED'] += 1
            name, path = model.bad[0]
            origin = blame(prog)
            det = (f'accepted, but `{name}` is read at statement path {list(path)} without a binding on every path '
                   f'(scoping rule relied on: {origin}).\n{src}')
            if unbound:
                cls = sorted(unbound)[0]
                inp, text = unbound[cls]
                det += f'exposed: f{make_args(inp)} raised {text}'
            else:
                det += 'no steering input exposes it'
            r.violate({'kind': 'accepted-unbound-read', 'origin': origin, 'exposed': exposed},
                      dict(case, oracle='b'), det)
        elif unbound:
            cls = sorted(unbound)[0]
            inp, text = unbound[cls]
            r.outcomes['model-ok/accepted/UNBOUND-AT-RUN'] += 1
            if ScopeModel(strict_join=True).run(prog).bad:
                shape = 'bound-only-on-if-else-arm-whose-sibling-returns'
            elif ScopeModel(py_comp=True).run(prog).bad:
                shape = 'comprehension-later-iterable-reads-name-shadowed-by-pending-target'
            else:
                shape = 'unexplained:' + ('+'.join(sorted(G.constructs(prog))) or 'straight-line')
            r.violate({'kind': 'runtime-unbound', 'exc': exposed, 'shape': shape},
                      dict(case, oracle='a', input=list(inp)),
                      f'accepted and well-scoped by the model, but f{make_args(inp)} raised {text}\n{src}')
        else:
            r.outcomes['model-ok/accepted'] += 1
        if none_inputs:
            r.outcomes['accepted/RETURNS-NONE'] += 1
            inp = none_inputs[0]
            r.violate({'kind': 'returns-None', 'tail': tail_shape(prog),
                       'model_falls_off': str(model.falls_off)},
                      dict(case, oracle='a-none', input=list(inp)),
                      f'accepted, but f{make_args(inp)} ran past the end of the body without a return '
                      f'(result None / TypeError "not an FPy value: None")\n{src}')
        elif model.falls_off and not mr:
            # statically a path reaches the end; with correlated conditions no input may take it
            r.outcomes['accepted/static-fall-off-path-not-taken'] += 1
        if other:
            r.count('inconclusive')
            k = sorted(other)[0]
            r.outcomes['accepted/other-exception:' + k] += 1
            note = f'INCONCLUSIVE accepted program raised {k} (not an unbound-name failure): {other[k][1][:80]}'
            if note not in r.notes and len(r.notes) < 10:
                r.notes.append(note)

    @staticmethod
    def release():
        """Nothing generated may outlive its batch: the default interpreter memoises every compiled
        FuncDef (whose foreign environment pins the whole generated module), and `inspect` leaves the
        module text in `linecache`."""
        from fpy2.interpret import get_default_interpreter
        cache = getattr(get_default_interpreter(), 'func_cache', None)
        if isinstance(cache, dict):
            cache.clear()
        linecache.clearcache()
        gc.collect()

    def run_programs(self, r: ShardResult, indices, P):
        """`indices` is a range into the lazily indexable program sequence `P`."""
        for lo in range(0, len(indices), BATCH):
            chunk = [P[i] for i in indices[lo:lo + BATCH]]
            loaded = self.load_batch(chunk)
            for j, prog in enumerate(chunk):
                fn, rej = loaded[j]
                loaded[j] = None
                self.judge(r, prog, fn, rej)
                del fn, rej
            del loaded, chunk
            self.release()

    def run_shard(self, shard) -> ShardResult:
        r = ShardResult()
        self._sampled = set()
        n, start, step = shard
        P = self.space.programs(n)
        self.run_programs(r, range(start, len(P), step), P)
        return r

    def selfcheck(self):
        # vacuity canaries for the model itself (no implementation involved)
        ok = (('a=u',), ('if1', (('pass',),)), ('ret_a',))
        bad1 = (('if1', (('a=u',),)), ('ret_a',))
        bad2 = (('for', (('pass',),)), ('ret_x',))
        both = (('ife', (('a=u',),), (('ab=uv',),)), ('ret_a',))
        onearm = (('ife', (('a=u',),), (('ret_u',),)), ('ret_a',))
        assert not ScopeModel().run(ok).bad and not ScopeModel().run(both).bad and not ScopeModel().run(onearm).bad
        assert ScopeModel().run(bad1).bad and ScopeModel().run(bad2).bad
        assert blame(bad1) == 'if1-body' and blame(bad2) == 'for-target'
        assert ScopeModel().run((('pass',),)).falls_off and not ScopeModel().run(ok).falls_off
        comp = G.COMP(G.N('x'), (('x',), 'x', G.N('us')))
        esc = (('let', 'b', G.ADD(G.OP('sum({})', comp), G.N('x'))), ('ret_b',))
        arm = (('ifex', G.OP('len({}) > 0', comp), (('let', 'b', G.N('x')),), (('let', 'b', G.N('u')),)), ('ret_b',))
        fine = (('let', 'x', G.N('u')),) + esc
        shadow = (('rete', G.OP('sum({})', G.COMP(G.N('x'), (('x',), 'x', G.N('us')), (('us',), 'us', G.N('us'))))),)
        assert ScopeModel().run(esc).bad and ScopeModel().run(arm).bad and not ScopeModel().run(fine).bad
        assert blame(esc) == 'comp-var' and blame(arm) == 'comp-var'
        assert not ScopeModel().run(shadow).bad and ScopeModel(py_comp=True).run(shadow).bad
        bindl, iset = ('let', 'a', G.OP('[{}, {}]', G.N('u'), G.N('v'))), ('iset', 'a', G.OP('0'), G.N('u'))
        ibad = (('if1', (bindl,)), iset, ('ret_u',))
        assert ScopeModel().run(ibad).bad and blame(ibad) == 'if1-body' and ScopeModel().run((iset, ('ret_u',))).bad
        assert not ScopeModel().run((bindl, iset, ('ret_u',))).bad and ibad in G.I_PROGRAMS
        wbad, wok = G.W_PROGRAMS[0], G.W_PROGRAMS[16]     # R bound only in the body / also before the loop
        assert ScopeModel().run(wbad).bad and blame(wbad) == 'while-cond-sees-body' and not ScopeModel().run(wok).bad

    # ---- replay -------------------------------------------------------------
    def replay(self, case):
        prog = G.from_json(case['program'])
        src = G.render(prog)
        if src != case['source']:
            return False, f'replay file inconsistent: program renders to\n{src}\nbut source is\n{case["source"]}'
        r = ShardResult()
        self._sampled = set()
        (fn, rej), = self.load_batch([prog])
        self.judge(r, prog, fn, rej)
        want = {'b': 'accepted-unbound-read', 'a': 'runtime-unbound', 'a-none': 'returns-None'}[case.get('oracle', 'b')]
        vs = [v for v in r.violations if v.signature['kind'] == want]
        if vs:
            return True, '\n'.join(f'{v.signature}\n{v.detail}' for v in vs)
        if fn is None:
            return False, f'front end rejects the program ({type(rej).__name__}: {rej}); property holds\n{src}'
        return False, f'accepted; model and all {len(INPUTS)} steering inputs agree; property holds\n{src}'
