"""
C14 -- Format inference bounds every run-time value.

Part P (programs).  Space: every program of the bounded grammars of
mc.engine.progen_c14 (A arithmetic chains, B comparison / logb refinements,
L loops with static and symbolic trip counts, H helper calls, M literal sets,
lists, selections, R early scalar returns followed by a length constraint) x a list of (caller context, argument formats)
instantiations drawn from a small pool (contexts: IEEE(2,4) RNE, IEEE(3,6) RTP, an
unbounded 2-digit MPFloat, a float format whose NaN replaces -0, signed / unsigned
two's complement fixed point with saturation, INTEGER, REAL; argument formats: the
formats of those contexts plus IEEE(3,5))
x ALL members of the pinned argument formats (INTEGER and REAL: a declared
window) x loop_iter_limit in {1, 2, 10} for programs with a fixpoint loop.
Each instantiation is analysed by the real `FormatInfer.analyze(ast, fn_fmt=...)`
(and, for the first instantiation of every program, through
`strategies.monomorphize` + `FormatInfer.analyze(ast)` as the back ends do);
each execution is traced with mc.engine.tracer.

Family R (108 programs): `f(xs, c: bool)` = {s = sum(xs) | for-loop accumulator over xs | counter over
range(len(xs))} under {REAL, caller context, INTEGER}, returned early by `if c: return s` (as is, inside a tuple,
or computed inside the arm), followed at top level by {`assert len(xs) == K` | a strict zip of xs with a K-element
literal}, K in {1, 2}, and a normal return.  Inputs: c in {True, False} x the usual lists (lengths 0..3) plus lists
of length 3..5 at the extremes of the element format, i.e. len(xs) in {K, K+1, larger}; runs with c False and
len(xs) != K raise and are not judged.  The constraint holds only on executions that did not return early, so the
bound of `s` / of the result must cover every length on the early-return path.  Cells: (REAL, fx), (CB, fx),
(REAL, fu), (REAL, int); thorough adds five more.

Oracle P1 (membership): the value of every traced expression, every definition
(`by_def`, phi nodes through the reads that resolve to them), the function
result (`fn_fmt.ret_fmt`) and everything inside a callee activation (`by_call`)
is a member of the reported bound.  Membership in a `Format` is decided by
mc.model.member_c14.member from the format's PUBLIC parameters only; a
`SetFormat` must contain the value (sign of zero, infinities, NaN told apart);
tuples / lists structurally.  `None` bounds and REAL_FORMAT claim nothing.
Only the FIRST violating event of an execution is reported (later ones are its
consequences); executions that raise are counted and not judged.  The signature
names the fact (by_expr / by_def / ret_fmt / round_is_identity), the node class,
what the bound lacks (nan, +inf, -inf, -0, bound, digits, value, set:...), the kind
of the active context and, at arithmetic sites, whether the analysis had claimed the
rounding to be an identity (`path`).

Oracle P2 (identity roundings): at every + - * neg abs round cast site whose
`round_is_identity(exact image of the reported operand bounds, active context)`
is True, the traced result equals the exact result of the traced operand values
(IEEE rules; the sign of an exact cancellation is left open).

Part F (abstract arithmetic), a pure exhaustive check of `AbstractFormat`: all
A(prec in {1,2,3,inf}, exp in {-2,-1,0,1,-inf}, bound pairs over {0,1,3/2,2,3,inf}
with symmetric, zero and asymmetric negative bounds, 16 special-flag sets) pairs
x ALL members in the window |x| <= 8 on the 2^-4 grid (+-0, +-inf, NaN when
flagged) x {+ - * | & <=} and {neg abs pos format from_format}: the exact result
is a member of the computed system; `A <= B` implies member-wise inclusion;
`A.format()` and `from_format(A.format())` are supersets of A on the window.
An operation that raises computes nothing and is counted as not offered.
"""

from __future__ import annotations

import gc
import itertools
import os
import linecache
import operator
import time
from collections import Counter
from fractions import Fraction

import numpy as np

from ..engine.runner import BaseCheck, ShardResult
from ..engine import ctxreg
from ..engine import progen_c14 as pg
from ..engine.loader import load_source
from ..engine.tracer import TraceOverflow, TracingInterpreter, replay
from ..model.xreal import X
from ..model.member_c14 import member, abs_member, spec_of
from .c01 import Config, rf

import fpy2 as fp
from fpy2 import strategies as st
from fpy2.ast import fpyast as A
from fpy2.analysis.format_infer import (
    AbstractFormat, AbstractableFormat, FormatInfer, FunctionFormat, ListFormat, SetFormat, TupleFormat,
    exact_binop, exact_unop, round_is_identity,
)
from fpy2.analysis.format_infer.analysis import NegZero, Special
from fpy2.number import Context, Float, RealFloat
from fpy2.number.context.format import Format
from fpy2.number.format import REAL_FORMAT
from fpy2.types import BoolType, ListType, RealType

INF = float('inf')
Q = Fraction
NPROG_SHARDS = 64
NABS_SHARDS = 32
LIMITS = (1, 2, 10)


# ======================================================================
# reading a Format's public parameters (the only thing the membership model sees)

_QCACHE: dict = {}


def _q(x) -> Fraction:
    """value of a RealFloat from its public fields"""
    k = (x.s, x.exp, x.c)
    v = _QCACHE.get(k)
    if v is None:
        v = Fraction(x.c) * (Fraction(2) ** x.exp)
        v = -v if x.s else v
        if len(_QCACHE) < 100000:
            _QCACHE[k] = v
    return v


def params_of(fmt) -> dict:
    n = type(fmt).__name__
    if n == 'RealFormat':
        return {'cls': 'real'}
    if n in ('IEEEFormat', 'EFloatFormat'):
        return {'cls': 'efloat', 'es': fmt.es, 'nbits': fmt.nbits, 'inf': bool(fmt.enable_inf),
                'kind': fmt.nan_kind.name, 'eoffset': fmt.eoffset}
    if n == 'MPFloatFormat':
        return {'cls': 'mpfloat', 'pmax': fmt.pmax, 'nan': bool(fmt.enable_nan), 'inf': bool(fmt.enable_inf)}
    if n == 'MPSFloatFormat':
        return {'cls': 'mpsfloat', 'pmax': fmt.pmax, 'emin': fmt.emin, 'nan': bool(fmt.enable_nan),
                'inf': bool(fmt.enable_inf)}
    if n == 'MPBFloatFormat':
        return {'cls': 'mpbfloat', 'pmax': fmt.pmax, 'emin': fmt.emin, 'pos': _q(fmt.pos_maxval), 'neg': _q(fmt.neg_maxval),
                'nan': bool(fmt.enable_nan), 'inf': bool(fmt.enable_inf)}
    if n == 'MPFixedFormat':
        return {'cls': 'mpfixed', 'nmin': fmt.nmin, 'nan': bool(fmt.enable_nan), 'inf': bool(fmt.enable_inf),
                'negzero': bool(fmt.enable_neg_zero)}
    if n == 'MPBFixedFormat':
        return {'cls': 'mpbfixed', 'nmin': fmt.nmin, 'pos': _q(fmt.pos_maxval), 'neg': _q(fmt.neg_maxval),
                'nan': bool(fmt.enable_nan), 'inf': bool(fmt.enable_inf), 'negzero': bool(fmt.enable_neg_zero)}
    if n == 'FixedFormat':
        return {'cls': 'fixed', 'signed': bool(fmt.signed), 'scale': fmt.scale, 'nbits': fmt.nbits}
    if n == 'SMFixedFormat':
        return {'cls': 'smfixed', 'scale': fmt.scale, 'nbits': fmt.nbits}
    if n == 'ExpFormat':
        return {'cls': 'exp', 'nbits': fmt.nbits, 'eoffset': fmt.eoffset}
    return {'cls': 'unknown:' + n}


def why_not(p: dict, x: X) -> str:
    """which aspect of the format excludes x (names the violation class)"""
    if x.isnan:
        return 'nan'
    if x.isinf:
        return '-inf' if x.s else '+inf'
    if x.iszero:
        return '-0'
    how, m = spec_of(p)
    if how == 'spec':
        if (m.maxpos is not None and x.q > m.maxpos) or (m.maxneg is not None and x.q < m.maxneg):
            return 'bound'
        return 'digits'
    return 'value'


def xkey(v):
    """hashable key of a run-time real (Float | Fraction); None for anything else"""
    if isinstance(v, Float):
        if v.isnan:
            return 'nan'
        if v.isinf:
            return '-inf' if v.s else '+inf'
        return (v.s, v.exp, v.c)
    if isinstance(v, Fraction):
        return v
    return None


def to_x(v) -> X:
    if isinstance(v, Float):
        if v.isnan:
            return X.nan()
        if v.isinf:
            return X.inf(v.s)
        return X('fin', v.s, Fraction(v.c) * (Fraction(2) ** v.exp) * (-1 if v.s else 1))
    return X.fin(v)


def show(v) -> str:
    if isinstance(v, list):
        return '[' + ', '.join(show(x) for x in v) + ']'
    if isinstance(v, tuple):
        return '(' + ', '.join(show(x) for x in v) + ')'
    if isinstance(v, (Float, Fraction)):
        return str(to_x(v))
    return repr(v)[:40]


def show_bound(b) -> str:
    if isinstance(b, SetFormat):
        return '{' + ', '.join(sorted(str(v) for v in b.values)) + '}'
    if isinstance(b, TupleFormat):
        return '(' + ', '.join(show_bound(x) for x in b.elts) + ')'
    if isinstance(b, ListFormat):
        return 'list[' + show_bound(b.elt) + ']'
    if isinstance(b, Format):
        p = params_of(b)
        return type(b).__name__ + '(' + ', '.join(f'{k}={v}' for k, v in p.items() if k != 'cls') + ')'
    return repr(b)


# ======================================================================
# Part P: pools

class Pool:
    """contexts and argument formats of the program part (built once per process)"""

    def __init__(self):
        mk = lambda fam, P, mode, ov: Config(fam, P).build(mode, ov)[0]     # noqa: E731
        self.ctx = {
            'CA': mk('IEEE', {'es': 2, 'nbits': 4}, 'RNE', 'OVERFLOW'),
            'CB': mk('IEEE', {'es': 3, 'nbits': 6}, 'RTP', 'OVERFLOW'),
            'CX': mk('Fixed', {'signed': True, 'scale': -1, 'nbits': 3}, 'RNE', 'SATURATE'),
            'CU': mk('Fixed', {'signed': False, 'scale': 0, 'nbits': 2}, 'RTZ', 'SATURATE'),
            'CZ': mk('EFloat', {'es': 2, 'nbits': 4, 'inf': False, 'nan_kind': 'NEG_ZERO', 'eoffset': 0}, 'RNA', 'SATURATE'),
            'CM': mk('MPFloat', {'p': 2}, 'RNE', 'OVERFLOW'),
            'REAL': fp.REAL,
            'INT': fp.INTEGER,
        }
        for k in pg.CTX_NAMES:
            ctxreg.REG['c14-' + k] = self.ctx[k]
        fb = mk('IEEE', {'es': 3, 'nbits': 5}, 'RNE', 'OVERFLOW')
        enc = {'fa': self.ctx['CA'], 'fb': fb, 'fc': self.ctx['CB'], 'fx': self.ctx['CX'], 'fu': self.ctx['CU'],
               'fz': self.ctx['CZ']}
        self.fmt = {k: c.format() for k, c in enc.items()}
        self.argctx = dict(enc)
        self.fmt['int'] = fp.INTEGER.format()
        self.argctx['int'] = fp.INTEGER
        self.fmt['real'] = REAL_FORMAT
        self.argctx['real'] = fp.REAL
        self.members: dict[str, list[str]] = {}
        for k, c in enc.items():
            seen, out = set(), []
            for b in range(1 << c.total_bits()):
                t = str(to_x(c.decode(b)))
                if t not in seen:
                    seen.add(t)
                    out.append(t)
            self.members[k] = out
        self.members['int'] = [str(i) for i in (0, 1, -1, 2, -2, 3, -3, 11)]
        self.members['real'] = ['+0', '-0', '1', '-3/2', '5/4', '1/3', '11', '-1/1024', '+inf', '-inf', 'NaN']
        self.members['n'] = ['0', '1', '2', '3']
        self.members['bool'] = ['True', 'False']

    def core(self, k: str) -> list[str]:
        """representatives used for list arguments of length two and three"""
        ms = self.members[k]
        fin = sorted((Fraction(t) for t in ms if t[0] not in '+N' and t not in ('-0', '-inf')), key=lambda q: q)
        pos = [q for q in fin if q > 0]
        neg = [q for q in fin if q < 0]
        out = ['+0']
        for t in ('-0', '+inf', 'NaN'):
            if t in ms:
                out.append(t)
        if pos:
            out += [str(pos[0]), str(pos[-1])]
        if neg:
            out.append(str(neg[0]))
        seen, res = set(), []
        for t in out:
            if t not in seen:
                seen.add(t)
                res.append(t)
        return res

    def lists(self, k: str):
        ms, co = self.members[k], self.core(k)
        out = [[]] + [[m] for m in ms] + [[a, b] for a in co for b in co]
        out += [[co[0], co[-1], co[len(co) // 2]], [co[-1], co[-1], co[-1]]]
        return out

    def long_lists(self, k: str):
        """family R: lists() (lengths 0..3) plus lengths 3..5 at the extremes of the element format"""
        ms = self.members[k]
        fin = sorted(Fraction(t) for t in ms if t[0] not in '+N' and t not in ('-0', '-inf'))
        lo, hi = str(fin[0]), str(fin[-1])
        out = self.lists(k)
        out += [[hi] * 3, [hi] * 4, [lo] * 4, [hi] * 5, [lo] * 5, [hi, lo, hi, hi]]
        return out

    def inputs(self, prog, argf: dict):
        axes = []
        for a in prog.args:
            if a == 'n':
                axes.append(self.members['n'])
            elif a == 'xs':
                axes.append(self.long_lists(argf[a]) if prog.fam == 'R' else self.lists(argf[a]))
            else:
                axes.append(self.members[argf[a]])
        return itertools.product(*axes)

    def bound(self, arg: str, fname: str):
        if fname == 'bool':
            return None
        f = self.fmt[fname]
        return ListFormat(f) if arg == 'xs' else f

    def type_of(self, arg: str, fname: str):
        if fname == 'bool':
            return BoolType()
        t = RealType(self.argctx[fname])
        return ListType(t) if arg == 'xs' else t


_POOL: Pool | None = None


def pool() -> Pool:
    global _POOL
    if _POOL is None:
        _POOL = Pool()
    return _POOL


def dec_value(t):
    """text -> run-time argument (Float for dyadic values and specials, Fraction otherwise)"""
    if isinstance(t, list):
        return [dec_value(x) for x in t]
    if t == 'True' or t == 'False':
        return t == 'True'
    if t == '+0':
        return Float(s=False, exp=0, c=0)
    if t == '-0':
        return Float(s=True, exp=0, c=0)
    if t == '+inf':
        return Float(isinf=True)
    if t == '-inf':
        return Float(s=True, isinf=True)
    if t == 'NaN':
        return Float(isnan=True)
    q = Fraction(t)
    if q.denominator & (q.denominator - 1):
        return q
    return Float(x=rf(q))


# ======================================================================
# Part P: the judge

_MISSING = object()
_ARITH = {A.Add: operator.add, A.Sub: operator.sub, A.Mul: operator.mul}
_UNARY = {A.Neg: operator.neg, A.Abs: abs}


class Facts:
    """one FormatAnalysis plus the caches the judge needs"""

    def __init__(self, fa, outer_ctx, label: str):
        self.fa = fa
        self.du = fa.type_info.def_use
        self.outer = outer_ctx
        self.label = label
        self.memo: dict = {}
        self.ident: dict = {}
        self.sub: dict = {}

    def child(self, call_expr):
        s = self.sub.get(call_expr, _MISSING)
        if s is _MISSING:
            fa = self.fa.by_call.get(call_expr)
            s = None if fa is None else Facts(fa, fa.fn_fmt.ctx, self.label)
            self.sub[call_expr] = s
        return s

    # -- membership of a run-time value in a reported bound ---------------
    def holds(self, bound, v):
        """None if v is within `bound`, else (miss, bound text, value text)"""
        if bound is None:
            return None
        if isinstance(bound, TupleFormat):
            if isinstance(v, tuple) and len(v) == len(bound.elts):
                for b, x in zip(bound.elts, v):
                    r = self.holds(b, x)
                    if r is not None:
                        return r
            return None
        if isinstance(bound, ListFormat):
            if isinstance(v, list):
                for x in v:
                    r = self.holds(bound.elt, x)
                    if r is not None:
                        return r
            return None
        k = xkey(v)
        if k is None:
            return None
        mk = (id(bound), k)
        got = self.memo.get(mk, _MISSING)
        if got is _MISSING:
            got = self._scalar(bound, v)
            self.memo[mk] = got
        return got

    def _scalar(self, bound, v):
        x = to_x(v)
        if isinstance(bound, SetFormat):
            for s in bound.values:
                if isinstance(s, NegZero):
                    if x.iszero and x.s:
                        return None
                elif isinstance(s, Special):
                    if (s is Special.NAN and x.isnan) or (s is Special.POS_INF and x.isinf and not x.s) \
                            or (s is Special.NEG_INF and x.isinf and x.s):
                        return None
                elif x.isfin and x.q == s and not (x.iszero and x.s):
                    return None
            miss = 'set:' + ('nan' if x.isnan else ('-inf' if x.s else '+inf') if x.isinf else '-0' if (x.iszero and x.s)
                             else 'empty' if not bound.values else 'value')
            return (miss, show_bound(bound), str(x))
        if isinstance(bound, Format):
            p = params_of(bound)
            m = member(p, x)
            if m is None:
                return ('inconclusive', show_bound(bound), str(x))
            if m:
                return None
            return (why_not(p, x), show_bound(bound), str(x))
        return None

    # -- identity-of-rounding verdict at an operation site ------------------
    def identity(self, e):
        got = self.ident.get(e, _MISSING)
        if got is not _MISSING:
            return got
        res = None
        try:
            scope = self.fa.ctx_use.find_scope_from_use(e)
            ctx = scope.ctx if isinstance(scope.ctx, Context) else self.outer
            be = self.fa.by_expr
            if type(e) in _ARITH:
                unr = exact_binop(be.get(e.first), be.get(e.second), _ARITH[type(e)])
            elif type(e) in _UNARY:
                unr = exact_unop(be.get(e.arg), _UNARY[type(e)])
            else:
                ab = be.get(e.arg)
                unr = ab if isinstance(ab, SetFormat) else (AbstractFormat.from_format(ab)
                                                             if isinstance(ab, AbstractableFormat) else None)
            if unr is not None and ctx is not None and round_is_identity(unr, ctx):
                res = 'REAL' if ctx is fp.REAL else type(ctx).__name__
        except Exception:  # noqa: BLE001 -- the helper refusing is "no claim"
            res = None
        self.ident[e] = res
        return res


def _scope_kind(facts: Facts, e) -> str:
    try:
        scope = facts.fa.ctx_use.find_scope_from_use(e)
        ctx = scope.ctx if isinstance(scope.ctx, Context) else facts.outer
    except Exception:  # noqa: BLE001
        return '-'
    if ctx is None:
        return 'symbolic'
    if ctx is fp.REAL:
        return 'REAL'
    return type(ctx).__name__.replace('Context', '')


def _exact(e, vals):
    """exact result (X) of operation node e on operand values, and whether a zero result is a cancellation"""
    if type(e) in _ARITH:
        a, b = vals
        if isinstance(e, A.Add):
            r = a.add(b)
        elif isinstance(e, A.Sub):
            r = a.sub(b)
        else:
            r = a.mul(b)
        cancel = r.iszero and not (a.iszero or b.iszero) and not isinstance(e, A.Mul)
        return r, cancel
    a = vals[0]
    if isinstance(e, A.Neg):
        return a.neg(), False
    if isinstance(e, A.Abs):
        return a.abs(), False
    return a, False


OP_NODES = (A.Add, A.Sub, A.Mul, A.Neg, A.Abs, A.Round, A.Cast)


def judge(facts: Facts, act, counts: Counter, depth: int = 0):
    """-> None or (signature-part dict, detail) for the first violating event of this activation tree"""
    fa, du = facts.fa, facts.du
    by_expr, by_def = fa.by_expr, fa.by_def
    last: dict = {}
    pending = None
    where = 'callee' if depth else 'entry'
    for o in replay(act):
        if o.kind == 'expr':
            e = o.node
            v = o.snap
            if pending is not None:
                child, pending = pending, None
                if isinstance(e, A.Call):
                    sub = facts.child(e)
                    if sub is not None and child.returned:
                        counts['callee_activations'] += 1
                        bad = judge(sub, child, counts, depth + 1)
                        if bad is not None:
                            return bad
            b = by_expr.get(e, _MISSING)
            if b is _MISSING:
                counts['expr_without_bound'] += 1
            elif b is not None:
                counts['cmp_expr'] += 1
                if not (b is REAL_FORMAT or b == REAL_FORMAT):
                    counts['informative'] += 1
                r = facts.holds(b, v)
                if r is not None:
                    if r[0] == 'inconclusive':
                        counts['inconclusive'] += 1
                    else:
                        return ({'fact': 'by_expr', 'node': type(e).__name__, 'miss': r[0], 'scope': _scope_kind(facts, e)
                                 if isinstance(e, (A.NaryExpr,)) and not isinstance(e, A.Var) else '-',
                                 'path': ('identity' if facts.identity(e) else 'rounded') if isinstance(e, OP_NODES) else '-'},
                                f'[{where}] expression `{e.format()}` = {show(v)}: value {r[2]} is not a member of the '
                                f'reported bound {r[1]}')
            if isinstance(e, A.Var):
                d = du.use_to_def.get(e)
                if d is not None and d in by_def:
                    counts['cmp_def'] += 1
                    r = facts.holds(by_def[d], v)
                    if r is not None and r[0] != 'inconclusive':
                        kind = 'phi' if type(d).__name__ == 'PhiDef' else type(d.site).__name__
                        return ({'fact': 'by_def', 'node': kind, 'miss': r[0], 'scope': '-'},
                                f'read of `{e.name}` = {show(v)}: value {r[2]} is not a member of the bound {r[1]} reported '
                                f'for its definition ({kind})')
            if isinstance(e, OP_NODES):
                idc = facts.identity(e)
                if idc is not None:
                    ops = (e.first, e.second) if type(e) in _ARITH else (e.arg,)
                    vals = [last.get(x) for x in ops]
                    if all(isinstance(x, X) for x in vals) and xkey(v) is not None:
                        counts['cmp_identity'] += 1
                        want, cancel = _exact(e, vals)
                        got = to_x(v)
                        if not want.same(got, zero_sign=not cancel):
                            kind = 'zero-sign' if (want.iszero and got.iszero) else 'value'
                            return ({'fact': 'round_is_identity', 'node': type(e).__name__, 'miss': 'changed:' + kind,
                                     'scope': idc},
                                    f'`{e.format()}`: round_is_identity is True under {idc} but operands '
                                    f'{[str(x) for x in vals]} give {got}, exact result {want}')
            last[e] = to_x(v) if xkey(v) is not None else None
        elif o.kind == 'def':
            d = du.site_to_def.get((o.name, o.node))
            if d is not None and d in by_def and by_def[d] is not None:
                counts['cmp_def'] += 1
                r = facts.holds(by_def[d], o.snap)
                if r is not None and r[0] != 'inconclusive':
                    return ({'fact': 'by_def', 'node': type(o.node).__name__, 'miss': r[0], 'scope': '-'},
                            f'definition of `{o.name}` at {type(o.node).__name__} = {show(o.snap)}: value {r[2]} is not a '
                            f'member of the reported bound {r[1]}')
        elif o.kind == 'call':
            pending = o.value
    counts['cmp_ret'] += 1
    r = facts.holds(fa.fn_fmt.ret_fmt, act.result_snap)
    if r is not None and r[0] != 'inconclusive':
        return ({'fact': 'ret_fmt', 'node': 'return', 'miss': r[0], 'scope': '-'},
                f'result {show(act.result_snap)}: value {r[2]} is not a member of ret_fmt {r[1]}')
    return None


# ======================================================================
# Part F: abstract arithmetic

PRECS = (1, 2, 3, None)
EXPS = (-2, -1, 0, 1, None)
BOUND_PAIRS = []
for _pos in (Q(1), Q(3, 2), Q(2), Q(3), None, Q(0)):
    _negs = []
    for _n in ((None if _pos is None else -_pos), Q(0), Q(-1), Q(-3), None):
        if _n not in _negs:
            _negs.append(_n)
    for _n in _negs:
        BOUND_PAIRS.append((_pos, _n))
SHAPES = [(p, e, b[0], b[1]) for p in PRECS for e in EXPS for b in BOUND_PAIRS]
CORE_SHAPES = [i for i, s in enumerate(SHAPES)
               if s[0] in (1, None) and s[1] in (-1, 0, None) and s[2] in (Q(1), Q(3, 2), None)
               and s[3] in (None, Q(0), Q(-1), Q(-3, 2))]
CORNER_FLAGS = (0, 15)
WINDOW, GRID = 8, 4

F_PINF, F_NINF, F_NAN, F_NZ = 1, 2, 4, 8
# member classes (bit masks)
C_NEG, C_NZ, C_PZ, C_POS, C_NINF, C_PINF, C_NAN = 1, 2, 4, 8, 16, 32, 64
CLASS_REP = {C_NEG: X.fin(-1), C_NZ: X.zero(True), C_PZ: X.zero(False), C_POS: X.fin(2), C_NINF: X.inf(True),
             C_PINF: X.inf(False), C_NAN: X.nan()}
BINOPS = {'+': (operator.add, lambda a, b: a.add(b)), '-': (operator.sub, lambda a, b: a.sub(b)),
          '*': (operator.mul, lambda a, b: a.mul(b))}


def _need(x: X) -> int:
    """special flag a result needs"""
    if x.isnan:
        return F_NAN
    if x.isinf:
        return F_NINF if x.s else F_PINF
    if x.iszero and x.s:
        return F_NZ
    return 0


def _req_tables():
    """REQ[op][classesA][classesB] -> flags the result system must have (zero / special results only;
    finite non-zero results are checked on the complete member lists)"""
    out = {}
    classes = list(CLASS_REP)
    for op, (_, model) in BINOPS.items():
        pair = {(a, b): _need(model(CLASS_REP[a], CLASS_REP[b])) for a in classes for b in classes}
        row = {a: [0] * 128 for a in classes}
        for a in classes:
            for mb in range(128):
                acc = 0
                for b in classes:
                    if mb & b:
                        acc |= pair[(a, b)]
                row[a][mb] = acc
        tab = [[0] * 128 for _ in range(128)]
        for ma in range(128):
            for mb in range(128):
                acc = 0
                for a in classes:
                    if ma & a:
                        acc |= row[a][mb]
                tab[ma][mb] = acc
        out[op] = (tab, pair)
    return out


class Malformed(Exception):
    pass


def describe(af) -> tuple:
    """(prec, exp, pos, neg, +inf, -inf, nan, -0) of an AbstractFormat from its public fields; None = unbounded"""
    prec, exp, pos, neg = af.prec, af.exp, af.pos_bound, af.neg_bound
    if isinstance(prec, float):
        if prec != INF:
            raise Malformed(f'prec={prec!r}')
        prec = None
    elif not isinstance(prec, int) or prec < 1:
        raise Malformed(f'prec={prec!r}')
    if isinstance(exp, float):
        if exp != -INF:
            raise Malformed(f'exp={exp!r}')
        exp = None
    elif not isinstance(exp, int):
        raise Malformed(f'exp={exp!r}')
    if isinstance(pos, float):
        if pos != INF:
            raise Malformed(f'pos_bound={pos!r}')
        pos = None
    else:
        pos = _q(pos)
    if isinstance(neg, float):
        if neg != -INF:
            raise Malformed(f'neg_bound={neg!r}')
        neg = None
    else:
        neg = _q(neg)
    return (prec, exp, pos, neg, bool(af.has_pos_inf), bool(af.has_neg_inf), bool(af.has_nan), bool(af.has_neg_zero))


def flags_of(d: tuple) -> int:
    return (F_PINF if d[4] else 0) | (F_NINF if d[5] else 0) | (F_NAN if d[6] else 0) | (F_NZ if d[7] else 0)


def build_abs(shape, flags: int):
    prec, exp, pos, neg = shape
    return AbstractFormat(INF if prec is None else prec, -INF if exp is None else exp,
                          INF if pos is None else rf(pos), neg_bound=(-INF if neg is None else rf(neg)),
                          has_pos_inf=bool(flags & F_PINF), has_neg_inf=bool(flags & F_NINF), has_nan=bool(flags & F_NAN),
                          has_neg_zero=bool(flags & F_NZ))


def shape_text(shape, flags=None) -> str:
    f = lambda v: 'inf' if v is None else str(v)      # noqa: E731
    s = f'A(prec={f(shape[0])}, exp={"-inf" if shape[1] is None else shape[1]}, pos={f(shape[2])}, ' \
        f'neg={"-inf" if shape[3] is None else shape[3]}'
    if flags is not None:
        s += ', S={' + ','.join(t for b, t in ((F_PINF, '+inf'), (F_NINF, '-inf'), (F_NAN, 'nan'), (F_NZ, '-0')) if flags & b) + '}'
    return s + ')'


def fin_mask(n: np.ndarray, u: int, fin: tuple) -> np.ndarray:
    """vectorised membership of the non-zero values n * 2^-u in the finite part (prec, exp, pos, neg)"""
    prec, exp, pos, neg = fin
    ok = np.ones(n.shape, dtype=bool)
    scale = 1 << u
    if pos is not None:
        t = pos * scale
        ok &= n <= (t.numerator // t.denominator)
    if neg is not None:
        t = neg * scale
        ok &= n >= -((-t.numerator) // t.denominator)
    a = np.abs(n)
    low = a & -a
    tz = np.frexp(low.astype(np.float64))[1] - 1
    if exp is not None:
        ok &= (tz - u) >= exp
    if prec is not None:
        top = np.frexp(a.astype(np.float64))[1] - 1
        ok &= (top - tz + 1) <= prec
    return ok


def fin_why(fin: tuple, x: X) -> str:
    prec, exp, pos, neg = fin
    if (pos is not None and x.q > pos):
        return 'pos_bound'
    if (neg is not None and x.q < neg):
        return 'neg_bound'
    if not abs_member((None, exp, None, None, 0, 0, 0, 0), x):
        return 'exp'
    return 'prec'


class AbsSpace:
    """member lists of every shape (window, finite non-zero, in units of 2^-GRID)"""

    def __init__(self):
        den = 1 << GRID
        ks = np.arange(-WINDOW * den, WINDOW * den + 1, dtype=np.int64)
        ks = ks[ks != 0]
        self.k = []
        self.cls = []
        for s in SHAPES:
            m = ks[fin_mask(ks, GRID, s)]
            self.k.append(m)
            self.cls.append(C_PZ | (C_NEG if (m < 0).any() else 0) | (C_POS if (m > 0).any() else 0))
        self.req = _req_tables()
        self._objs: dict = {}

    def obj(self, i: int, flags: int):
        o = self._objs.get((i, flags))
        if o is None:
            o = build_abs(SHAPES[i], flags)
            self._objs[(i, flags)] = o
        return o

    def classes(self, i: int, flags: int) -> int:
        return self.cls[i] | (C_NZ if flags & F_NZ else 0) | (C_PINF if flags & F_PINF else 0) \
            | (C_NINF if flags & F_NINF else 0) | (C_NAN if flags & F_NAN else 0)

    def rep(self, i: int, c: int) -> X:
        if c == C_NEG:
            return X.fin(Fraction(int(self.k[i][self.k[i] < 0][-1]), 1 << GRID))
        if c == C_POS:
            return X.fin(Fraction(int(self.k[i][self.k[i] > 0][0]), 1 << GRID))
        return CLASS_REP[c]


_ABS: AbsSpace | None = None


def abs_space() -> AbsSpace:
    global _ABS
    if _ABS is None:
        _ABS = AbsSpace()
    return _ABS


def xtext(x: X) -> str:
    return str(x)


def xparse(t: str) -> X:
    return {'+0': X.zero(False), '-0': X.zero(True), '+inf': X.inf(False), '-inf': X.inf(True), 'NaN': X.nan()}.get(t) \
        or X.fin(Fraction(t))


def shape_json(shape, flags):
    return {'prec': None if shape[0] is None else int(shape[0]), 'exp': None if shape[1] is None else int(shape[1]),
            'pos': None if shape[2] is None else str(shape[2]), 'neg': None if shape[3] is None else str(shape[3]),
            'flags': int(flags)}


def shape_from_json(j):
    return ((j['prec'], j['exp'], None if j['pos'] is None else Fraction(j['pos']),
             None if j['neg'] is None else Fraction(j['neg'])), int(j['flags']))


def abs_case(op, i, fa, j=None, fb=None, a=None, b=None):
    c = {'part': 'F', 'op': op, 'A': shape_json(SHAPES[i], fa)}
    if j is not None:
        c['B'] = shape_json(SHAPES[j], fb)
    if a is not None:
        c['a'] = xtext(a)
    if b is not None:
        c['b'] = xtext(b)
    return c


def check_abs_case(case) -> tuple[bool, str]:
    """re-run one abstract-arithmetic case from scratch with the scalar model (used by replay and to confirm
    every vectorised finding before it is reported)"""
    op = case['op']
    sa, fa = shape_from_json(case['A'])
    Aobj = build_abs(sa, fa)
    da = sa + tuple(bool(fa & b) for b in (F_PINF, F_NINF, F_NAN, F_NZ))
    a = xparse(case['a']) if 'a' in case else None
    if a is not None and not abs_member(da, a):
        return False, f'{case["a"]} is not a member of {shape_text(sa, fa)}'
    if 'B' in case:
        sb, fb = shape_from_json(case['B'])
        Bobj = build_abs(sb, fb)
        db = sb + tuple(bool(fb & b) for b in (F_PINF, F_NINF, F_NAN, F_NZ))
        b = xparse(case['b']) if 'b' in case else None
        if b is not None and not abs_member(db, b):
            return False, f'{case["b"]} is not a member of {shape_text(sb, fb)}'
        head = f'{shape_text(sa, fa)} {op} {shape_text(sb, fb)}'
        if op == '<=':
            res = Aobj <= Bobj
            if res is True and not abs_member(db, a):
                return True, f'{head} is True but {a} is a member of the left system and not of the right one'
            return False, f'{head} = {res}'
        try:
            C = {'+': operator.add, '-': operator.sub, '*': operator.mul, '|': operator.or_, '&': operator.and_}[op](Aobj, Bobj)
            dc = describe(C)
        except Malformed as e:
            return True, f'{head} = {C}: malformed field {e}'
        except Exception as e:  # noqa: BLE001
            return False, f'{head} raised {type(e).__name__}: {e} (not offered)'
        if op in BINOPS:
            want = BINOPS[op][1](a, b)
            if not abs_member(dc, want):
                return True, f'{head} = {C}: {a} {op} {b} = {want} is not a member'
            return False, f'{head} = {C}: {a} {op} {b} = {want} is a member'
        if op == '|':
            for x in (a, b):
                if x is not None and not abs_member(dc, x):
                    return True, f'{head} = {C}: operand member {x} is not a member of the union'
            return False, f'{head} = {C}: members kept'
        if op == '&':
            if abs_member(db, a) and not abs_member(dc, a):
                return True, f'{head} = {C}: {a} is a member of both operands but not of the intersection'
            return False, f'{head} = {C}: common member kept'
    head = f'{op}({shape_text(sa, fa)})'
    try:
        if op == 'neg':
            C, want = -Aobj, a.neg()
        elif op == 'abs':
            C, want = abs(Aobj), a.abs()
        elif op == 'pos':
            C, want = +Aobj, a
        elif op in ('format', 'from_format'):
            mat = Aobj.format()
            p = params_of(mat)
            if op == 'format':
                m = member(p, a)
                if m is False:
                    return True, f'{head} = {show_bound(mat)}: member {a} is not representable in it ({why_not(p, a)})'
                return False, f'{head} = {show_bound(mat)}: {a} kept ({m})'
            back = AbstractFormat.from_format(mat)
            if member(p, a) and not abs_member(describe(back), a):
                return True, f'from_format({show_bound(mat)}) = {back}: member {a} of the format is not a member'
            return False, f'from_format({show_bound(mat)}) = {back}: {a} kept'
        else:
            return False, f'unknown op {op}'
        dc = describe(C)
    except Malformed as e:
        return True, f'{head}: malformed field {e}'
    except Exception as e:  # noqa: BLE001
        return False, f'{head} raised {type(e).__name__}: {e} (not offered)'
    if not abs_member(dc, want):
        return True, f'{head} = {C}: {op}({a}) = {want} is not a member'
    return False, f'{head} = {C}: {want} is a member'


class AbsChecker:
    def __init__(self, r: ShardResult):
        self.r = r
        self.sp = abs_space()
        self.seen: Counter = Counter()

    def report(self, sig: dict, case: dict):
        key = (sig.get('op'), sig.get('miss'))
        self.seen[key] += 1
        if self.seen[key] > 6:
            # the class is already written out (and confirmed) several times in this shard
            self.r.count('violations_raw')
            return
        bad, text = check_abs_case(case)
        if not bad:
            raise AssertionError(f'vectorised finding not confirmed by the scalar model: {case} -> {text}')
        self.r.violate(dict(sig, part='F'), case, text)

    # -- unary operations and materialisation, one system at a time ------------
    def unary(self, i: int):
        r, sp = self.r, self.sp
        shape = SHAPES[i]
        k = sp.k[i]
        for fl in range(16):
            Aobj = sp.obj(i, fl)
            da = shape + tuple(bool(fl & b) for b in (F_PINF, F_NINF, F_NAN, F_NZ))
            r.count('states')
            for op, fn, img, need in (('neg', operator.neg, -k, None), ('abs', abs, np.abs(k), None), ('pos', operator.pos, k, None)):
                r.count('transitions')
                r.count('evaluations', int(k.size) + 5)
                try:
                    C = fn(Aobj)
                    dc = describe(C)
                except Malformed:
                    self.report({'op': op, 'miss': 'malformed'}, abs_case(op, i, fl, a=X.zero(False)))
                    continue
                except Exception as e:  # noqa: BLE001
                    r.outcomes[f'F:{op}:raises:{type(e).__name__}'] += 1
                    continue
                r.outcomes[f'F:{op}:computed'] += 1
                if img.size:
                    ok = fin_mask(img, GRID, dc[:4])
                    if not ok.all():
                        idx = int(np.flatnonzero(~ok)[0])
                        a = X.fin(Fraction(int(k[idx]), 1 << GRID))
                        w = X.fin(Fraction(int(img[idx]), 1 << GRID))
                        self.report({'op': op, 'miss': fin_why(dc[:4], w)}, abs_case(op, i, fl, a=a))
                        continue
                have = flags_of(dc)
                for c in (C_NZ, C_PZ, C_NINF, C_PINF, C_NAN):
                    if not sp.classes(i, fl) & c:
                        continue
                    a = CLASS_REP[c]
                    w = a.neg() if op == 'neg' else a.abs() if op == 'abs' else a
                    nd = _need(w)
                    if nd & ~have:
                        self.report({'op': op, 'miss': {F_NZ: '-0', F_PINF: '+inf', F_NINF: '-inf', F_NAN: 'nan'}[nd]},
                                    abs_case(op, i, fl, a=a))
                        break
            # materialisation: A.format() is a superset; from_format(that) is a superset of it
            r.count('transitions', 2)
            try:
                mat = Aobj.format()
                p = params_of(mat)
            except Exception as e:  # noqa: BLE001
                r.outcomes[f'F:format:raises:{type(e).__name__}'] += 1
                continue
            r.outcomes['F:format:' + type(mat).__name__] += 1
            mem = [X.fin(Fraction(int(t), 1 << GRID)) for t in k] + [sp.rep(i, c) for c in (C_PZ, C_NZ, C_PINF, C_NINF, C_NAN)
                                                                     if sp.classes(i, fl) & c]
            r.count('evaluations', len(mem))
            for a in mem:
                m = member(p, a)
                if m is None:
                    r.count('inconclusive')
                    break
                if not m:
                    self.report({'op': 'format', 'miss': why_not(p, a), 'to': type(mat).__name__}, abs_case('format', i, fl, a=a))
                    break
            try:
                back = describe(AbstractFormat.from_format(mat))
            except Exception as e:  # noqa: BLE001
                r.outcomes[f'F:from_format:raises:{type(e).__name__}'] += 1
                continue
            for a in mem:
                if member(p, a) and not abs_member(back, a):
                    self.report({'op': 'from_format', 'miss': 'special' if not a.isfin or a.iszero else 'finite',
                                 'of': type(mat).__name__}, abs_case('from_format', i, fl, a=a))
                    break

    # -- binary operations on one ordered pair of shapes --------------------------
    def pair(self, i: int, j: int, flagsets):
        r, sp = self.r, self.sp
        ka, kb = sp.k[i], sp.k[j]
        # finite non-zero results, computed once per pair of shapes
        res = {}
        if ka.size and kb.size:
            s = (ka[:, None] + kb[None, :]).ravel()
            d = (ka[:, None] - kb[None, :]).ravel()
            m = (ka[:, None] * kb[None, :]).ravel()
            res['+'] = (s, GRID)
            res['-'] = (d, GRID)
            res['*'] = (m, 2 * GRID)
        common = np.intersect1d(ka, kb)
        a_in_b = bool(fin_mask(ka, GRID, SHAPES[j]).all()) if ka.size else True
        fin_memo: dict = {}
        nres = sum(int(v[0].size) for v in res.values()) + int(ka.size + kb.size + common.size)

        def fin_check(op, fin):
            key = (op, fin)
            got = fin_memo.get(key, _MISSING)
            if got is not _MISSING:
                return got
            out = None
            if op in res:
                n, u = res[op]
                nz = n != 0
                ok = fin_mask(n[nz], u, fin)
                if not ok.all():
                    idx = int(np.flatnonzero(nz)[np.flatnonzero(~ok)[0]])
                    ia, ib = divmod(idx, int(kb.size))
                    a = X.fin(Fraction(int(ka[ia]), 1 << GRID))
                    b = X.fin(Fraction(int(kb[ib]), 1 << GRID))
                    out = (a, b, fin_why(fin, BINOPS[op][1](a, b)))
            elif op == '|':
                for arr, side in ((ka, 'a'), (kb, 'b')):
                    if arr.size:
                        ok = fin_mask(arr, GRID, fin)
                        if not ok.all():
                            x = X.fin(Fraction(int(arr[np.flatnonzero(~ok)[0]]), 1 << GRID))
                            out = (x if side == 'a' else None, x if side == 'b' else None, fin_why(fin, x))
                            break
            elif op == '&':
                if common.size:
                    ok = fin_mask(common, GRID, fin)
                    if not ok.all():
                        x = X.fin(Fraction(int(common[np.flatnonzero(~ok)[0]]), 1 << GRID))
                        out = (x, x, fin_why(fin, x))
            fin_memo[key] = out
            return out

        for fa in flagsets:
            Aobj = sp.obj(i, fa)
            ca = sp.classes(i, fa)
            for fb in flagsets:
                Bobj = sp.obj(j, fb)
                cb = sp.classes(j, fb)
                r.count('states')
                r.count('evaluations', nres)
                for op in ('+', '-', '*', '|', '&'):
                    r.count('transitions')
                    try:
                        if op == '+':
                            C = Aobj + Bobj
                        elif op == '-':
                            C = Aobj - Bobj
                        elif op == '*':
                            C = Aobj * Bobj
                        elif op == '|':
                            C = Aobj | Bobj
                        else:
                            C = Aobj & Bobj
                        dc = describe(C)
                    except Malformed:
                        self.report({'op': op, 'miss': 'malformed'}, abs_case(op, i, fa, j, fb, a=X.zero(False), b=X.zero(False)))
                        continue
                    except Exception as e:  # noqa: BLE001
                        r.outcomes[f'F:{op}:raises:{type(e).__name__}'] += 1
                        continue
                    bad = fin_check(op, dc[:4])
                    if bad is not None:
                        a, b, why = bad
                        self.report({'op': op, 'miss': why}, abs_case(op, i, fa, j, fb, a=a, b=b))
                        continue
                    have = flags_of(dc)
                    if op in BINOPS:
                        tab, pairtab = sp.req[op]
                        need = tab[ca][cb]
                        if need & ~have:
                            lack = need & ~have
                            for x, y in itertools.product(CLASS_REP, CLASS_REP):
                                if ca & x and cb & y and pairtab[(x, y)] & lack:
                                    nd = pairtab[(x, y)] & lack
                                    self.report({'op': op, 'miss': {F_NZ: '-0', F_PINF: '+inf', F_NINF: '-inf', F_NAN: 'nan'}[nd]},
                                                abs_case(op, i, fa, j, fb, a=sp.rep(i, x), b=sp.rep(j, y)))
                                    break
                            continue
                    else:
                        need = (fa | fb) if op == '|' else (fa & fb)
                        if need & ~have:
                            lack = need & ~have
                            bit = lack & -lack
                            x = {F_NZ: X.zero(True), F_PINF: X.inf(False), F_NINF: X.inf(True), F_NAN: X.nan()}[bit]
                            self.report({'op': op, 'miss': {F_NZ: '-0', F_PINF: '+inf', F_NINF: '-inf', F_NAN: 'nan'}[bit]},
                                        abs_case(op, i, fa, j, fb, a=x if (fa & bit) else None, b=x if (fb & bit) else None)
                                        if op == '|' else abs_case(op, i, fa, j, fb, a=x, b=x))
                            continue
                    r.outcomes[f'F:{op}:sound'] += 1
                # containment
                r.count('transitions')
                try:
                    le = Aobj <= Bobj
                except Exception as e:  # noqa: BLE001
                    r.outcomes[f'F:<=:raises:{type(e).__name__}'] += 1
                    continue
                r.outcomes[f'F:<=:{le}'] += 1
                if le is True:
                    if not a_in_b:
                        ok = fin_mask(ka, GRID, SHAPES[j])
                        a = X.fin(Fraction(int(ka[np.flatnonzero(~ok)[0]]), 1 << GRID))
                        self.report({'op': '<=', 'miss': fin_why(SHAPES[j], a)}, abs_case('<=', i, fa, j, fb, a=a))
                    elif fa & ~fb:
                        bit = (fa & ~fb) & -(fa & ~fb)
                        x = {F_NZ: X.zero(True), F_PINF: X.inf(False), F_NINF: X.inf(True), F_NAN: X.nan()}[bit]
                        self.report({'op': '<=', 'miss': {F_NZ: '-0', F_PINF: '+inf', F_NINF: '-inf', F_NAN: 'nan'}[bit]},
                                    abs_case('<=', i, fa, j, fb, a=x))


# ======================================================================

class Check(BaseCheck):
    pid = 'C14'
    rule = ('P: (program, caller context, argument formats, loop_iter_limit, pinning route, input) with ALL members of the '
            'pinned argument formats as inputs; every traced expression / definition / result / callee event is compared '
            'with by_expr / by_def / ret_fmt / by_call, every identity-rounding site with the exact result.  F: (ordered '
            'pair of abstract systems incl. flag sets, operation) with all window members.  nontrivial = P: a returning '
            'execution in which at least one compared bound was informative (not REAL_FORMAT, not None); F: a pair of '
            'systems whose operation returned a system and whose member lists are both non-trivial (a non-zero member each)')
    assumptions = [
        'executions in which an operation has no result (the program raises, e.g. cast of an inexact value, NaN into a '
        'format without NaN) are counted and not judged',
        'instantiations the analysis or monomorphize refuses (raises) contribute no facts and are counted',
        'INTEGER and REAL argument formats are infinite: inputs are the declared windows; list arguments: all lists of length '
        '<= 1, all pairs over a core of representatives, two triples',
        'only the first violating event of an execution is reported; later ones are treated as its consequences',
        'the sign of an exactly cancelling sum is left open in the identity-rounding comparison and in part F (+0 is always a member)',
        'part F: systems with exp = -inf are sampled on the 2^-4 grid (every other system is enumerated completely in the window)',
        'part F: an operation that raises (e.g. the assertion in effective_prec for A(inf, -inf, finite bound)) computes no '
        'system and is counted as not offered',
    ]
    trusted_base = ['mc.engine.tracer (value of each expression = what the real bytecode compiler computes, wrapped)',
                    'mc.model.encoding value sets of encodable formats (tied to the library by C16)',
                    'numpy int64 arithmetic for the window products (every reported case is re-confirmed with Fractions)']

    def __init__(self, tier, seed):
        super().__init__(tier, seed)

    def bounds(self):
        return {'program_families': {lab: sum(1 for _ in fac()) for lab, fac in pg.space(self.tier)},
                'loop_iter_limits': list(LIMITS), 'abstract_shapes': len(SHAPES), 'abstract_core_shapes': len(CORE_SHAPES),
                'flag_sets': 16, 'window': f'|x| <= {WINDOW} on the 2^-{GRID} grid',
                'abstract_pairs': ('all shapes^2 x 256 flag pairs' if self.tier != 'quick' else
                                   'all shapes^2 x corner flag sets {none, all}^2 + core shapes^2 x 256 flag pairs + '
                                   'a seed-rotated 1/256 slice of the remaining (shape pair) x 256')}

    def shards(self):
        sh = [('P', k, NPROG_SHARDS) for k in range(NPROG_SHARDS)] + [('F', k, NABS_SHARDS) for k in range(NABS_SHARDS)]
        # development aid (mutation experiments): VERIF_C14_ONLY=P or F runs one part; the run then declares itself
        # capped.  Registered commands never set it.
        only = os.environ.get('VERIF_C14_ONLY', '')
        if only:
            sh = [x for x in sh if x[0] in only]
        return sh

    # ---- programs --------------------------------------------------------------
    def run_cell(self, r: ShardResult, prog, mod, interp, cell, route: str, only_input=None, only_limit=None):
        """one instantiation of one program; yields (signature, case, detail)"""
        P = pool()
        cname, argf = cell
        ctx = P.ctx[cname]
        f = mod.f
        case0 = {'part': 'P', 'family': prog.fam, 'tag': prog.tag, 'src': prog.src, 'args': list(prog.args),
                 'fixpoint': prog.fixpoint, 'ctx': cname, 'argfmts': dict(argf), 'route': route}
        limits = LIMITS if prog.fixpoint else (FormatInfer.DEFAULT_LOOP_ITER_LIMIT,)
        if only_limit is not None:
            limits = (only_limit,)
        if route == 'mono':
            try:
                g = st.monomorphize(f, ctx, [P.type_of(a, argf[a]) for a in prog.args])
            except Exception as e:  # noqa: BLE001
                r.count('instantiation_refused')
                r.outcomes[f'P:monomorphize-refused:{type(e).__name__}'] += 1
                return
            interp.attach(g)
            run_ctx = None
        else:
            g = f
            run_ctx = ctx
        facts = []
        for lim in limits:
            r.count('transitions')
            try:
                if route == 'mono':
                    fa = FormatInfer.analyze(g.ast, loop_iter_limit=lim)
                else:
                    fa = FormatInfer.analyze(g.ast, fn_fmt=FunctionFormat(ctx, tuple(P.bound(a, argf[a]) for a in prog.args),
                                                                           REAL_FORMAT), loop_iter_limit=lim)
            except Exception as e:  # noqa: BLE001 -- the analysis refuses this instantiation
                r.count('analysis_refused')
                r.outcomes[f'P:analysis-refused:{type(e).__name__}'] += 1
                continue
            facts.append((lim, Facts(fa, ctx if route != 'mono' else fa.fn_fmt.ctx or ctx, f'limit={lim}')))
        if not facts:
            return
        r.count('cells')
        inputs = P.inputs(prog, argf) if only_input is None else [only_input]
        for inp in inputs:
            r.count('evaluations')
            r.count('states')
            args = [dec_value(t) for t in inp]
            try:
                act = interp.run(g, args, run_ctx)
            except Exception as e:  # noqa: BLE001 -- could not compile: not an execution
                r.count('compile_failed')
                r.outcomes['P:compile-failed:' + type(e).__name__] += 1
                return
            if not act.all_returned():
                if isinstance(act.error, TraceOverflow):
                    r.notes.append('CAP execution cut off by the tracer event cap: ' + prog.tag)
                r.count('raised_not_judged')
                r.outcomes['P:raises:' + type(act.error).__name__] += 1
                continue
            r.outcomes['P:returns:' + prog.fam] += 1
            informative = False
            for lim, fc in facts:
                counts = Counter()
                bad = judge(fc, act, counts)
                n = counts['cmp_expr'] + counts['cmp_def'] + counts['cmp_ret'] + counts['cmp_identity']
                r.count('transitions', n)
                for k in ('cmp_expr', 'cmp_def', 'cmp_ret', 'cmp_identity', 'callee_activations', 'inconclusive',
                          'expr_without_bound'):
                    if counts[k]:
                        r.count(k, counts[k])
                informative = informative or counts['informative'] > 0
                if bad is not None:
                    sig, detail = bad
                    sig = dict(sig, part='P', prog=prog.tag)
                    case = dict(case0, input=list(inp), limit=lim, signature=sig)
                    yield sig, case, (f'{prog.fam} program under ctx {cname}, argument formats {argf}, route {route}, '
                                      f'loop_iter_limit {lim}, input {dict(zip(prog.args, inp))}:\n{prog.src.split("KONST = 1.5")[-1].strip()}\n{detail}')
            if informative:
                r.count('nontrivial')

    def check_program(self, r: ShardResult, prog, first_mono: bool = True):
        r.count('programs')
        try:
            mod = load_source(prog.src)
        except Exception as e:  # noqa: BLE001 -- front end refuses the program
            r.count('rejected_by_frontend')
            r.outcomes['P:frontend-reject:' + type(e).__name__] += 1
            return
        interp = TracingInterpreter(max_events=6000, max_len=64)
        interp.attach(mod)
        cells = pg.cells(prog, self.tier)
        for ci, cell in enumerate(cells):
            for sig, case, detail in self.run_cell(r, prog, mod, interp, cell, 'fn_fmt'):
                self._violate(r, sig, case, detail)
            if ci == 0 and first_mono:
                for sig, case, detail in self.run_cell(r, prog, mod, interp, cell, 'mono'):
                    self._violate(r, sig, case, detail)
        interp.reset()

    def _violate(self, r: ShardResult, sig, case, detail):
        # a class already kept three times in this shard is only counted (the runner keeps three per signature anyway)
        seen = getattr(r, '_c14_seen', None)
        if seen is None:
            seen = r._c14_seen = Counter()
        k = tuple(sorted((a, str(b)) for a, b in sig.items()))
        seen[k] += 1
        if seen[k] > 3:
            r.count('violations_raw')
        else:
            r.violate(sig, case, detail)

    def run_programs(self, r: ShardResult, k: int, m: int):
        idx = 0
        last = None
        fams = os.environ.get('VERIF_C14_FAMS', '')
        if fams and k == 0:
            r.notes.append('CAP program families restricted by VERIF_C14_FAMS=' + fams)
        for label, fac in pg.space(self.tier):
            if fams and label not in fams:
                continue
            n = 0
            for prog in fac():
                n += 1
                idx += 1
                if idx % m != k:
                    continue
                self.check_program(r, prog)
                last = prog
                if (idx // m) % 50 == 0:
                    linecache.clearcache()
                    gc.collect()
            if k == 0:
                r.notes.append(f'family {label}: {n} programs')
        if k == 0 and last is not None:
            r.sample({'part': 'P', 'program': last.src.split('KONST = 1.5')[-1].strip(), 'instantiations': len(pg.cells(last, self.tier))})

    # ---- abstract arithmetic ------------------------------------------------------
    def run_abstract(self, r: ShardResult, k: int, m: int):
        ck = AbsChecker(r)
        n = len(SHAPES)
        allflags = tuple(range(16))
        core = set(CORE_SHAPES)
        rot = self.seed % 256
        for i in range(n):
            if i % m != k:
                continue
            ck.unary(i)
            for j in range(n):
                nontriv = bool(ck.sp.k[i].size and ck.sp.k[j].size)
                if self.tier != 'quick':
                    ck.pair(i, j, allflags)
                    r.count('nontrivial', 256 if nontriv else 0)
                elif (i in core and j in core) or ((i * n + j) % 256 == rot):
                    ck.pair(i, j, allflags)
                    r.count('nontrivial', 256 if nontriv else 0)
                else:
                    ck.pair(i, j, CORNER_FLAGS)
                    r.count('nontrivial', 4 if nontriv else 0)
        if k == 0:
            r.sample({'part': 'F', 'systems': shape_text(SHAPES[7], 5) + ' and ' + shape_text(SHAPES[-3], 15),
                      'members': [int(ck.sp.k[7].size), int(ck.sp.k[-3].size)], 'operations': '+ - * | & <= neg abs pos format from_format'})

    def run_shard(self, shard) -> ShardResult:
        r = ShardResult()
        t0 = time.process_time()
        kind, k, m = shard
        if os.environ.get('VERIF_C14_ONLY') and k == 0:
            r.notes.append('CAP parts restricted by VERIF_C14_ONLY=' + os.environ['VERIF_C14_ONLY'])
        if kind == 'P':
            pool()
            self.run_programs(r, k, m)
        else:
            self.run_abstract(r, k, m)
        r.count('cpu_ms_' + kind, int((time.process_time() - t0) * 1000))
        return r

    def replay(self, case):
        if case.get('part') == 'F':
            return check_abs_case(case)
        pool()
        prog = pg.Prog(case['family'], case['src'], tuple(case['args']), case.get('tag', 'replay'), bool(case.get('fixpoint')))
        r = ShardResult()
        mod = load_source(prog.src)
        interp = TracingInterpreter(max_events=6000, max_len=64)
        interp.attach(mod)
        found = list(self.run_cell(r, prog, mod, interp, (case['ctx'], case['argfmts']), case['route'],
                                   only_input=tuple(_tuplify(x) for x in case['input']), only_limit=case.get('limit')))
        want = case.get('signature')
        hits = [d for s, _, d in found if want is None or {k: str(v) for k, v in s.items()} == {k: str(v) for k, v in want.items()}]
        if hits:
            return True, hits[0]
        other = '; '.join(str(s) for s, _, _ in found)
        return False, (f'case does not violate {want}' + (f' (other violations: {other})' if other else '')
                       + f'; outcomes {dict(r.outcomes)}')


def _tuplify(x):
    return x
