"""
C11 -- Compiled C++ agrees bit for bit with the interpreter.

Space (bounded-exhaustive, see mc/engine/progen_c11.py): every program of the
declared families x every CppCompiler option set (optimize x unbox x arrays,
12 of them) x every argument vector of a declared list built from
{+-0, +-1.5, 0.1, 1e-310, 2^+-60, +-inf, NaN, 16777217} and list lengths 0..4.

Implementation side: `CppCompiler(...).compile_module` on a Module holding the
program, all programs of a shard in ONE translation unit (each compilation in
its own namespace) with a generated `main` that builds the arguments at the
storage types `CppCompiler.signature` reports, delivers the rounding mode the
entry context names, calls the kernel and prints the result -- and the
caller's own list argument after the call -- as raw bit patterns.  One
`g++ -O0 -std=c++17 -frounding-math` per unit.

Oracle: the FPy interpreter (`Function.__call__`) on the same arguments under
the same context.  What a caller sees in its list argument after the call is
taken from an FPy caller `w(us, v): r = f(us, v); return r, us` run by the
interpreter.  Comparison is by value and sign: every NaN equals every NaN,
zeros compare by sign, everything else as exact rationals -- which is bit
equality in whichever storage type the backend chose.

Not judged (counted): programs the backend refuses (`CppCompileError`),
argument vectors on which the interpreter raises (the compiled code is never
run on them: an out-of-range index is undefined behaviour in C++).
"""

from __future__ import annotations

import hashlib
import json
import math
import os
import re
import resource
import shutil
import struct
import subprocess
import tempfile
import time
from fractions import Fraction

from ..engine.runner import BaseCheck, ShardResult
from ..engine import progen_c11 as pg
from ..engine import loader
from ..engine.loader import load_source

import fpy2 as fp
from fpy2.backend.cpp import CppCompiler, CppCompileError
from fpy2.backend.cpp.unbox import UnboxMode
from fpy2.interpret import get_default_interpreter
from fpy2.number import Float
from fpy2.types import ListType, RealType

CXX = shutil.which('g++') or shutil.which('c++')
CXXFLAGS = ['-O0', '-std=c++17', '-frounding-math', '-ffp-contract=off', '-w']

UNIT_PROGRAMS = 80

# ---------------------------------------------------------------------------
# option sets (real option names: optimize, unbox, arrays)

OPTION_SETS = [(o, u, a) for o in (True, False) for u in ('ALLOW', 'NEVER', 'STRICT') for a in (True, False)]


def opt_label(opt) -> str:
    return f'optimize={opt[0]},unbox={opt[1]},arrays={opt[2]}'


def make_compiler(opt) -> CppCompiler:
    return CppCompiler(optimize=opt[0], unbox=UnboxMode[opt[1]], arrays=opt[2])


# ---------------------------------------------------------------------------
# argument vectors (a declared, fixed list per argument signature)

P64 = [0.0, -0.0, 1.5, -1.5, 0.1, 1e-310, 2.0 ** 60, 2.0 ** -60, math.inf, -math.inf, math.nan, 16777217.0]


def f32(x: float) -> float:
    if x != x or x in (math.inf, -math.inf):
        return x
    return struct.unpack('<f', struct.pack('<f', x))[0]


# binary32 pool: same classes; the subnormal is a binary32 subnormal, 16777217 is not binary32 -> its neighbours
P32 = [0.0, -0.0, 1.5, -1.5, f32(0.1), f32(1e-40), 2.0 ** 60, 2.0 ** -60, math.inf, -math.inf, math.nan, 16777216.0]
NP = len(P64)
LENS = [3, 1, 2, 0, 4, 3, 2, 4, 1, 3, 0, 2]


def pool(w: int):
    return P64 if w == 64 else P32


def vectors(args: list[str], tier: str, seed: int) -> list[list]:
    """The declared argument vectors for an argument signature (Python floats / lists)."""
    k0, k1 = args
    b0 = pg.kind_base(k0)
    pa, pb = pool(pg.kind_width(k0)), pool(pg.kind_width(k1))
    out = []
    if b0 == 's':
        if tier == 'thorough':
            return [[pa[i], pb[j]] for i in range(NP) for j in range(NP)]
        shifts = [5, 0] + [1 + (seed % 10) + (1 if 1 + seed % 10 >= 5 else 0)]
        seen = set()
        for s in shifts:
            for i in range(NP):
                j = (i * 7 + s) % NP if s == 5 else (i + s) % NP
                if (i, j) not in seen:
                    seen.add((i, j))
                    out.append([pa[i], pb[j]])
        return out
    size = pg.kind_size(k0)
    rounds = 5 if tier == 'thorough' else 2
    for r in range(rounds):
        for t in range(NP):
            n = size if size is not None else LENS[(t + r) % NP]
            if b0 == 'l':
                lst = [pa[(t + 5 * j + 3 * r) % NP] for j in range(n)]
            else:
                rows = min(n, 3)
                lst = [[pa[(t + 5 * j + 2 * i + 3 * r) % NP] for j in range(1 + (t + i + r) % 3)] for i in range(rows)]
            out.append([lst, pb[(7 * t + r) % NP]])
    return out


# ---------------------------------------------------------------------------
# FPy side

CTXS = {}


def ctx_of(name: str):
    if name not in CTXS:
        CTXS[name] = eval(pg.CTX_TEXT[name], {'fp': fp})
    return CTXS[name]


def arg_type(kind: str):
    w = pg.kind_width(kind)
    r = RealType(fp.FP64 if w == 64 else fp.FP32)
    b = pg.kind_base(kind)
    if b == 's':
        return r
    if b == 'l':
        return ListType(r, pg.kind_size(kind))
    return ListType(ListType(r))


def reset_interpreter():
    cache = getattr(get_default_interpreter(), 'func_cache', None)
    if cache is not None:
        cache.clear()


# --- cause classification only: an interpreter whose exactly-zero sums follow IEEE 754 6.3 under RTN ----------

def _zinfo(x):
    if isinstance(x, Float):
        return (x.is_zero(), bool(x.s), x.isnan or x.isinf)
    if isinstance(x, float):
        return (x == 0, math.copysign(1, x) < 0, x != x or x in (math.inf, -math.inf))
    return (x == 0, False, False)


def _ieee_zero(r, ctx, pz, ps, qz, qs):
    """r = p + q was computed by the interpreter; (pz, ps) = (p is zero, sign of p), same for q"""
    if not (isinstance(r, Float) and r.is_zero() and not r.s and not r.inexact):
        return r
    if getattr(ctx, 'rm', None) != fp.RM.RTN or not isinstance(ctx, fp.IEEEContext):
        return r
    if pz and qz and not ps and not qs:
        return r                                    # (+0) + (+0) = +0 in every mode
    return fp.ops.neg(r, ctx)                       # x + (-x), (+0) + (-0): -0 under roundTowardNegative


def _add_ieee(x, y, ctx=fp.REAL):
    r = fp.ops.add(x, y, ctx)
    (xz, xs, xn), (yz, ys, yn) = _zinfo(x), _zinfo(y)
    return r if (xn or yn) else _ieee_zero(r, ctx, xz, xs, yz, ys)


def _sub_ieee(x, y, ctx=fp.REAL):
    r = fp.ops.sub(x, y, ctx)
    (xz, xs, xn), (yz, ys, yn) = _zinfo(x), _zinfo(y)
    return r if (xn or yn) else _ieee_zero(r, ctx, xz, xs, yz, not ys)


def _fma_ieee(x, y, z, ctx=fp.REAL):
    r = fp.ops.fma(x, y, z, ctx)
    (xz, xs, xn), (yz, ys, yn), (zz, zs, zn) = _zinfo(x), _zinfo(y), _zinfo(z)
    return r if (xn or yn or zn) else _ieee_zero(r, ctx, xz or yz, xs != ys, zz, zs)


class ieee_zero_sums:
    """Context manager: FPy functions compiled inside it use the three wrappers above."""

    def __enter__(self):
        from fpy2.interpret import byte
        from fpy2.ast.fpyast import Add, Sub, Fma
        self.byte, self.keys = byte, (Add, Sub, Fma)
        self.saved = (byte._BINARY_TABLE[Add], byte._BINARY_TABLE[Sub], byte._TERNARY_TABLE[Fma])
        byte._BINARY_TABLE[Add], byte._BINARY_TABLE[Sub], byte._TERNARY_TABLE[Fma] = _add_ieee, _sub_ieee, _fma_ieee
        reset_interpreter()

    def __exit__(self, *exc):
        Add, Sub, Fma = self.keys
        self.byte._BINARY_TABLE[Add], self.byte._BINARY_TABLE[Sub], self.byte._TERNARY_TABLE[Fma] = self.saved
        reset_interpreter()


RTN_CAUSE = 'exactly-zero sum under RTN: interpreter +0, IEEE 754 and compiled code -0'

# cause classification only: `vector<handle>(n, make_shared<...>(...))` copies ONE row handle n times
EMPTY_CAUSE = 'empty(n, m, ...) with boxed rows: every row is the same shared handle'
EMPTY_SHARED_RE = re.compile(r'\((?:static_cast<uint64_t>\([^()]*\)|\w+), std::make_shared<std::vector<')


def canon(v):
    """interpreter value -> ('n', kind, sign, Fraction) | ('b', bool) | ('l', [...]) | ('t', [...])"""
    if isinstance(v, bool):
        return ('b', v)
    if isinstance(v, Float):
        if v.isnan:
            return ('n', 'nan', 0, None)
        if v.isinf:
            return ('n', 'inf', int(v.s), None)
        if v.is_zero():
            return ('n', 'zero', int(v.s), None)
        return ('n', 'fin', int(v.s), Fraction(v.as_rational()))
    if isinstance(v, (int, Fraction)):
        q = Fraction(v)
        return ('n', 'zero' if q == 0 else 'fin', int(q < 0), None if q == 0 else q)
    if isinstance(v, float):
        if v != v:
            return ('n', 'nan', 0, None)
        if v in (math.inf, -math.inf):
            return ('n', 'inf', int(v < 0), None)
        if v == 0:
            return ('n', 'zero', int(math.copysign(1, v) < 0), None)
        return ('n', 'fin', int(v < 0), Fraction(v))
    if isinstance(v, list):
        return ('l', [canon(x) for x in v])
    if isinstance(v, tuple):
        return ('t', [canon(x) for x in v])
    if hasattr(v, 'as_rational'):
        q = Fraction(v.as_rational())
        return ('n', 'zero' if q == 0 else 'fin', int(getattr(v, 's', q < 0)), None if q == 0 else q)
    raise TypeError(f'unexpected interpreter value {v!r}')


def show(c) -> str:
    t = c[0]
    if t == 'b':
        return 'true' if c[1] else 'false'
    if t == 'n':
        k, s, q = c[1:4]
        sg = '-' if s else '+'
        if k == 'nan':
            return 'NaN'
        if k == 'inf':
            return sg + 'inf'
        if k == 'zero':
            return sg + '0'
        try:
            return float(q).hex() + (f'[{c[4]}]' if len(c) > 4 else '')
        except OverflowError:
            return str(q)
    br = '[]' if t == 'l' else '()'
    return br[0] + ', '.join(show(x) for x in c[1]) + br[1]


def same(ci, cc) -> bool:
    """interpreter canon vs C++ canon (the C++ one may carry a storage tag as 5th field)"""
    if ci[0] != cc[0]:
        return False
    if ci[0] == 'b':
        return ci[1] == cc[1]
    if ci[0] == 'n':
        if ci[1] != cc[1]:
            return False
        if ci[1] == 'nan':
            return True
        if ci[2] != cc[2]:
            return False
        return ci[3] == cc[3]
    return len(ci[1]) == len(cc[1]) and all(same(a, b) for a, b in zip(ci[1], cc[1]))


def first_diff(ci, cc, path='ret') -> str:
    if ci[0] != cc[0]:
        return f'{path}: kind {ci[0]} vs {cc[0]}'
    if ci[0] in ('l', 't'):
        if len(ci[1]) != len(cc[1]):
            return f'{path}: length {len(ci[1])} vs {len(cc[1])}'
        for i, (a, b) in enumerate(zip(ci[1], cc[1])):
            if not same(a, b):
                return first_diff(a, b, f'{path}[{i}]')
    return f'{path}: interpreter {show(ci)}  compiled {show(cc)}'


def diff_class(ci, cc) -> str:
    """coarse class of the first difference (part of the violation signature)"""
    if ci[0] != cc[0]:
        return 'kind'
    if ci[0] in ('l', 't'):
        if len(ci[1]) != len(cc[1]):
            return 'length'
        for a, b in zip(ci[1], cc[1]):
            if not same(a, b):
                return diff_class(a, b)
        return '?'
    if ci[0] == 'b':
        return 'bool'
    if ci[1] == 'zero' and cc[1] == 'zero':
        return 'zero-sign'
    if 'nan' in (ci[1], cc[1]):
        return 'nan'
    if 'inf' in (ci[1], cc[1]):
        return 'inf'
    return 'value'


# ---------------------------------------------------------------------------
# C++ side

CPP_SUPPORT = r'''
#include <cstdio>
#include <cstring>
#include <cinttypes>
#include <cstdlib>
#include <type_traits>
#include <utility>
namespace vf {
struct V { double d; std::vector<V> xs; };
inline double bits(uint64_t u) { double d; std::memcpy(&d, &u, 8); return d; }
inline V S(uint64_t u) { V v; v.d = bits(u); return v; }
inline V L(std::vector<V> xs) { V v; v.d = 0; v.xs = std::move(xs); return v; }

template<class T, class = void> struct P;
template<> struct P<double> { static void pr(double x) { uint64_t u; std::memcpy(&u, &x, 8); std::printf(" D%016" PRIx64, u); } };
template<> struct P<float> { static void pr(float x) { uint32_t u; std::memcpy(&u, &x, 4); std::printf(" F%08" PRIx32, u); } };
template<> struct P<bool> { static void pr(bool x) { std::printf(" B%d", (int)x); } };
template<class T> struct P<T, typename std::enable_if<std::is_integral<T>::value && std::is_signed<T>::value>::type> {
  static void pr(T x) { std::printf(" I%lld", (long long)x); } };
template<class T> struct P<T, typename std::enable_if<std::is_integral<T>::value && !std::is_signed<T>::value && !std::is_same<T, bool>::value>::type> {
  static void pr(T x) { std::printf(" I%llu", (unsigned long long)x); } };
template<class T> struct P<std::vector<T>> { static void pr(const std::vector<T>& xs) {
  std::printf(" L%zu", xs.size()); for (size_t i = 0; i < xs.size(); ++i) { T e = xs[i]; P<T>::pr(e); } } };
template<class T, size_t N> struct P<std::array<T, N>> { static void pr(const std::array<T, N>& xs) {
  std::printf(" L%zu", N); for (size_t i = 0; i < N; ++i) P<T>::pr(xs[i]); } };
template<class T> struct P<std::shared_ptr<T>> { static void pr(const std::shared_ptr<T>& p) {
  if (!p) { std::printf(" NULL"); return; } P<T>::pr(*p); } };
template<class Tup, size_t... I> void pr_tuple(const Tup& t, std::index_sequence<I...>) {
  int dummy[] = {0, (P<typename std::tuple_element<I, Tup>::type>::pr(std::get<I>(t)), 0)...}; (void)dummy; }
template<class... Ts> struct P<std::tuple<Ts...>> { static void pr(const std::tuple<Ts...>& t) {
  std::printf(" T%zu", sizeof...(Ts)); pr_tuple(t, std::index_sequence_for<Ts...>{}); } };
template<class T> void pr(const T& x) { P<T>::pr(x); }

template<class T, class = void> struct Mk;
template<class T> struct Mk<T, typename std::enable_if<std::is_arithmetic<T>::value>::type> {
  static T mk(const V& v) { return static_cast<T>(v.d); } };
template<class T> struct Mk<std::vector<T>> { static std::vector<T> mk(const V& v) {
  std::vector<T> r; for (const V& e : v.xs) r.push_back(Mk<T>::mk(e)); return r; } };
template<class T, size_t N> struct Mk<std::array<T, N>> { static std::array<T, N> mk(const V& v) {
  if (v.xs.size() != N) { std::printf("BADSIZE\n"); std::exit(3); }
  std::array<T, N> r; for (size_t i = 0; i < N; ++i) r[i] = Mk<T>::mk(v.xs[i]); return r; } };
template<class T> struct Mk<std::shared_ptr<T>> { static std::shared_ptr<T> mk(const V& v) {
  return std::make_shared<T>(Mk<T>::mk(v)); } };
}
'''


def dbits(x: float) -> str:
    return '0x%016xULL' % struct.unpack('<Q', struct.pack('<d', x))[0]


def cpp_value(v) -> str:
    if isinstance(v, list):
        return 'vf::L({' + ', '.join(cpp_value(x) for x in v) + '})'
    return f'vf::S({dbits(v)})'


class Block:
    """One compilation (program, distinct emitted text) inside a translation unit."""
    __slots__ = ('bid', 'prog', 'opts', 'text', 'params', 'ret', 'vecs', 'mask', 'expect', 'mod', 'alt')

    def __init__(self, bid, prog, opts, text, params, ret, vecs, mask, expect, mod=None):
        self.bid = bid
        self.mod = mod              # the loaded FPy module (same process only)
        self.alt = None             # lazily: results of the IEEE-zero-sum interpreter (cause classification)
        self.prog = prog
        self.opts = opts            # option sets that produced exactly this text and signature
        self.text = text
        self.params = params        # C++ storage types (formatted) of the entry's parameters
        self.ret = ret
        self.vecs = vecs
        self.mask = mask            # vectors on which the interpreter returns
        self.expect = expect        # canon(interpreter result) per vector (None where it raised)


def render_unit(blocks: list[Block], vec_tables: dict, ranges: list | None = None) -> str:
    """The translation unit: backend headers, support code, one namespace per block, main.
    `ranges` (if given) receives (first line, last line, bid) for every piece of text that belongs to one block."""
    cc = CppCompiler()
    out = ['\n'.join(cc.headers()), cc.helpers(), CPP_SUPPORT]

    def nlines():
        return sum(x.count('\n') + 1 for x in out)

    def mark(lo, bid):
        if ranges is not None:
            ranges.append((lo + 1, nlines(), bid))
    tab_names = {}
    for key, vecs in vec_tables.items():
        name = f'AV{len(tab_names)}'
        tab_names[key] = name
        rows = ',\n    '.join('{' + ', '.join(cpp_value(a) for a in vec) + '}' for vec in vecs)
        out.append(f'static std::vector<std::vector<vf::V>> make_{name}() {{ return {{\n    {rows}\n  }}; }}')
    for b in blocks:
        lo = nlines()
        out.append(f'namespace b{b.bid} {{\n{b.text}\n}}')
        mark(lo, b.bid)
    out.append('int main(int argc, char** argv) {')
    out.append('  long first = argc > 1 ? std::atol(argv[1]) : 0;')
    out.append('  long skipvec = argc > 2 ? std::atol(argv[2]) : -1;')
    for key, name in tab_names.items():
        out.append(f'  const std::vector<std::vector<vf::V>> {name} = make_{name}();')
    for b in blocks:
        name = tab_names[vec_key(b.prog.args, b.vecs)]
        mask = ','.join('1' if m else '0' for m in b.mask)
        lo = nlines()
        out.append(f'  if ({b.bid} >= first) {{')
        out.append(f'    static const unsigned char mask[] = {{{mask}}};')
        out.append(f'    for (size_t k = 0; k < {len(b.vecs)}; ++k) if (mask[k] && !({b.bid} == first && (long)k <= skipvec)) {{')
        for i, pt in enumerate(b.params):
            out.append(f'      {pt} a{i} = vf::Mk<{pt}>::mk({name}[k][{i}]);')
        out.append(f'      std::printf("S {b.bid} %zu\\n", k); std::fflush(stdout);')
        out.append(f'      std::fesetround({pg.rm_of(b.prog.ctx)});')
        out.append(f'      auto r = b{b.bid}::f({", ".join(f"a{i}" for i in range(len(b.params)))});')
        out.append('      std::fesetround(FE_TONEAREST);')
        out.append(f'      std::printf("R {b.bid} %zu", k); vf::pr(r);')
        if pg.kind_base(b.prog.args[0]) != 's':
            out.append('      std::printf(" |"); vf::pr(a0);')
        out.append('      std::printf("\\n"); std::fflush(stdout);')
        out.append('    }')
        out.append('  }')
        mark(lo, b.bid)
    out.append('  return 0;\n}')
    return '\n'.join(out) + '\n'


def vec_key(args, vecs) -> str:
    return hashlib.sha1(json.dumps([args, [repr(v) for v in vecs]]).encode()).hexdigest()[:12]


def parse_tokens(toks: list[str], pos: list[int]):
    t = toks[pos[0]]
    pos[0] += 1
    k = t[0]
    if k == 'D':
        x = struct.unpack('<d', struct.pack('<Q', int(t[1:], 16)))[0]
        return canon(x) + ('f64',)
    if k == 'F':
        x = struct.unpack('<f', struct.pack('<I', int(t[1:], 16)))[0]
        return canon(x) + ('f32',)
    if k == 'I':
        return canon(int(t[1:])) + ('int',)
    if k == 'B':
        return ('b', t[1] == '1')
    if k == 'L':
        return ('l', [parse_tokens(toks, pos) for _ in range(int(t[1:]))])
    if k == 'T':
        return ('t', [parse_tokens(toks, pos) for _ in range(int(t[1:]))])
    raise ValueError(f'bad token {t!r}')


def run_gxx(src_path: str, exe_path: str, syntax_only=False):
    cmd = [CXX, *CXXFLAGS] + (['-fsyntax-only', src_path] if syntax_only else ['-o', exe_path, src_path])
    p = subprocess.run(cmd, capture_output=True, text=True)
    return p.returncode, p.stderr


# ---------------------------------------------------------------------------


class Check(BaseCheck):
    pid = 'C11'
    rule = ('every program of the declared families (progen_c11: contexts/rounding modes, branches, loops, tuples, '
            'aliased and nested lists, two-function modules, integer and REAL contexts) x 12 CppCompiler option sets '
            '(optimize x unbox{ALLOW,NEVER,STRICT} x arrays) x every declared argument vector; compiled by the real '
            'backend, built with g++ and run; every number/bool/list/tuple of the result and the caller\'s list '
            'argument after the call compared with the interpreter. nontrivial = (program, option set, vector) whose '
            'interpreter result contains an inexactly rounded number, a NaN/inf/-0, or a list written through an alias '
            'or by a callee (measured: inexact flag of a returned Float, special class, or argument list changed by '
            'the call)')
    assumptions = [
        'g++ -O0 -std=c++17 -frounding-math -ffp-contract=off with glibc libm rounds + - * / sqrt fma and float<->double '
        'conversions correctly in all four fesetround modes (fma/sqrt of the alphabet only)',
        'the interpreter is the oracle (tied to the rounding model by C04); it runs FPy-to-FPy calls with shared lists',
        'integer programs keep values far from the type range (signed overflow / out-of-range float->int are UB in C++)',
        'vectors on which the interpreter raises are not run in C++ (counted as precondition_false)',
    ]
    trusted_base = ['g++ 12', 'glibc libm', 'fpy2 interpreter']

    def __init__(self, tier, seed):
        super().__init__(tier, seed)
        self.descs = pg.enumerate_space(tier, seed)
        self.nshards = 16 if tier == 'quick' else 128

    def bounds(self):
        return {'programs': len(self.descs), 'option_sets': len(OPTION_SETS),
                'families': pg.space_sizes(), 'quick_slice_modulus': pg.QUICK_SLICE,
                'vectors_scalar_pair': len(vectors(['s64', 's64'], self.tier, self.seed)),
                'vectors_list': len(vectors(['l64', 's64'], self.tier, self.seed)),
                'pool': [repr(x) for x in P64], 'list_lengths': '0..4', 'cxx': ' '.join([str(CXX)] + CXXFLAGS)}

    def selfcheck(self):
        if CXX is None:
            raise RuntimeError('no C++ compiler')

    def shards(self):
        n = self.nshards
        return [(i, n) for i in range(n)]

    # ------------------------------------------------------------------
    def interpret(self, prog: pg.Program, mod, vecs, r: ShardResult | None):
        """per vector: (canon result, canon list argument after call | None, nontrivial flag) or None if it raised"""
        ctx = ctx_of(prog.ctx)
        fn = mod.w if prog.wrapper else mod.f
        out = []
        for vec in vecs:
            args = [_copy(a) for a in vec]
            try:
                res = fn(*args, ctx=ctx)
            except RecursionError:
                raise
            except Exception as e:  # noqa: BLE001 -- the interpreter refusing an input is a precondition, not a verdict
                if r is not None:
                    r.outcomes['interp-raises:' + type(e).__name__] += 1
                out.append(None)
                continue
            if prog.wrapper:
                ret, after = res
                c_after = canon(after)
                changed = not same(canon(vec[0]), c_after)
            else:
                ret, c_after, changed = res, None, False
            c_ret = canon(ret)
            out.append((c_ret, c_after, changed or _interesting(ret)))
        return out

    def compile_program(self, prog: pg.Program, mod, opt):
        """-> ('ok', text, [param types], ret type) | ('reject', kind, message)"""
        cc = make_compiler(opt)
        ats = [arg_type(k) for k in prog.args]
        ctx = ctx_of(prog.ctx)
        try:
            m = fp.Module()
            m.add(mod.f, ctx=ctx, arg_types=ats)
            text = cc.compile_module(m)
            params, ret = cc.signature(mod.f, ctx=ctx, arg_types=ats, module=m)
        except CppCompileError as e:
            return ('reject', 'CppCompileError', str(e))
        except RecursionError:
            raise
        except Exception as e:  # noqa: BLE001 -- a crashing compiler accepts nothing; counted, not judged
            return ('reject', 'crash:' + type(e).__name__, str(e))
        return ('ok', text, [p.format() for p in params], ret.format())

    # ------------------------------------------------------------------
    def prepare(self, descs, r: ShardResult | None, only_opts=None, only_vec=None):
        """Interpreter + backend for a list of program descriptors -> blocks."""
        blocks: list[Block] = []
        for d in descs:
            prog = pg.build(d) if not isinstance(d, pg.Program) else d
            reset_interpreter()
            try:
                mod = load_source(pg.MODULE_PRELUDE + prog.src + (prog.wrapper or ''))
            except Exception as e:  # noqa: BLE001
                if r is not None:
                    r.count('rejected_by_frontend')
                    r.outcomes['frontend:' + type(e).__name__] += 1
                continue
            vecs = vectors(prog.args, self.tier, self.seed)
            if only_vec is not None:
                vecs = [only_vec]
            exp = self.interpret(prog, mod, vecs, r)
            mask = [e is not None for e in exp]
            if r is not None:
                r.count('programs')
                r.count('precondition_false', len(OPTION_SETS) * mask.count(False))
            by_text = {}
            for opt in (only_opts or OPTION_SETS):
                res = self.compile_program(prog, mod, opt)
                if r is not None:
                    r.count('compilations')
                if res[0] == 'reject':
                    if r is not None:
                        r.count('rejected_by_backend')
                        r.outcomes[f'reject:{res[1]}:unbox={opt[1]}'] += 1
                        if res[1].startswith('crash'):
                            r.notes.append(f'backend raised {res[1][6:]} instead of CppCompileError '
                                           f'(family {prog.desc[0]}): {res[2][:90]}')
                    continue
                key = (res[1], tuple(res[2]), res[3])
                if key in by_text:
                    by_text[key].opts.append(opt)
                    continue
                b = Block(None, prog, [opt], res[1], res[2], res[3], vecs, mask, exp, mod)
                by_text[key] = b
                blocks.append(b)
        for i, b in enumerate(blocks):
            b.bid = i
        return blocks

    def build_and_run(self, blocks: list[Block], r: ShardResult | None, keep_src=None):
        """-> ({(bid, k): (canon ret, canon arg0|None)}, {(bid): 'why'} for blocks that could not be built,
               {(bid, k): 'crash text'})"""
        results, broken, crashes = {}, {}, {}
        if not blocks:
            return results, broken, crashes
        tmp = tempfile.mkdtemp(prefix='vf_c11_')
        try:
            live = list(blocks)
            exe = os.path.join(tmp, 'unit.exe')
            src = os.path.join(tmp, 'unit.cpp')
            for attempt in range(4):
                tables = {}
                for b in live:
                    tables.setdefault(vec_key(b.prog.args, b.vecs), b.vecs)
                ranges = []
                text = render_unit(live, tables, ranges)
                with open(src, 'w') as f:
                    f.write(text)
                if keep_src is not None:
                    keep_src.append(text)
                rc, err = run_gxx(src, exe)
                if r is not None:
                    r.count('gxx_units')
                if rc == 0:
                    break
                # find the blocks g++ refuses: by the line numbers of its errors, else each block alone
                bad = []
                for m in re.finditer(r'unit\.cpp:(\d+):\d+: error: ([^\n]*)', err):
                    ln = int(m.group(1))
                    for lo, hi, bid in ranges:
                        if lo <= ln <= hi and bid not in broken:
                            broken[bid] = m.group(2) + '\n' + err[max(0, m.start() - 300):m.start() + 900]
                            bad.append(bid)
                for b in ([] if bad else live):
                    one = os.path.join(tmp, f'one{b.bid}.cpp')
                    with open(one, 'w') as f:
                        f.write(render_unit([b], {vec_key(b.prog.args, b.vecs): b.vecs}))
                    rc1, err1 = run_gxx(one, '', syntax_only=True)
                    if rc1 != 0:
                        bad.append(b.bid)
                        m1 = re.search(r'error: ([^\n]*)', err1)
                        broken[b.bid] = (m1.group(1) if m1 else 'error') + '\n' + err1[-1500:]
                if not bad:
                    raise RuntimeError('g++ failed on the unit but on no single block:\n' + err[-2000:])
                live = [b for b in live if b.bid not in broken]
                if not live:
                    return results, broken, crashes
            else:
                raise RuntimeError('translation unit still does not build')

            first, skipvec = 0, -1
            for _ in range(200):
                try:
                    p = subprocess.run([exe, str(first), str(skipvec)], capture_output=True, text=True, timeout=300)
                    rc, out, err = p.returncode, p.stdout, p.stderr
                except subprocess.TimeoutExpired as e:
                    so = e.stdout or ''
                    rc, out, err = -999, so.decode(errors='replace') if isinstance(so, bytes) else so, 'timeout (300 s)'
                last_start = None
                for line in out.splitlines():
                    toks = line.split()
                    if not toks:
                        continue
                    if toks[0] == 'S':
                        last_start = (int(toks[1]), int(toks[2]))
                    elif toks[0] == 'R':
                        bid, k = int(toks[1]), int(toks[2])
                        body = toks[3:]
                        if '|' in body:
                            cut = body.index('|')
                            ret = parse_tokens(body[:cut], [0])
                            arg0 = parse_tokens(body[cut + 1:], [0])
                        else:
                            ret, arg0 = parse_tokens(body, [0]), None
                        results[(bid, k)] = (ret, arg0)
                        last_start = None
                if rc == 0:
                    break
                if last_start is None:
                    raise RuntimeError(f'driver failed outside a kernel call: rc={rc} {err[-500:]}')
                crashes[last_start] = f'exit status {rc}: {err.strip()[-300:]}'
                first, skipvec = last_start
            return results, broken, crashes
        finally:
            shutil.rmtree(tmp, ignore_errors=True)

    # ------------------------------------------------------------------
    def judge(self, blocks, results, broken, crashes, r: ShardResult):
        for b in blocks:
            nopt = len(b.opts)
            prog = b.prog
            case_base = {'program': prog.to_json()}
            if b.bid in broken:
                r.count('evaluations', nopt)
                # the shape without widths: an ill-formed emission is a matter of program structure
                r.violate({'kind': 'emitted C++ rejected by g++', 'family': prog.desc[0],
                           **(prog.sig or {'shape': prog.shape.split(':w')[0]}),
                           'unbox': b.opts[0][1], 'gxx': _norm_err(broken[b.bid])},
                          dict(case_base, options=list(b.opts[0]), vector=None),
                          f'{prog.shape} [{opt_label(b.opts[0])}]: g++ refuses the emitted code\n{broken[b.bid][-800:]}\n{b.text}')
                continue
            for k, vec in enumerate(b.vecs):
                if not b.mask[k]:
                    continue
                r.count('evaluations', nopt)
                r.count('states', nopt)
                r.count('transitions')
                exp_ret, exp_arg, nontriv = b.expect[k]
                if nontriv:
                    r.count('nontrivial', nopt)
                case = dict(case_base, options=list(b.opts[0]), vector=_vec_json(vec))
                if (b.bid, k) in crashes:
                    r.outcomes['crash'] += 1
                    r.violate({'kind': 'compiled code aborts', 'family': prog.desc[0], 'shape': prog.shape,
                               'unbox': b.opts[0][1]}, case,
                              f'{prog.shape} [{opt_label(b.opts[0])}] args={vec!r}: interpreter returns {show(exp_ret)}, '
                              f'compiled code: {crashes[(b.bid, k)]}\n{b.text}')
                    continue
                got = results.get((b.bid, k))
                if got is None:
                    raise RuntimeError(f'no output for block {b.bid} vector {k} ({prog.shape})')
                ret, arg0 = got
                ok_ret = same(exp_ret, ret)
                r.outcomes[('ret:' + _outcome(exp_ret))] += 1
                if not ok_ret or (exp_arg is not None and not same(exp_arg, arg0)):
                    alt = self.alt_expect(b, k)
                    if alt is not None and same(alt[0], ret) and (alt[1] is None or same(alt[1], arg0)):
                        r.outcomes['disagree:rtn-zero-sum'] += 1
                        r.violate({'kind': 'return value', 'cause': RTN_CAUSE}, case,
                                  f'{prog.shape} [{"; ".join(opt_label(o) for o in b.opts)}] args={vec!r}\n'
                                  f'{first_diff(exp_ret, ret)}\ninterpreter: {show(exp_ret)}\ncompiled:    {show(ret)}\n'
                                  f'(the compiled result equals what the interpreter returns once x + (-x) and '
                                  f'(+0) + (-0) give -0 under RTN as IEEE 754-2019 6.3 requires)\n'
                                  f'--- program ---\n{prog.src}--- emitted ---\n{b.text}')
                        continue
                if (not ok_ret or (exp_arg is not None and not same(exp_arg, arg0))) and EMPTY_SHARED_RE.search(b.text):
                    r.outcomes['disagree:empty-rows-share-handle'] += 1
                    r.violate({'kind': 'return value', 'cause': EMPTY_CAUSE}, case,
                              f'{prog.shape} [{"; ".join(opt_label(o) for o in b.opts)}] args={vec!r}\n'
                              f'{first_diff(exp_ret, ret)}\ninterpreter: {show(exp_ret)}\ncompiled:    {show(ret)}\n'
                              f'(the emitted code fills the outer list with n copies of one row handle)\n'
                              f'--- program ---\n{prog.src}--- emitted ---\n{b.text}')
                    continue
                if not ok_ret:
                    sig = ({'kind': 'return value', 'family': prog.desc[0], **prog.sig, 'unbox': b.opts[0][1]}
                           if prog.sig else
                           {'kind': 'return value', 'diff': diff_class(exp_ret, ret), 'family': prog.desc[0],
                            'shape': prog.shape, 'unbox': b.opts[0][1], 'optimize': b.opts[0][0]})
                    r.violate(sig, case,
                              f'{prog.shape} [{"; ".join(opt_label(o) for o in b.opts)}] args={vec!r}\n'
                              f'{first_diff(exp_ret, ret)}\ninterpreter: {show(exp_ret)}\ncompiled:    {show(ret)}\n'
                              f'--- program ---\n{prog.src}--- emitted ---\n{b.text}')
                if exp_arg is not None:
                    r.count('transitions')
                    if not same(exp_arg, arg0):
                        r.violate({'kind': 'list argument after the call', 'diff': diff_class(exp_arg, arg0),
                                   'family': prog.desc[0], 'shape': prog.shape, 'unbox': b.opts[0][1],
                                   'optimize': b.opts[0][0]}, case,
                                  f'{prog.shape} [{"; ".join(opt_label(o) for o in b.opts)}] args={vec!r}\n'
                                  f'{first_diff(exp_arg, arg0, "arg0")}\nFPy caller sees: {show(exp_arg)}\n'
                                  f'C++ caller sees: {show(arg0)}\n--- program ---\n{prog.src}--- emitted ---\n{b.text}')
            r.sample({'shape': prog.shape, 'options': [opt_label(o) for o in b.opts], 'params': b.params, 'ret': b.ret,
                      'vector': repr(b.vecs[0]), 'interpreter': show(b.expect[0][0]) if b.mask[0] else 'raises'}, limit=1)

    def alt_expect(self, b: Block, k: int):
        """(ret, arg) of vector k under the IEEE-zero-sum interpreter, or None; classification only"""
        if b.mod is None or not ('N:' in b.prog.src or b.prog.ctx.endswith('N')):
            return None
        if b.alt is None:
            b.alt = {}
        if k not in b.alt:
            try:
                with ieee_zero_sums():
                    res = self.interpret(b.prog, b.mod, [b.vecs[k]], None)[0]
            except Exception:  # noqa: BLE001
                res = None
            b.alt[k] = None if res is None else (res[0], res[1])
        return b.alt[k]

    def run_shard(self, shard) -> ShardResult:
        i, n = shard
        r = ShardResult()
        c0 = time.process_time()
        ch0 = resource.getrusage(resource.RUSAGE_CHILDREN)
        descs = self.descs[i::n]
        # compiling the headers costs seconds per unit, a kernel a few ms: few, large units
        for lo in range(0, len(descs), UNIT_PROGRAMS):
            blocks = self.prepare(descs[lo:lo + UNIT_PROGRAMS], r)
            r.count('distinct_emissions', len(blocks))
            results, broken, crashes = self.build_and_run(blocks, r)
            self.judge(blocks, results, broken, crashes, r)
        ch1 = resource.getrusage(resource.RUSAGE_CHILDREN)
        r.count('cpu_ms_python', int(1000 * (time.process_time() - c0)))
        r.count('cpu_ms_gxx_and_run', int(1000 * ((ch1.ru_utime + ch1.ru_stime) - (ch0.ru_utime + ch0.ru_stime))))
        reset_interpreter()
        _drop_loader_scratch()
        return r

    # ------------------------------------------------------------------
    def replay(self, case):
        prog = pg.prog_from_json(case['program'])
        opt = tuple(case['options'])
        vec = _vec_unjson(case['vector']) if case.get('vector') is not None else None
        r = ShardResult()
        blocks = self.prepare([prog], r, only_opts=[opt], only_vec=vec)
        if not blocks:
            return False, f'{prog.shape} [{opt_label(opt)}]: not accepted by the backend any more: {dict(r.outcomes)}'
        keep = []
        results, broken, crashes = self.build_and_run(blocks, r, keep_src=keep)
        self.judge(blocks, results, broken, crashes, r)
        _drop_loader_scratch()
        if r.violations:
            return True, '\n'.join(v.detail for v in r.violations)
        b = blocks[0]
        return False, (f'{prog.shape} [{opt_label(opt)}] args={vec!r}: interpreter '
                       f'{show(b.expect[0][0]) if b.mask[0] else "raises"}; compiled {results}')


def _drop_loader_scratch():
    """pool workers end without running atexit handlers: remove this process's module scratch directory now
    (the loader makes a new one on demand)"""
    d = getattr(loader, '_DIR', None)
    if d and getattr(loader, '_PID', None) == os.getpid():
        shutil.rmtree(d, ignore_errors=True)


def _norm_err(text: str) -> str:
    """first g++ error line with identifiers that vary between runs removed"""
    first = text.strip().split('\n')[0]
    first = re.sub(r'__[0-9a-f]{8}', '', first)
    first = re.sub(r'\bb\d+::', '', first)
    first = re.sub(r'\b(float|double)\b', 'T', first)
    return first[:160]


def _copy(a):
    return [_copy(x) for x in a] if isinstance(a, list) else a


def _interesting(v) -> bool:
    if isinstance(v, Float):
        if v.isnan or v.isinf or (v.is_zero() and v.s):
            return True
        return bool(getattr(v.flags, 'inexact', False)) if getattr(v, 'flags', None) is not None else False
    if isinstance(v, (list, tuple)):
        return any(_interesting(x) for x in v)
    return False


def _outcome(c) -> str:
    if c[0] == 'n':
        return c[1] + ('-' if c[2] and c[1] in ('zero', 'inf') else '')
    if c[0] == 'b':
        return 'bool'
    return c[0] + str(len(c[1]))


def _vec_json(vec):
    def enc(x):
        if isinstance(x, list):
            return [enc(y) for y in x]
        return x.hex() if x == x else 'nan'
    return [enc(a) for a in vec]


def _vec_unjson(j):
    def dec(x):
        if isinstance(x, list):
            return [dec(y) for y in x]
        return math.nan if x == 'nan' else float.fromhex(x)
    return [dec(a) for a in j]
