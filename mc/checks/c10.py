"""
C10 — Rounding-lowering rewrites leave the rounding function unchanged.

Part A (lowering chain).  Space: quantizers `with C: y = round(x); return y` (and the
returned-round and cast variants) for every small configuration C of every context
family (constructed object captured by the program) x 8 modes x overflow modes x
every order-preserving sub-sequence (quick: every prefix, every single step and a few
pairs) of the documented chain

    unfold_special -> unfold_neg_zero -> unfold_overflow[early_check] -> float_to_fixed
    -> rescale_fixed -> simplify

x the per-binade operand grid of C01 (+ zeros, infinities, NaN).  Oracle: metamorphic,
quantize(x) vs lowered(x): same value (sign of zero, NaN, infinities); judged where the
original returns; the lowered program must then return too.  A TransformDeclined is a
legal outcome and is counted.  (The original side is tied to the rounding oracle by C01.)

Part B (identity roundings).  Space: small arithmetic programs pinned by `monomorphize`
to every (argument format, context) pair of a small pool, rewritten by `elim_round`, and
REAL-context programs rewritten by `insert_round(ctx)`; run on ALL members of the pinned
argument format.  Oracle: f(args) vs rewritten(args), same value.
"""

from __future__ import annotations

import itertools
from fractions import Fraction

from ..engine.runner import BaseCheck, ShardResult
from ..engine.adapt import to_x
from ..engine import ctxreg
from ..engine.loader import load_source
from ..model.xreal import X
from ..model import rounding as R
from .c01 import Config, rf, MODES, grid, _decoded

import fpy2 as fp
from fpy2 import strategies as st
from fpy2.number import Float

Q = Fraction

STEPS = ['special', 'negzero', 'overflow', 'overflow_early', 'f2f', 'rescale', 'simplify']


def apply_step(f, step):
    if step == 'special':
        return st.unfold_special(f)
    if step == 'negzero':
        return st.unfold_neg_zero(f)
    if step == 'overflow':
        return st.unfold_overflow(f)
    if step == 'overflow_early':
        return st.unfold_overflow(f, early_check=True)
    if step == 'f2f':
        return st.float_to_fixed(f)
    if step == 'rescale':
        return st.rescale_fixed(f)
    if step == 'simplify':
        return st.simplify(f)
    raise ValueError(step)


def chains(tier):
    base = ['special', 'negzero', 'overflow', 'f2f', 'rescale', 'simplify']
    out = []
    if tier == 'quick':
        for i in range(1, len(base) + 1):
            out.append(tuple(base[:i]))
        for s in base:
            out.append((s,))
        out += [('overflow_early',), ('special', 'negzero', 'overflow_early', 'f2f', 'rescale', 'simplify'),
                ('overflow', 'f2f'), ('f2f', 'rescale'), ('f2f', 'simplify'), ('overflow', 'f2f', 'rescale', 'simplify'),
                ('special', 'f2f', 'rescale'), ('negzero', 'overflow', 'f2f', 'rescale', 'simplify')]
    else:
        for mask in range(1, 1 << len(base)):
            c = tuple(b for i, b in enumerate(base) if mask >> i & 1)
            out.append(c)
            if 'overflow' in c:
                out.append(tuple('overflow_early' if b == 'overflow' else b for b in c))
    seen, res = set(), []
    for c in out:
        if c not in seen:
            seen.add(c)
            res.append(c)
    return res


QUANT_SRC = '''
from mc.engine import ctxreg
CTX = ctxreg.REG[{key!r}]

@fp.fpy(ctx=fp.REAL)
def q_assign(x):
    with CTX:
        y = fp.round(x)
    return y

@fp.fpy(ctx=fp.REAL)
def q_return(x):
    with CTX:
        return fp.round(x)

@fp.fpy(ctx=fp.REAL)
def q_cast(x):
    with CTX:
        y = fp.cast(x)
    return y

@fp.fpy(ctx=fp.REAL)
def q_two(x):
    with CTX:
        y = fp.round(x)
    with CTX:
        z = fp.round(y)
    return z
'''


def configs(tier):
    from .c17 import configs as c17cfg
    from .c01 import configs as c01cfg
    if tier == 'quick':
        out = c17cfg('quick')
        # substitutes and formats without specials: the arms unfold_special states
        out += [Config('MPFloat', {'p': 2, 'nan': False, 'inf': False, 'nan_value': 0, 'inf_value': 1}),
                Config('MPSFloat', {'p': 2, 'emin': -1, 'nan': False, 'inf': False, 'nan_value': 0, 'inf_value': Q(1, 2)}),
                Config('MPBFloat', {'p': 2, 'emin': 0, 'maxval': 6, 'nan': False, 'inf': False, 'nan_value': 0,
                                    'inf_value': 1}),
                Config('MPBFloat', {'p': 2, 'emin': 0, 'maxval': 6, 'neg_maxval': -2}),
                Config('MPFixed', {'nmin': -2, 'nan': True, 'inf': True}),
                Config('MPFixed', {'nmin': -2, 'negzero': False, 'nan_value': 0, 'inf_value': 1}),
                Config('MPBFixed', {'nmin': -1, 'maxval': 5, 'negzero': False, 'nan': True, 'inf': True}),
                Config('MPBFixed', {'nmin': -1, 'maxval': 5, 'nan_value': 0, 'inf_value': 2}),
                Config('EFloat', {'es': 2, 'nbits': 4, 'inf': False, 'nan_kind': 'NONE', 'eoffset': 0, 'nan_value': 0,
                                  'inf_value': None}),
                Config('EFloat', {'es': 2, 'nbits': 4, 'inf': False, 'nan_kind': 'NEG_ZERO', 'eoffset': 0,
                                  'nan_value': None, 'inf_value': 0}),
                Config('Exp', {'nbits': 3, 'eoffset': 0}), Config('REAL', {})]
        # encodable fixed-point formats with substitutes that differ from each other
        out += [Config('SMFixed', {'scale': 0, 'nbits': 3, 'nan_value': 0, 'inf_value': 2}),
                Config('SMFixed', {'scale': -1, 'nbits': 4, 'nan_value': None, 'inf_value': 3}),
                Config('SMFixed', {'scale': 0, 'nbits': 3, 'nan_value': 1, 'inf_value': None}),
                Config('Fixed', {'signed': True, 'scale': 0, 'nbits': 4, 'nan_value': 0, 'inf_value': 5}),
                Config('Fixed', {'signed': False, 'scale': -1, 'nbits': 3, 'nan_value': 1, 'inf_value': 2})]
        # NaN and infinity options that differ from each other (each alone)
        for nan, inf in ((True, False), (False, True)):
            out += [Config('MPBFixed', {'nmin': -1, 'maxval': 5, 'nan': nan, 'inf': inf}),
                    Config('MPFixed', {'nmin': -2, 'nan': nan, 'inf': inf}),
                    Config('MPBFloat', {'p': 2, 'emin': 0, 'maxval': 6, 'nan': nan, 'inf': inf}),
                    Config('MPSFloat', {'p': 2, 'emin': -1, 'nan': nan, 'inf': inf}),
                    Config('MPFloat', {'p': 2, 'nan': nan, 'inf': inf})]
        return out
    out = [c for c in c01cfg('quick') if not (c.family == 'EFloat' and c.params['nbits'] > 4)]
    have = {c.key() for c in out}
    return out + [c for c in configs('quick') if c.key() not in have]


def operands(spec, tier):
    fine = 2 if tier == 'quick' else 4
    # operands are Float values (the statement's alphabet: finite, subnormal, past the threshold,
    # zeros, infinities, NaN); a non-dyadic Fraction argument is not a Float and the lowered
    # program's exact `logb`/scaling under REAL does not offer it (cf. C01: REAL refuses 1/3)
    mags = [m for m in grid(spec, fine) if m.denominator & (m.denominator - 1) == 0]
    out = []
    for m in mags:
        for s in (False, True):
            q = -m if s else m
            if q.denominator & (q.denominator - 1) == 0:
                out.append((str(q), Float(x=rf(q))))
            else:
                out.append((str(q), q))
    out += [('+0', Float(s=False, c=0, exp=0)), ('-0', Float(s=True, c=0, exp=0)), ('+inf', Float(isinf=True)),
            ('-inf', Float(s=True, isinf=True)), ('nan', Float(isnan=True)), ('-nan', Float(s=True, isnan=True)),
            ('0.0f', 0.0), ('-0.0f', -0.0), ('1i', 1), ('-3i', -3)]
    return out


def operand_from_text(t):
    table = {'+0': Float(s=False, c=0, exp=0), '-0': Float(s=True, c=0, exp=0), '+inf': Float(isinf=True),
             '-inf': Float(s=True, isinf=True), 'nan': Float(isnan=True), '-nan': Float(s=True, isnan=True),
             '0.0f': 0.0, '-0.0f': -0.0, '1i': 1, '-3i': -3}
    if t in table:
        return table[t]
    q = Fraction(t)
    return Float(x=rf(q)) if q.denominator & (q.denominator - 1) == 0 else q


def run(f, arg):
    try:
        return ('val', to_x(f(arg)))
    except Exception as e:     # noqa: BLE001 - any failure of the program is an observation
        return ('err', type(e).__name__ + ': ' + str(e)[:120])


def klass(x) -> str:
    if isinstance(x, Float):
        if x.isnan:
            return 'nan'
        if x.isinf:
            return 'inf'
        if x.is_zero():
            return 'zero'
    if isinstance(x, (int, float, Fraction)) and x == 0:
        return 'zero'
    return 'finite'


# ---------------------------------------------------------------------------
# Part B programs

ID_SRC = '''
from mc.engine import ctxreg
COUT = ctxreg.REG[{kout!r}]

@fp.fpy
def mul(x: fp.Real, y: fp.Real) -> fp.Real:
    return x * y

@fp.fpy
def add(x: fp.Real, y: fp.Real) -> fp.Real:
    return x + y

@fp.fpy
def sub(x: fp.Real, y: fp.Real) -> fp.Real:
    return x - y

@fp.fpy
def muladd(x: fp.Real, y: fp.Real) -> fp.Real:
    t = x * y
    return t + x

@fp.fpy
def rnd(x: fp.Real, y: fp.Real) -> fp.Real:
    t = fp.round(x)
    return t - y

@fp.fpy
def negabs(x: fp.Real, y: fp.Real) -> fp.Real:
    return abs(-x) + y

@fp.fpy
def inner(x: fp.Real, y: fp.Real) -> fp.Real:
    with COUT:
        t = x * y
    return t

@fp.fpy(ctx=fp.REAL)
def real_mul(x: fp.Real, y: fp.Real) -> fp.Real:
    t = x * y
    return t

@fp.fpy(ctx=fp.REAL)
def real_sumsq(x: fp.Real, y: fp.Real) -> fp.Real:
    t = x * x + y * y
    return t

@fp.fpy(ctx=fp.REAL)
def real_sub(x: fp.Real, y: fp.Real) -> fp.Real:
    t = x - y
    return t
'''

ID_ELIM = ['mul', 'add', 'sub', 'muladd', 'rnd', 'negabs', 'inner']
ID_INSERT = ['real_mul', 'real_sumsq', 'real_sub']


def id_pool(tier):
    """(name, Config) pool for argument formats and contexts"""
    pool = [('ieee24', Config('IEEE', {'es': 2, 'nbits': 4})), ('ieee35', Config('IEEE', {'es': 3, 'nbits': 5})),
            ('ieee36', Config('IEEE', {'es': 3, 'nbits': 6})), ('ieee48', Config('IEEE', {'es': 4, 'nbits': 8})),
            ('fix3', Config('Fixed', {'signed': True, 'scale': -1, 'nbits': 3})),
            ('ufix3', Config('Fixed', {'signed': False, 'scale': 0, 'nbits': 3})),
            ('negz', Config('EFloat', {'es': 2, 'nbits': 4, 'inf': False, 'nan_kind': 'NEG_ZERO', 'eoffset': 0})),
            ('mpfix', Config('MPFixed', {'nmin': -3}))]
    if tier != 'quick':
        pool += [('ieee25', Config('IEEE', {'es': 2, 'nbits': 5})), ('smfix4', Config('SMFixed', {'scale': -1, 'nbits': 4})),
                 ('none4', Config('EFloat', {'es': 2, 'nbits': 4, 'inf': True, 'nan_kind': 'NONE', 'eoffset': 1})),
                 ('fix4', Config('Fixed', {'signed': True, 'scale': 0, 'nbits': 4}))]
    return pool


class Check(BaseCheck):
    pid = 'C10'
    rule = ('A: (context configuration, mode, overflow, quantizer variant, chain sub-sequence, operand); B: (program, '
            'argument format, context, rewrite, operand pair) over all members.  nontrivial = distinct (context, '
            'variant, chain) whose rewritten program text differs from the original, counted once')
    assumptions = ['where=None application (all sites); refused sites are left alone by the strategy',
                   'operands are dyadic (Float) values; non-dyadic Fraction arguments are outside the alphabet',
                   'operands on which the original quantizer raises are not judged',
                   'stochastic contexts are not lowered (not deterministic)']

    def __init__(self, tier, seed):
        super().__init__(tier, seed)
        self.cfgs = configs(tier)
        self.chains = chains(tier)
        self.pool = id_pool(tier)

    def bounds(self):
        return {'configurations': len(self.cfgs), 'chains': len(self.chains), 'modes': 8,
                'identity_pool': [n for n, _ in self.pool]}

    def shards(self):
        a = [('A', i, m) for i in range(len(self.cfgs)) for m in range(8)]
        b = [('B', i, j) for i in range(len(self.pool)) for j in range(len(self.pool))]
        return a + b

    # ---- part A --------------------------------------------------------
    def lower_all(self, r, f0):
        """chain -> (function | None, changed-steps) with memoised prefixes"""
        memo = {(): (f0, ())}
        text0 = f0.format()

        def get(chain):
            if chain in memo:
                return memo[chain]
            f, changed = get(chain[:-1])
            if f is None:
                memo[chain] = (None, changed)
                return memo[chain]
            try:
                g = apply_step(f, chain[-1])
            except st.TransformDeclined:
                r.outcomes['declined'] += 1
                g = f
            except Exception as e:       # noqa: BLE001
                memo[chain] = (None, changed + (chain[-1] + '!' + type(e).__name__ + ':' + str(e)[:80],))
                return memo[chain]
            if g.format() != f.format():
                changed = changed + (chain[-1],)
            memo[chain] = (g, changed)
            return memo[chain]
        return {c: get(c) for c in self.chains}, text0

    def run_context(self, r, cfg, mode, ovf):
        try:
            ctx, spec = cfg.build(mode, ovf)
        except ValueError:
            r.count('rejected_configurations')
            return
        key = f'c10-{cfg.text()}-{mode}-{ovf}'
        ctxreg.REG[key] = ctx
        try:
            mod = load_source(QUANT_SRC.format(key=key))
        finally:
            del ctxreg.REG[key]
        ops = operands(spec, self.tier)
        r.count('contexts')
        variants = ['q_assign', 'q_return', 'q_cast'] if self.tier != 'quick' else ['q_assign', 'q_return']
        if cfg.family in ('IEEE', 'MPBFixed') or self.tier != 'quick':
            variants = variants + ['q_two']
        for vname in variants:
            f0 = getattr(mod, vname)
            lowered, text0 = self.lower_all(r, f0)
            base = [(t, a, run(f0, a)) for t, a in ops]
            distinct = {}
            for chain, (g, changed) in lowered.items():
                case0 = {'part': 'A', 'family': cfg.family, 'params': {k: str(v) for k, v in cfg.params.items()},
                         'mode': mode, 'overflow': ovf, 'variant': vname, 'chain': list(chain)}
                if g is None:
                    r.violate({'part': 'A', 'family': cfg.family, 'kind': 'strategy-raised',
                               'step': changed[-1].split('!')[0]}, case0,
                              f'{cfg.text()} rm={mode} ov={ovf} {vname} chain {chain}: {changed[-1]}')
                    continue
                text = g.format()
                if text == text0:
                    r.outcomes['unchanged'] += 1
                    continue
                if text in distinct:
                    continue
                distinct[text] = chain
                r.count('nontrivial')
                r.count('states')
                for t, a, b in base:
                    if b[0] == 'err':
                        r.count('precondition_false')
                        continue
                    r.count('evaluations')
                    r.count('transitions')
                    got = run(g, a)
                    ok = got[0] == 'val' and got[1].same(b[1])
                    r.outcomes[f'{klass(a)}:{"ok" if ok else "DIFF"}'] += 1
                    if not ok:
                        case = dict(case0)
                        case['operand'] = t
                        r.violate({'part': 'A', 'family': cfg.family, 'steps': '+'.join(changed), 'class': klass(a),
                                   'overflow_mode': ovf if spec.maxpos is not None else '-'},
                                  case, f'{cfg.text()} rm={mode} ov={ovf} {vname} after {"->".join(chain)} '
                                        f'(changed by {changed}): operand {t}: original {b[1]}, lowered '
                                        f'{got[1] if got[0] == "val" else got[1]}')
            if len(r.samples) < 1 and distinct:
                r.sample({'context': cfg.text(), 'mode': mode, 'overflow': ovf, 'variant': vname,
                          'distinct_lowered_programs': len(distinct), 'operands': len(ops)})

    # ---- part B --------------------------------------------------------
    def run_identity(self, r, i, j):
        from fpy2.types import RealType
        nin, cin = self.pool[i]
        nout, cout = self.pool[j]
        try:
            ctx_in, spec_in = cin.build('RNE', 'OVERFLOW' if cin.family not in ('Fixed', 'SMFixed') else 'SATURATE')
            ctx_out, spec_out = cout.build('RNE', 'OVERFLOW' if cout.family not in ('Fixed', 'SMFixed') else 'SATURATE')
        except ValueError:
            return
        key = f'c10B-{nout}'
        ctxreg.REG[key] = ctx_out
        try:
            mod = load_source(ID_SRC.format(kout=key))
        finally:
            del ctxreg.REG[key]
        # all members of the argument format
        if hasattr(ctx_in, 'total_bits'):
            mem = [ctx_in.decode(b) for b in range(1 << ctx_in.total_bits())]
        else:
            mem = [ctx_in.round(Q(k, 16)) for k in range(-40, 41)]
        seen, members = set(), []
        for m in mem:
            k = to_x(m).key()
            if k not in seen:
                seen.add(k)
                members.append(m)
        pairs = list(itertools.product(members, members))
        if len(pairs) > 1200 and self.tier == 'quick':
            members2 = members[::2] + [m for m in members if m.is_nar() or m.is_zero()]
            pairs = list(itertools.product(members, members2))
        for name in ID_ELIM + ID_INSERT:
            f = getattr(mod, name)
            case0 = {'part': 'B', 'program': name, 'arg_format': nin, 'context': nout}
            try:
                if name in ID_ELIM:
                    pinned = st.monomorphize(f, ctx_out, [RealType(ctx_in)] * 2)
                    g = st.elim_round(pinned)
                    rewrite = 'elim_round'
                else:
                    pinned = st.monomorphize(f, None, [RealType(ctx_in)] * 2)
                    g = st.insert_round(pinned, ctx_out)
                    rewrite = 'insert_round'
            except (st.TransformDeclined, ValueError, TypeError) as e:
                r.outcomes[f'B:declined:{type(e).__name__}'] += 1
                continue
            except Exception as e:       # noqa: BLE001
                r.violate({'part': 'B', 'kind': 'strategy-raised', 'program': name}, case0,
                          f'{name} args {nin} ctx {nout}: {type(e).__name__}: {e}')
                continue
            r.count('states')
            if g.format() == pinned.format():
                r.outcomes['B:unchanged'] += 1
                continue
            r.count('nontrivial')
            for a, b in pairs:
                r.count('evaluations')
                r.count('transitions')
                try:
                    want = ('val', to_x(pinned(a, b)))
                except Exception:        # noqa: BLE001
                    r.count('precondition_false')
                    continue
                try:
                    got = ('val', to_x(g(a, b)))
                except Exception as e:   # noqa: BLE001
                    got = ('err', type(e).__name__ + ': ' + str(e)[:100])
                ok = got[0] == 'val' and got[1].same(want[1])
                r.outcomes[f'B:{rewrite}:{"ok" if ok else "DIFF"}'] += 1
                if not ok:
                    case = dict(case0)
                    case['a'] = str(to_x(a))
                    case['b'] = str(to_x(b))
                    r.violate({'part': 'B', 'rewrite': rewrite, 'program': name, 'arg_format': nin, 'context': nout},
                              case, f'{rewrite} of {name} with {nin} arguments under {nout}: ({to_x(a)}, {to_x(b)}): '
                                    f'original {want[1]}, rewritten {got[1]}')
        if i == 0 and j == 2:
            r.sample({'part': 'B', 'arg_format': nin, 'context': nout, 'pairs': len(pairs),
                      'programs': ID_ELIM + ID_INSERT})

    def run_shard(self, shard):
        r = ShardResult()
        if shard[0] == 'A':
            _, i, m = shard
            cfg = self.cfgs[i]
            for ovf in cfg.overflow_modes():
                self.run_context(r, cfg, MODES[m], ovf)
        else:
            self.run_identity(r, shard[1], shard[2])
        return r

    def replay(self, case):
        r = ShardResult()
        if case['part'] == 'A':
            P = {}
            for a, v in case['params'].items():
                if v in ('True', 'False'):
                    P[a] = v == 'True'
                elif v == 'None':
                    P[a] = None
                elif a == 'nan_kind' or v in ('inf', 'nan'):
                    P[a] = v
                else:
                    P[a] = Fraction(v) if '/' in v else int(v)
            cfg = Config(case['family'], P)
            ctx, spec = cfg.build(case['mode'], case['overflow'])
            key = 'c10-replay'
            ctxreg.REG[key] = ctx
            mod = load_source(QUANT_SRC.format(key=key))
            f0 = getattr(mod, case['variant'])
            g = f0
            for s in case['chain']:
                try:
                    g = apply_step(g, s)
                except st.TransformDeclined:
                    pass
                except Exception as e:     # noqa: BLE001
                    return True, f'step {s} raised {type(e).__name__}: {e}'
            if 'operand' not in case:
                return False, 'strategies applied without error'
            a = operand_from_text(case['operand'])
            b, got = run(f0, a), run(g, a)
            text = f'original({case["operand"]}) = {b[1]}; lowered = {got[1]}\n--- lowered program ---\n{g.format()}'
            bad = b[0] == 'val' and not (got[0] == 'val' and got[1].same(b[1]))
            return bad, text
        # part B: re-run the (arg format, context) cell and filter
        names = [n for n, _ in self.pool]
        self.run_identity(r, names.index(case['arg_format']), names.index(case['context']))
        vs = [v for v in r.violations if v.case.get('program') == case['program']]
        if vs:
            return True, '\n'.join(v.detail for v in vs[:3])
        return False, 'rewritten program agrees with the original on all member pairs'
