"""
C04 — Programs evaluate by the documented context-scoped semantics.

Differential check of the real `Function.__call__(*args, ctx=...)` against the reference
evaluator `mc.model.fpyref` (a direct big-step evaluator of the *source text*, written
from docs/source/dev/semantics.rst, derived-semantics.rst and docs/USAGE.md; it parses
with Python's `ast`, keeps the documented state (environment, list cells, active context
as an explicit parameter) and rounds through the C01 rounding oracle).

Space, four parts, all enumerated (no sampling):

T  operator table: every expression tree of depth <= 1 (one operator over the leaves
   u, v, us and small integer literals; plus every binary arithmetic / comparison / min /
   max row with an exact literal 0 or 0.1 as one operand) x ALL ordered pairs (u, v) of
   the 17-value pool x lists x every context of the caller pool.
E  expressions: every tree of depth <= 2 per operator row (children = all depth <= 1
   trees of the child's type; quick: at most one non-leaf child per root, thorough: at
   most two) x the input tuples x every context of the caller pool (5 contexts).
S  statements: every skeleton of <= N statement nodes (assign, tuple pattern, aug-assign,
   alias, indexed assign, calls to 3 fixed helpers -- no context / declared context +
   early return inside a `with` / list-mutating --, assert, expression statement, early
   return at the end of any block, if/else, one-armed if, for, while, `with C`,
   `with C as c`), holes filled by fixed rotations over small pools (12 numeric, 7 boolean,
   6 iterables, 5 contexts incl. REAL, a global, a constructor with arguments computed
   from 1/3 and from a run-time length), a probe `ps[j] = 1 / 3` after each compound
   statement x input tuples x caller context in {absent, a small RTZ float, REAL}.
X  context expressions: 11 spellings of a `with` expression (literal, positional, keyword-only,
   mixed, nested arithmetic, non-call if-expressions; arguments computed at run time and inexact
   under a 3-bit context) x 4 narrow ambients (caller context, enclosing `with`, declared function
   context, callee reached from inside a `with`).
I  integer-producing forms: 16 programs observing an index / count without an arithmetic node
   (enumerate, range/1-3, len, size, dim, loop indices; returned, bound plainly, used as list index or
   slice bound) on lists of length 4-6 (> 2**p) x {caller, declared, `with`} x 4 contexts of
   precision 1 and 2.
D  call graphs f -> g -> h: every choice of declared context (none / a float / REAL) for
   each of the three functions x every choice of `with` block (none / 2 contexts) around
   each of the two call sites (243 programs), h writing a list f reads afterwards.

Oracle: returned value deep (exact rational equality, zero sign, NaN-ness, list/tuple
shape, booleans) or "both raise" (error type compared only where the docs name it).
Where the reference is silent the evaluator says Unspecified and the case is counted,
not judged.
"""

from __future__ import annotations

import ast
from fractions import Fraction

from ..engine.runner import BaseCheck, ShardResult
from ..engine.adapt import to_x
from ..engine.loader import load_source
from ..engine import progen_c04 as G
from ..model import fpyref as M
from ..model.xreal import X

import fpy2 as fp
from fpy2.number import Float, RealFloat, Context
from fpy2.interpret import get_default_interpreter

Q = Fraction

# ---------------------------------------------------------------------------
# inputs

VALS = ['0', '-0', '1/2', '-1/2', '1', '-1', '3/2', '-3/2', '2', '-2', '3', '-3',     # a 4-bit float (es=2, p=2)
        'inf', '-inf', 'nan', '1/3', '1/10']


def model_val(s):
    if isinstance(s, list):
        return [model_val(x) for x in s]
    if s == 'nan':
        return X.nan()
    if s in ('inf', '-inf'):
        return X.inf(s[0] == '-')
    if s in ('0', '-0'):
        return X.zero(s[0] == '-')
    return X.fin(Q(s))


def real_val(s):
    if isinstance(s, list):
        return [real_val(x) for x in s]
    if s == 'nan':
        return Float(isnan=True)
    if s in ('inf', '-inf'):
        return Float(isinf=True, s=(s[0] == '-'))
    if s in ('0', '-0'):
        return Float(s=(s[0] == '-'), exp=0, c=0)
    q = Q(s)
    d = q.denominator
    if d & (d - 1) == 0:
        return Float(x=RealFloat(s=q < 0, exp=-(d.bit_length() - 1), c=abs(q.numerator)))
    return q


def input_tuples():
    out = []
    n = len(VALS)
    for i, u in enumerate(VALS):
        v = VALS[(7 * i + 3) % n]
        us = [VALS[(3 * i + 5 * j + 1) % n] for j in range(i % 4)]
        out.append([u, v, us])
    # lists of every length with only ordinary values, and one holding specials
    out.append(['1/3', '3', ['1', '1/3', '2']])
    out.append(['3', '1/10', ['1/10', '3']])
    out.append(['1', '2', ['nan', '-0', 'inf']])
    return out


EXPR_CTXS = [None, 'fp.IEEEContext(3, 6, fp.RM.RTZ)', 'fp.REAL', 'fp.MPFixedContext(-2, fp.RM.RNE)',
             'fp.MPFloatContext(2, fp.RM.RAZ)']
STMT_CTXS = [None, 'fp.IEEEContext(4, 9, fp.RM.RTZ)', 'fp.REAL']

_ctx_cache: dict = {}


def contexts(text):
    """(real context or None, model context or None) for a constructor text"""
    if text is None:
        return None, None
    if text not in _ctx_cache:
        real = eval(text, {'fp': fp})          # noqa: S307 -- fixed pool texts
        model = M.Program(f'CTX = {text}\n').globals['CTX']
        _ctx_cache[text] = (real, model)
    return _ctx_cache[text]


def conv(v):
    """real return value -> model value"""
    if isinstance(v, bool):
        return v
    if isinstance(v, list):
        return [conv(x) for x in v]
    if isinstance(v, tuple):
        return tuple(conv(x) for x in v)
    if isinstance(v, Context):
        return ('context', repr(v))
    if isinstance(v, (Float, RealFloat, Fraction, int, float)):
        return to_x(v)
    return ('foreign', repr(v))


def show_obs(o):
    if o[0] == 'val':
        return M.show(o[1])
    return f'{o[0]}: ' + ' '.join(str(x) for x in o[1:])


def run_model(prog: M.Program, fname, inp, ctext):
    _, mctx = contexts(ctext)
    M.STATS['inexact'] = 0
    try:
        return ('val', prog.call_from_python(fname, [model_val(a) for a in inp], mctx))
    except M.Unspecified as e:
        return ('unspecified', str(e))
    except M.Stuck as e:
        return ('stuck', e.etype or '', e.why)
    except RecursionError:
        return ('unspecified', 'recursion limit in the reference')


def run_real(f, inp, ctext):
    rctx, _ = contexts(ctext)
    try:
        return ('val', conv(f(*[real_val(a) for a in inp], ctx=rctx)))
    except Exception as e:      # noqa: BLE001 -- any exception is the observation "raises"
        return ('raise', type(e).__name__, str(e)[:200])


def judge(ref, got):
    """-> None (agree / not judged) or (kind, text)"""
    if ref[0] == 'unspecified':
        return None
    if ref[0] == 'val':
        if got[0] == 'val':
            if M.same_value(ref[1], got[1]):
                return None
            return ('value', diff_class(ref[1], got[1]))
        return ('raises', got[1])
    # reference is stuck
    if got[0] == 'val':
        return ('returns-where-stuck', ref[2])
    if ref[1] and got[1] != ref[1]:
        return ('error-type', f'{got[1]} instead of {ref[1]}')
    return None


def diff_class(ref, got, path='') -> str:
    """where and how two values differ (coarse, for the signature)"""
    if isinstance(ref, (list, tuple)):
        if type(ref) is not type(got):
            return path + 'container-type'
        if len(ref) != len(got):
            return path + 'length'
        for i, (a, b) in enumerate(zip(ref, got)):
            if not M.same_value(a, b):
                tag = '' if isinstance(ref, list) else f'{i}.'
                return diff_class(a, b, path + tag)
        return path + '?'
    if isinstance(ref, bool) or isinstance(got, bool):
        return path + ('bool' if isinstance(ref, bool) and isinstance(got, bool) else 'type')
    if isinstance(ref, X) and isinstance(got, X):
        if ref.kind != got.kind:
            return path + f'{ref.kind}-vs-{got.kind}'
        if ref.isfin and ref.q == got.q:
            return path + 'zero-sign'
        if ref.isinf:
            return path + 'inf-sign'
        return path + 'number'
    return path + 'type'


# ---------------------------------------------------------------------------

BATCH = 40


class Check(BaseCheck):
    pid = 'C04'
    rule = ('T: all depth<=1 expression trees x all ordered (u,v) pairs of the 17-value pool x 5 caller contexts; '
            'E: all depth<=2 trees per operator row (bounded number of non-leaf children) x input tuples x 5 contexts; '
            'S: all statement skeletons of <= N nodes, holes filled by fixed rotations, x input tuples x 3 caller '
            'contexts; D: all 243 declared-context / call-site-with assignments of a 3-function call chain x input '
            'tuples x 3 caller contexts.  nontrivial = the reference evaluation performed at least one inexact '
            'rounding (so the value depends on which context was active) or got stuck')
    assumptions = [
        'mc.model.rounding is the rounding function of each pool context (tied to the real contexts by C01 and by '
        'this check\'s selfcheck on a grid)',
        'zero signs follow IEEE 754 where the FPy documents are silent; exact cancellation under RTN and `%` zero '
        'results are compared up to sign',
        'observations the documents leave open (error types, negated literals not representable in the active '
        'context, zip of unequal lengths with a longer later list, fst/snd beyond pairs) are counted as unspecified',
    ]
    trusted_base = ['mc/model/fpyref.py', 'mc/model/rounding.py', 'mc/model/xreal.py', 'python ast']

    def __init__(self, tier, seed):
        super().__init__(tier, seed)
        self.quick = tier == 'quick'
        self.expr_level = 1 if self.quick else 2
        self.sizes = [1, 2, 3] if self.quick else [1, 2, 3, 4]
        self.rots = [0] if self.quick else [0, 1]
        self.inputs = input_tuples()
        # E part: a fixed core of input tuples (+ 2 more rotated by the seed in the quick tier; all of
        # them for the depth<=1 trees, which the T part additionally runs on all (u, v) pairs)
        n = len(self.inputs)
        core = [0, 2, 3, 5, 7, 9, 10, 14, 15, 17, 18, 19]
        rest = [i for i in range(n) if i not in core]
        extra = [rest[(2 * seed) % len(rest)], rest[(2 * seed + 1) % len(rest)]] if self.quick else [1, 13]
        self.e_inputs = [self.inputs[i] for i in sorted(set(core + extra))]

    def bounds(self):
        return {'expr_depth': 2, 'expr_nonleaf_children': self.expr_level, 'stmt_nodes': self.sizes[-1],
                'hole_rotations': len(self.rots), 'inputs': len(self.inputs), 'values': len(VALS),
                'expr_contexts': len(EXPR_CTXS), 'stmt_contexts': len(STMT_CTXS)}

    # ---- selfcheck: the model contexts are the real contexts on a grid -----------
    def selfcheck(self):
        texts = [t for t in EXPR_CTXS + STMT_CTXS if t] + \
                ['fp.MPFixedContext(-3, fp.RM.RAZ)', 'fp.MPFloatContext(3, fp.RM.RTP)', 'fp.IEEEContext(3, 7, fp.RM.RNE)',
                 'fp.FP64'] + G.TINY
        for t in texts:
            rc, mc = contexts(t)
            for k in range(-200, 201):
                q = Q(k, 16)
                want = M.rnd(mc, X.fin(q))
                got = to_x(rc.round(q))
                if not want.same(got, zero_sign=False):
                    raise RuntimeError(f'model context {t} disagrees with the real one at {q}: {want} vs {got}')
        # vacuity canary: a context leaking past its block must be visible to the comparison
        src = G.HELPERS + '@fp.fpy\ndef f(u, v, us):\n    with C0:\n        a = u / 3\n    return (a, 1 / 3)\n'
        prog = M.Program(src)
        ref = run_model(prog, 'f', ['1', '1', []], None)
        leaked = ('val', (ref[1][0], ref[1][0]))
        if judge(ref, leaked) is None:
            raise RuntimeError('canary: a leaked context is not visible')

    # ---- shards -----------------------------------------------------------------
    def shards(self):
        sh = [('T', i, 8) for i in range(8)] + [('D', i, 4) for i in range(4)] + [('X', 0, 1), ('I', 0, 1)]
        ne = 24 if self.quick else 64
        sh += [('E', i, ne) for i in range(ne)]
        for n in self.sizes:
            m = {1: 1, 2: 1, 3: 8, 4: 96}[n]
            if n <= 3:
                rots = list(self.rots)
                if self.quick and n <= 2:
                    rots.append(1 + self.seed % 3)      # the seed only adds a slice on top of the fixed core
            else:
                rots = [0]
            for rot in rots:
                sh += [('S', n, rot, i, m) for i in range(m)]
        return sh

    def run_shard(self, shard):
        r = ShardResult()
        if shard[0] == 'T':
            self.run_table(r, shard[1], shard[2])
        elif shard[0] == 'E':
            self.run_exprs(r, shard[1], shard[2])
        elif shard[0] == 'D':
            self.run_callgraphs(r, shard[1], shard[2])
        elif shard[0] == 'X':
            self.run_ctxexprs(r)
        elif shard[0] == 'I':
            self.run_intforms(r)
        else:
            self.run_stmts(r, *shard[1:])
        return r

    # ---- loading ----------------------------------------------------------------
    def load_batch(self, r, header, funcs):
        """funcs: list of (name, text).  -> (module-like dict name->Function, Program)"""
        src = header + '\n'.join(t for _, t in funcs)
        # the default interpreter caches every compiled function for ever: drop the previous batch
        cache = getattr(get_default_interpreter(), 'func_cache', None)
        if cache is not None:
            cache.clear()
        try:
            mod = load_source(src)
            real = {n: getattr(mod, n) for n, _ in funcs}
        except Exception:        # noqa: BLE001 -- the front end rejected something: find out what
            real = {}
            for n, t in funcs:
                try:
                    real[n] = getattr(load_source(header + t), n)
                except Exception as e:      # noqa: BLE001
                    r.count('rejected_by_frontend')
                    r.outcomes[f'rejected:{type(e).__name__}'] += 1
                    r.notes.append(f'front end rejected: {t!r}: {type(e).__name__}: {str(e)[:120]}')
        prog = M.Program(src)
        return real, prog, src

    def one(self, r, layer, row, src, real, prog, fname, text, inp, ctext):
        r.count('evaluations')
        r.count('states')
        ref = run_model(prog, fname, inp, ctext)
        inexact = M.STATS['inexact']
        if ref[0] == 'unspecified':
            r.count('unspecified')
            r.outcomes['unspecified:' + ref[1][:40]] += 1
            return
        got = run_real(real[fname], inp, ctext)
        r.count('transitions')
        if got[0] == 'raise' and got[1] == 'NotImplementedError':
            # the operation is not offered under this context (e.g. `%`, sqrt under REAL): not a wrong answer
            r.count('not_offered')
            r.outcomes['not-offered:' + got[2][:40]] += 1
            return
        if inexact or ref[0] == 'stuck':
            r.count('nontrivial')
        r.outcomes[f'{layer}:{ref[0]}' + (':' + ref[1] if ref[0] == 'stuck' and ref[1] else '')] += 1
        bad = judge(ref, got)
        if bad is None:
            return
        kind, what = bad
        op = row.split('/')[0]
        sig = {'layer': layer, 'row': row, 'op': 'minmax' if op in ('min', 'max') else op, 'kind': kind,
               'what': what if kind != 'returns-where-stuck' else ''}
        case = {'layer': layer, 'source': src_min(src, fname, layer), 'fname': fname, 'args': inp, 'ctx': ctext,
                'text': text}
        r.violate(sig, case, f'{text}\nargs={inp} ctx={ctext}\nreference: {show_obs(ref)}\nfpy2     : {show_obs(got)}')

    # ---- T / E ------------------------------------------------------------------
    def run_table(self, r, i, m):
        trees = G.n_depth1() + G.b_depth1() + G.l_depth1() + G.literal_depth1()
        trees = [(row, t) for k, (t, row) in enumerate(trees) if k % m == i]
        lists = [['1/3', '1', '2'], ['1/10']] + ([] if self.quick else [[], ['-0', '3'], ['nan', '3', '1/3']])
        for b in range(0, len(trees), BATCH):
            chunk = trees[b:b + BATCH]
            funcs = [(f'e{k}', f'@fp.fpy\ndef e{k}(u, v, us):\n    return {t}\n') for k, (_, t) in enumerate(chunk)]
            real, prog, src = self.load_batch(r, '', funcs)
            for k, (row, t) in enumerate(chunk):
                fname = f'e{k}'
                if fname not in real:
                    continue
                r.count('programs')
                for li, us in enumerate(lists):
                    if li > 0 and 'us' not in t:
                        continue
                    for u in VALS:
                        for v in VALS:
                            for ctext in EXPR_CTXS:
                                self.one(r, 'T', row, src, real, prog, fname, t, [u, v, us], ctext)
        r.sample({'part': 'T', 'example': trees[0][1] if trees else None})

    def run_exprs(self, r, i, m):
        exprs = [(row, t) for k, (row, t) in enumerate(G.expressions(self.expr_level)) if k % m == i]
        inputs = self.e_inputs
        for b in range(0, len(exprs), BATCH):
            chunk = exprs[b:b + BATCH]
            funcs = [(f'e{k}', f'@fp.fpy\ndef e{k}(u, v, us):\n    return {t}\n') for k, (_, t) in enumerate(chunk)]
            real, prog, src = self.load_batch(r, '', funcs)
            for k, (row, t) in enumerate(chunk):
                fname = f'e{k}'
                if fname not in real:
                    continue
                r.count('programs')
                for inp in inputs:
                    for ctext in EXPR_CTXS:
                        self.one(r, 'E', row, src, real, prog, fname, t, inp, ctext)
        if exprs:
            r.sample({'part': 'E', 'example': exprs[len(exprs) // 2][1]})

    # ---- S ----------------------------------------------------------------------
    def run_stmts(self, r, n, rot, i, m):
        sk = G.skeletons(n)
        mine = [(p, s) for p, s in enumerate(sk) if p % m == i]
        inputs = self.inputs
        for b in range(0, len(mine), BATCH):
            chunk = mine[b:b + BATCH]
            funcs = [(f'f{p}', G.render(s, p, rot, f'f{p}')) for p, s in chunk]
            real, prog, src = self.load_batch(r, G.HELPERS, funcs)
            for (p, s), (fname, text) in zip(chunk, funcs):
                if fname not in real:
                    continue
                r.count('programs')
                row = G.kinds(s)
                for inp in inputs:
                    for ctext in STMT_CTXS:
                        self.one(r, 'S', row, src, real, prog, fname, text, inp, ctext)
        if mine:
            r.sample({'part': 'S', 'size': n, 'example': G.render(mine[-1][1], mine[-1][0], rot)})

    # ---- D ----------------------------------------------------------------------
    def run_callgraphs(self, r, i, m):
        progs = [x for k, x in enumerate(G.callgraphs()) if k % m == i]
        for b in range(0, len(progs), 12):
            chunk = progs[b:b + 12]
            funcs = [(fname, src) for fname, _, src in chunk]
            real, prog, src = self.load_batch(r, G.HELPERS, funcs)
            for fname, label, text in chunk:
                if fname not in real:
                    continue
                r.count('programs')
                for inp in self.inputs:
                    for ctext in STMT_CTXS:
                        self.one(r, 'D', label, src, real, prog, fname, text, inp, ctext)
        if progs:
            r.sample({'part': 'D', 'example': progs[-1][2]})

    # ---- X: context expressions (positional / keyword / mixed / non-call) under narrow ambients ----
    def run_ctxexprs(self, r):
        progs = list(G.ctxexprs())
        # p = len(us) + 1 = 4 for the three-element lists; u / 256 is exact everywhere but under the narrow contexts
        inputs = [['1', '1', ['1', '2', '3']], ['1/3', '2', ['1', '1/3', '2']], ['3', '1/10', ['0', '-1', '3']],
                  ['1', '1', ['1']], ['-1', '3', []], ['nan', '1', ['1', '2', '3']]]
        ctxs = STMT_CTXS + ['fp.MPFloatContext(3)']
        for b in range(0, len(progs), 11):
            chunk = progs[b:b + 11]
            real, prog, src = self.load_batch(r, G.HELPERS, [(f, t) for f, _, t in chunk])
            for fname, label, text in chunk:
                if fname not in real:
                    continue
                r.count('programs')
                for inp in inputs:
                    for ctext in ctxs:
                        self.one(r, 'X', label, src, real, prog, fname, text, inp, ctext)
        r.sample({'part': 'X', 'example': progs[2][2]})

    # ---- I: integer-producing forms on lists longer than 2**p under precision-p contexts ----
    def run_intforms(self, r):
        progs = list(G.intforms())
        vals = ['1', '2', '3', '1/2', '-1', '3/2']
        inputs = [['1', '2', vals[:n]] for n in (4, 5, 6)] + [['1', '2', ['1/3', '1']], ['1', '2', []]]
        for b in range(0, len(progs), 27):
            chunk = progs[b:b + 27]
            real, prog, src = self.load_batch(r, '', [(f, t) for f, _, t, _, _ in chunk])
            for fname, label, text, amb, c in chunk:
                if fname not in real:
                    continue
                r.count('programs')
                ctxs = G.TINY if amb == 'caller' else [None, 'fp.REAL', 'fp.MPFloatContext(1)']
                for inp in inputs:
                    for ctext in ctxs:
                        self.one(r, 'I', label, src, real, prog, fname, text, inp, ctext)
        r.sample({'part': 'I', 'example': progs[3][2]})

    # ---- replay -----------------------------------------------------------------
    def replay(self, case):
        src = case['source']
        fname = case['fname']
        mod = load_source(src)
        prog = M.Program(src)
        ref = run_model(prog, fname, case['args'], case['ctx'])
        got = run_real(getattr(mod, fname), case['args'], case['ctx'])
        bad = judge(ref, got)
        text = (f'{src}\ncall {fname}(*{case["args"]}, ctx={case["ctx"]})\n'
                f'reference: {show_obs(ref)}\nfpy2     : {show_obs(got)}\n'
                f'verdict  : {bad if bad else "agree"}')
        return bad is not None, text


def src_min(src: str, fname: str, layer: str) -> str:
    """the module text reduced to the module-level bindings, the function of the case and
    the functions it (transitively) mentions"""
    tree = ast.parse(src)
    defs = {n.name: n for n in tree.body if isinstance(n, ast.FunctionDef)}
    need, todo = set(), [fname]
    while todo:
        f = todo.pop()
        if f in need or f not in defs:
            continue
        need.add(f)
        todo += [n.id for n in ast.walk(defs[f]) if isinstance(n, ast.Name) and n.id in defs]
    lines = src.splitlines()
    out = []
    for node in tree.body:
        if isinstance(node, ast.FunctionDef) and node.name not in need:
            continue
        start = node.lineno
        if isinstance(node, ast.FunctionDef) and node.decorator_list:
            start = min(d.lineno for d in node.decorator_list)
        out.append('\n'.join(lines[start - 1:node.end_lineno]))
    return '\n\n'.join(out) + '\n'
