"""
C17 — Stochastic rounding picks a neighbour with the exact probability.

Space: context families accepting `num_randbits` (small configurations) x k x 8 base
modes x operands on the gap/2^(k+2) grid inside selected gaps (first gaps above zero /
subnormal range, gaps on both sides of binade boundaries, the last gap below the largest
value and the gap past it) with both signs, plus representable operands, zeros, inf, NaN
x {context built directly, derived by with_params(rm=, num_randbits=), derived by
with_params(rng=)} x ALL 2^k values the generator may return, supplied by a scripted random.Random
subclass and by a scripted object with numpy.Generator's `integers`.

Oracle (mc.model.rounding): for every draw the result is the RTZ or the RAZ rounding
of the operand under the same context (its two neighbours, with the context's overflow
behaviour applied to the upper one); a representable operand is unchanged; the number
of draws giving the RAZ result equals t = (|x|-lo)/(hi-lo)*2^k rounded to an integer by
the base mode with the operand's sign; exactly one draw of exactly k bits is consumed for
a finite non-zero operand; the same (operand, draw) gives the same result twice.
"""

from __future__ import annotations

import random
from fractions import Fraction

from ..engine.runner import BaseCheck, ShardResult
from ..engine.adapt import to_x, show
from ..model.xreal import X
from ..model import rounding as R
from .c01 import Config, rf, MODES, grid, RM

from fpy2.number import Float, RealFloat

Q = Fraction


class ScriptedRandom(random.Random):
    def __init__(self):
        super().__init__(0)
        self.value = 0
        self.calls = []

    def getrandbits(self, k):
        self.calls.append(k)
        return self.value

    def random(self):
        raise AssertionError('unexpected random()')


class ScriptedGenerator:
    """duck-types numpy.random.Generator.integers"""

    def __init__(self):
        self.value = 0
        self.calls = []

    def integers(self, low, high=None, *a, **kw):
        if high is None:
            low, high = 0, low
        assert low == 0
        k = int(high).bit_length() - 1
        assert 1 << k == high, high
        self.calls.append(k)
        return self.value


def configs(tier):
    quick = tier == 'quick'
    out = []
    for p in (1, 2, 3):
        out.append(Config('MPFloat', {'p': p}))
    for p, emin in ((1, 0), (2, -1), (3, 0)):
        out.append(Config('MPSFloat', {'p': p, 'emin': emin}))
        top = emin + 2
        full = (Q(2) ** p - 1) * Q(2) ** (top - p + 1)
        out.append(Config('MPBFloat', {'p': p, 'emin': emin, 'maxval': full}))
        if p >= 2:
            out.append(Config('MPBFloat', {'p': p, 'emin': emin, 'maxval': Q(2) ** top + Q(2) ** (top - p + 1)}))
    out.append(Config('IEEE', {'es': 2, 'nbits': 5}))
    out.append(Config('IEEE', {'es': 3, 'nbits': 5}))
    for kind in ('IEEE_754', 'MAX_VAL', 'NEG_ZERO', 'NONE'):
        for inf in (False, True):
            out.append(Config('EFloat', {'es': 2, 'nbits': 4, 'inf': inf, 'nan_kind': kind, 'eoffset': 0}))
    out.append(Config('EFloat', {'es': 0, 'nbits': 3, 'inf': False, 'nan_kind': 'NONE', 'eoffset': 0}))
    out.append(Config('EFloat', {'es': 1, 'nbits': 4, 'inf': True, 'nan_kind': 'MAX_VAL', 'eoffset': 2}))
    for nmin in (-2, 0):
        out.append(Config('MPFixed', {'nmin': nmin}))
        u = Q(2) ** (nmin + 1)
        out.append(Config('MPBFixed', {'nmin': nmin, 'maxval': 3 * u}))
        out.append(Config('MPBFixed', {'nmin': nmin, 'maxval': 5 * u, 'neg_maxval': -2 * u, 'negzero': False}))
    for signed in (True, False):
        out.append(Config('Fixed', {'signed': signed, 'scale': -1, 'nbits': 3}))
    out.append(Config('SMFixed', {'scale': 0, 'nbits': 3}))
    if not quick:
        for p in (4, 5):
            out.append(Config('MPFloat', {'p': p}))
            out.append(Config('MPSFloat', {'p': p, 'emin': -2}))
        out.append(Config('IEEE', {'es': 3, 'nbits': 7}))
        out.append(Config('IEEE', {'es': 2, 'nbits': 6}))
        out.append(Config('MPFixed', {'nmin': -5}))
        out.append(Config('Fixed', {'signed': True, 'scale': 1, 'nbits': 4}))
        out.append(Config('SMFixed', {'scale': -2, 'nbits': 4}))
        for kind in ('MAX_VAL', 'NEG_ZERO'):
            out.append(Config('EFloat', {'es': 3, 'nbits': 6, 'inf': False, 'nan_kind': kind, 'eoffset': -3}))
    return out


def overflow_modes(cfg: Config):
    return [m for m in cfg.overflow_modes() if m != 'ASSERT']


def members(spec: R.Spec):
    """ascending positive members of the *unbounded* counterpart in the window of interest,
    cut one member past the largest value."""
    unb = R.Spec(spec.kind, p=spec.p, emin=spec.emin, nmin=spec.nmin)
    ms = [q for q in grid(spec, 1) if q.denominator & (q.denominator - 1) == 0 and R.is_member(unb, X.fin(q))]
    ms = sorted(set(ms))
    # the C01 grid ends with one very distant point (2^(top+40)); the gap up to it is not a gap of the format
    while len(ms) >= 2 and ms[-1] > 1024 * ms[-2]:
        ms.pop()
    if spec.maxpos is not None:
        top = max(spec.maxpos, -spec.maxneg)
        keep = [q for q in ms if q <= top]
        above = [q for q in ms if q > top]
        ms = keep + above[:1]
    return ms


def select_gaps(ms, tier):
    """(lo, hi) pairs: first three gaps above zero, both sides of every power of two, last two."""
    pairs = [(Q(0), ms[0])] + list(zip(ms, ms[1:]))
    if tier != 'quick' and len(pairs) <= 40:
        return pairs
    idx = set(range(min(3, len(pairs))))
    idx.update(range(max(0, len(pairs) - 2), len(pairs)))
    for i, (lo, hi) in enumerate(pairs):
        for v in (lo, hi):
            if v > 0 and v.numerator & (v.numerator - 1) == 0 and v.denominator & (v.denominator - 1) == 0:
                idx.add(i)
    out = [pairs[i] for i in sorted(idx)]
    if tier == 'quick' and len(out) > 12:
        out = out[:6] + out[-6:]
    return out


PATHS = ('direct', 'derived-rm-k', 'derived-rng')


def build_ctx(cfg: Config, mode, ovf, k, rng, path='direct'):
    """The context under test, built directly by its constructor or derived from another context of the
    same family through `with_params` (the generator must travel with the derivation):
      derived-rm-k : base has another mode and no random bits; with_params(rm=, num_randbits=)
      derived-rng  : base has no generator; with_params(rng=)
    Returns (ctx, spec) or None when the family does not offer that derivation."""
    ctx, spec = cfg.build(mode, ovf, k, rng)
    if path == 'direct':
        return ctx, spec
    try:
        if path == 'derived-rm-k':
            other = MODES[(MODES.index(mode) + 3) % len(MODES)]
            base, _ = cfg.build(other, ovf, 0, rng)
            der = base.with_params(rm=RM[mode], num_randbits=k)
        else:
            base, _ = cfg.build(mode, ovf, k, None)
            der = base.with_params(rng=rng)
    except TypeError:
        return None
    return der, spec


class Check(BaseCheck):
    pid = 'C17'
    rule = ('(configuration, construction path, k, base mode, overflow mode, operand, generator kind) with all 2^k draws enumerated per '
            'operand; nontrivial = distinct operands strictly inside a gap (both neighbours reachable)')
    assumptions = ['the two admissible results are the RTZ and RAZ roundings of the operand under the same context, '
                   'computed by the C01 oracle (so the overflow arm is what C01 accepts)',
                   'ASSERT overflow mode is not exercised', 'a scripted object with .integers stands in for numpy Generator']

    def __init__(self, tier, seed):
        super().__init__(tier, seed)
        self.cfgs = configs(tier)
        self.ks = (1, 2, 3, None) if tier == 'quick' else (1, 2, 3, 4, 5, None)

    def bounds(self):
        return {'configurations': len(self.cfgs), 'k': [str(k) for k in self.ks], 'modes': 8,
                'grid': 'gap/2^(k+2) inside selected gaps; all 2^k draws'}

    def shards(self):
        return [(i, m) for i in range(len(self.cfgs)) for m in range(8)]

    def check_operand(self, r: ShardResult, cfg, ctx, spec, rng, gen, k, mode, ovf, x: X, obj, optext):
        case = {'family': cfg.family, 'params': {a: str(b) for a, b in cfg.params.items()}, 'k': k, 'mode': mode,
                'overflow': ovf, 'operand': optext, 'gen': gen}
        path = getattr(self, '_path', 'direct')
        sig0 = {'family': cfg.family, 'gen': gen}
        if path != 'direct':
            case['path'] = path
            sig0['path'] = path
        if k is None:
            sig0['randbits'] = 'None'

        def bad(kind, detail, extra=None):
            s = dict(sig0)
            s['kind'] = kind
            if extra:
                s.update(extra)
            r.violate(s, case, f'{cfg.text()} k={k} rm={mode} ov={ovf} operand {optext} [{gen}]: {detail}')

        r.count('states')
        kdecl = k
        if k is None:
            # num_randbits=None: every digit below the rounding position is a rounding bit, so the
            # number of bits drawn depends on the operand (0 for a representable one)
            if not (x.isfin and not x.iszero):
                k = 0
            else:
                lo_, hi_, kept_, half_, sticky_ = R.neighbours(spec, x.q)
                frac = (abs(x.q) - lo_) / (hi_ - lo_)
                kmin = max(0, frac.denominator.bit_length() - 1)
                # the number of bits drawn depends on the operand's encoding (c=6,exp=0 vs c=3,exp=1):
                # learn it from the implementation's own request; it must cover the operand's digits
                rng.value = 0
                rng.calls = []
                try:
                    ctx.round(obj)
                except (ValueError, OverflowError):
                    pass
                k = rng.calls[0] if len(rng.calls) == 1 else kmin
                if k < kmin:
                    bad('draws-consumed', f'generator asked for {rng.calls} bits; the operand has {kmin} digits '
                        f'below the rounding position')
                    return
                if k > 8:
                    r.count('inconclusive_many_bits')
                    return
        lo_outs = R.round_model(spec, x, 'RTZ', ovf)
        hi_outs = R.round_model(spec, x, 'RAZ', ovf)
        finite_nonzero = x.isfin and not x.iszero
        inside = False
        want = None
        if finite_nonzero:
            lo, hi, kept, half, sticky = R.neighbours(spec, x.q)
            inside = bool(half or sticky)
            if inside:
                top = None if spec.maxpos is None else (-spec.maxneg if x.q < 0 else spec.maxpos)
                past = top is not None and hi > top
                t = (abs(x.q) - lo) / (hi - lo) * (1 << k)
                ft = t.numerator // t.denominator
                frac = t - ft
                h2 = 1 if frac >= Q(1, 2) else 0
                st = frac not in (0, Q(1, 2))
                want = ft + (1 if R.choose(ft, h2, st, mode, x.q < 0) else 0)
                if top is not None and lo > top:
                    want = None     # both unbounded neighbours are out of range
                elif past and (ovf != 'OVERFLOW' or R.toward_infinity_on_overflow(mode, x.q < 0) is not True):
                    # past the largest value the upper "neighbour" is whatever the overflow rule gives;
                    # counting is only meaningful when that is the infinity arm
                    want = None
                r.count('nontrivial')
        away = 0
        results = []
        for draw in range(1 << k):
            r.count('evaluations')
            r.count('transitions')
            rng.value = draw
            rng.calls = []
            try:
                y = ctx.round(obj)
                xy = to_x(y)
                res = ('val', xy)
            except (ValueError, OverflowError) as e:
                res = ('ERR', None)
            except Exception as e:
                bad('raised-other', f'draw {draw}: raised {type(e).__name__}: {e}')
                return
            calls = list(rng.calls)
            # determinism
            rng.calls = []
            try:
                y2 = ctx.round(obj)
                res2 = ('val', to_x(y2))
            except (ValueError, OverflowError):
                res2 = ('ERR', None)
            if res[0] != res2[0] or (res[0] == 'val' and not res[1].same(res2[1])):
                bad('nondeterministic', f'draw {draw}: {res} then {res2}')
                return
            if finite_nonzero and calls != [k] and not (kdecl is None and k == 0 and calls == []):
                bad('draws-consumed', f'draw {draw}: generator asked for {calls}, expected exactly one draw of {k} bits',
                    {'inside': inside})
                return

            def matches(outs):
                if res[0] == 'ERR':
                    return any(o[0] == 'ERR' for o in outs)
                return any(o[0] != 'ERR' and o[0].same(res[1]) for o in outs)
            is_lo, is_hi = matches(lo_outs), matches(hi_outs)
            if not (is_lo or is_hi):
                bad('not-a-neighbour', f'draw {draw}: result {res[1] if res[0] == "val" else "error"}; neighbours '
                    f'{[str(o[0]) for o in lo_outs]} / {[str(o[0]) for o in hi_outs]}', {'inside': inside})
                return
            if inside and is_hi and not is_lo:
                away += 1
            elif inside and is_hi and is_lo:
                # the two arms coincide (e.g. SATURATE past the largest value): counting is meaningless
                want = None
            results.append(res)
        r.outcomes[f'inside={inside}:away={"n/a" if want is None else ("0" if away == 0 else "all" if away == 1 << k else "some")}'] += 1
        if want is not None and away != want:
            bad('probability', f'{away} of {1 << k} draws round away from zero; expected {want} '
                f'(position in gap {t}/{1 << k} rounded {mode})', {'pos': 'carry' if want == 1 << k else 'interior'})

    def run_ctx(self, r, cfg, mode, ovf, k, gen, path='direct'):
        rng = ScriptedRandom() if gen == 'Random' else ScriptedGenerator()
        try:
            built = build_ctx(cfg, mode, ovf, k, rng, path)
        except ValueError:
            r.count('rejected_configurations')
            return
        if built is None:
            r.count('derivation_not_offered')
            return
        ctx, spec = built
        r.outcomes[f'path:{path}'] += 1
        self._path = path
        ms = members(spec)
        gaps = select_gaps(ms, self.tier)
        r.count('contexts')
        step = 1 << ((k if k is not None else 2) + 2)
        seen = set()
        for lo, hi in gaps:
            for j in range(0, step + 1):
                mag = lo + (hi - lo) * j / step
                if mag in seen:
                    continue
                seen.add(mag)
                for s in (False, True):
                    if mag == 0:
                        x = X.zero(s)
                        obj = Float(s=s, c=0, exp=0)
                    else:
                        x = X.fin(-mag if s else mag)
                        obj = Float(x=rf(x.q)) if (j % 2 == 0) else rf(x.q)
                    self.check_operand(r, cfg, ctx, spec, rng, gen, k, mode, ovf, x, obj, str(x))
        # non-dyadic operand in the first and last selected gap, specials
        # (with num_randbits=None a non-dyadic operand has no finite number of rounding bits: not offered)
        for lo, hi in ((gaps[0], gaps[-1]) if k is not None else ()):
            q = lo + (hi - lo) / 3
            self.check_operand(r, cfg, ctx, spec, rng, gen, k, mode, ovf, X.fin(q), q, str(q))
            self.check_operand(r, cfg, ctx, spec, rng, gen, k, mode, ovf, X.fin(-q), -q, str(-q))
        for name, x, obj in (('+inf', X.inf(False), Float(isinf=True)), ('-inf', X.inf(True), Float(s=True, isinf=True)),
                             ('nan', X.nan(), Float(isnan=True))):
            self.check_operand(r, cfg, ctx, spec, rng, gen, k, mode, ovf, x, obj, name)

    def run_shard(self, shard):
        r = ShardResult()
        i, m = shard
        cfg = self.cfgs[i]
        mode = MODES[m]
        for ovf in overflow_modes(cfg):
            for k in self.ks:
                for gen in (('Random', 'Generator') if (k is not None and (k <= 2 or self.tier != 'quick'))
                            else ('Random',)):
                    self.run_ctx(r, cfg, mode, ovf, k, gen)
                    # contexts derived through with_params: k=2 (and None) in the quick tier, every k otherwise
                    if gen == 'Random' and (self.tier != 'quick' or k in (2, None)):
                        for path in PATHS[1:]:
                            if self.tier == 'quick' and k is None and path != 'derived-rm-k':
                                continue
                            self.run_ctx(r, cfg, mode, ovf, k, gen, path)
        if m == 0 and i % 8 == 0:
            r.sample({'configuration': cfg.text(), 'mode': mode, 'k': [str(k) for k in self.ks], 'draws': 'all 2^k',
                      'overflow_modes': overflow_modes(cfg)})
        return r

    def replay(self, case):
        from .c01 import Check as C01
        P = {}
        for a, v in case['params'].items():
            if v in ('True', 'False'):
                P[a] = v == 'True'
            elif v == 'None':
                P[a] = None
            elif a == 'nan_kind' or v in ('inf', 'nan'):
                P[a] = v
            else:
                P[a] = Fraction(v) if '/' in v else int(v)
        cfg = Config(case['family'], P)
        gen = case['gen']
        rng = ScriptedRandom() if gen == 'Random' else ScriptedGenerator()
        self._path = case.get('path', 'direct')
        ctx, spec = build_ctx(cfg, case['mode'], case['overflow'], case['k'], rng, self._path)
        name = case['operand']
        if name in ('+inf', '-inf'):
            x, obj = X.inf(name[0] == '-'), Float(s=name[0] == '-', isinf=True)
        elif name == 'NaN' or name == 'nan':
            x, obj = X.nan(), Float(isnan=True)
        elif name in ('+0', '-0'):
            x, obj = X.zero(name[0] == '-'), Float(s=name[0] == '-', c=0, exp=0)
        else:
            q = Fraction(name)
            x = X.fin(q)
            obj = Float(x=rf(q)) if q.denominator & (q.denominator - 1) == 0 else q
        r = ShardResult()
        self.check_operand(r, cfg, ctx, spec, rng, gen, case['k'], case['mode'], case['overflow'], x, obj, name)
        if r.violations:
            return True, '\n'.join(v.detail for v in r.violations)
        return False, f'case {case}: implementation agrees with the model'
