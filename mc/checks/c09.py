"""
C09 -- Inlining, specialisation and hoisting preserve results.

Space (bounded-exhaustive, see mc/engine/progen_c09.py): every caller/callee
pair and every 3-chain of the declared grammar x every transformation pipeline
of length 1 (inline at every index / expression cursor / statement cursor /
enclosing top-level statement / whole-body region / None, with and without `funcs`, recursive on/off; monomorphize on every pool
context and on argument types; close; lift_context) and every ordered pair of
a 7-element base set (length 2) x every input of the pool x every caller
context of the pool.

Oracle (differential, on the real interpreter): f(args, ctx=C) versus
T(f)(args, ctx=C).  When the pipeline pins a context C with monomorphize, the
transformed program is called *without* a context and compared with
f(args, ctx=C) only.  When the pipeline contains `close` and no function that
still reads a captured global remains callable from the result, the captured
globals are changed after the pipeline and the result must still equal the
original evaluated before the change (the values at closing time).

Judged: only (input, context) points on which the original returns.
Not judged (counted): a transformation that raises one of its documented
refusals (TransformError family, CallGraphError, RuntimeError, ValueError,
TypeError); a transformation that raises anything else is counted separately
as `transform_error` and noted (the statement is about the value of the
program a pass yields, so a pass that loudly fails yields nothing to compare).
"""

from __future__ import annotations

import json
from fractions import Fraction

import fpy2 as fp
from fpy2 import strategies as st
from fpy2.analysis import CallGraph
from fpy2.analysis.call_graph import CallGraphError
from fpy2.function import Function
from fpy2.interpret import get_default_interpreter
from fpy2.number import Float
from fpy2.transform import BlockCursor, FuncBody, StmtCursor, SubBlock, TransformError
from fpy2.types import ListType, RealType

from ..engine import progen_c09 as pg
from ..engine.loader import load_source
from ..engine.runner import BaseCheck, ShardResult

REFUSALS = (TransformError, CallGraphError, RuntimeError, ValueError, TypeError)
_EVAL_ENV = {'fp': fp, 'RealType': RealType, 'ListType': ListType}

ARG_TYPES = ['RealType(fp.FP64)', None, 'ListType(RealType(fp.FP64))', None]


# ---- values ---------------------------------------------------------------

def canon(v):
    """A hashable, exact rendering of a run-time result (NaN equal to NaN,
    zeros distinguished by sign, numbers by value not by encoding)."""
    if isinstance(v, bool):
        return ('bool', v)
    if isinstance(v, Float):
        if v.isnan:
            return ('nan',)
        if v.isinf:
            return ('inf', bool(v.s))
        q = Fraction(v.as_rational())
        if q == 0:
            return ('zero', bool(v.s))
        return ('fin', str(q))
    if isinstance(v, (int, float, Fraction)):
        if isinstance(v, float) and v != v:
            return ('nan',)
        if isinstance(v, float) and v in (float('inf'), float('-inf')):
            return ('inf', v < 0)
        q = Fraction(v)
        if q == 0:
            return ('zero', str(v).startswith('-'))
        return ('fin', str(q))
    if isinstance(v, (tuple, list)):
        return (type(v).__name__,) + tuple(canon(e) for e in v)
    return ('other', repr(v))


def show(c) -> str:
    if isinstance(c, tuple) and c and c[0] in ('tuple', 'list'):
        return '(' + ', '.join(show(e) for e in c[1:]) + ')'
    if isinstance(c, tuple) and c[0] == 'fin':
        return c[1]
    if isinstance(c, tuple) and c[0] == 'zero':
        return '-0' if c[1] else '0'
    if isinstance(c, tuple) and c[0] == 'inf':
        return '-inf' if c[1] else 'inf'
    return str(c[-1]) if isinstance(c, tuple) else str(c)


# ---- pipelines ---------------------------------------------------------------

def inl(where=None, rec=True, funcs=None):
    return {'op': 'inline', 'where': where, 'rec': rec, 'funcs': funcs}


def mono(ctx=None, args=None):
    return {'op': 'mono', 'ctx': ctx, 'args': args}


CLOSE = {'op': 'close'}
LIFT = {'op': 'lift'}


def step_name(s) -> str:
    if s['op'] == 'inline':
        w = s['where']
        wn = 'all' if w is None else f'{w[0]}{w[1]}'
        fn = '' if s['funcs'] is None else ',funcs=' + '/'.join(s['funcs'])
        return f'inline({wn},{"rec" if s["rec"] else "1lvl"}{fn})'
    if s['op'] == 'mono':
        return f'mono(ctx={s["ctx"]},args={"yes" if s["args"] else "no"})'
    return s['op']


def single_pipelines(nsites: int, filters: list, mono_ctxs: list[str]) -> list[list[dict]]:
    out: list[list[dict]] = []
    for rec in (True, False):
        out.append([inl(None, rec)])
        for i in range(nsites):
            out.append([inl(['idx', i], rec)])
    for k in range(nsites):
        out.append([inl(['expr', k], True)])
        out.append([inl(['stmt', k], True)])
        out.append([inl(['top', k], True)])
    if nsites:
        out.append([inl(['body', 0], False)])
    for names, rec in filters:                     # `funcs` filters: (function names, recursive)
        out.append([inl(None, rec, list(names))])
    out.append([inl(['idx', nsites], True)])        # names no site: must refuse
    for c in mono_ctxs:
        out.append([mono(c)])
    out.append([mono(None, ARG_TYPES)])
    out.append([mono(mono_ctxs[0], ARG_TYPES)])
    out.append([CLOSE])
    out.append([LIFT])
    # every base step of the length-2 pipelines is also a length-1 pipeline
    have = {json.dumps(p, sort_keys=True) for p in out}
    for s in base_steps(mono_ctxs):
        if json.dumps([s], sort_keys=True) not in have:
            out.append([s])
    return out


def funcs_filters(desc) -> list:
    if desc[0] == 'pair':
        return [(['g'], True)]
    if desc[0] == 'chain':
        return [(['g'], True), (['h'], True), (['g'], False), (['g', 'h'], True)]
    if desc[0] == 'argnest':
        # outer callees only (inner call stays: order kept by the call), inner only (known
        # evaluation-order class), both
        return [(['comb', 'comb3'], True), (['comb', 'comb3'], False), (['b'], True),
                (['comb', 'comb3', 'b'], True), (['comb', 'comb3', 'b'], False)]
    if desc[0] == 'two':
        return [(['g1', 'g2'], True), (['g1', 'g2'], False), (['g1'], False), (['g2'], False)]
    if desc[0] == 'pin':
        return []
    names = pg.fact_functions(desc)
    leaves = [n for n in names if n.startswith('g')]
    helpers = [n for n in names if not n.startswith('g')]
    out = [(leaves, True), (leaves, False), (leaves[:1], True), (leaves[1:], True)]
    if helpers:
        out += [(helpers, True), (helpers, False), (leaves[:1] + helpers, True), (names, False)]
    return out


def base_steps(mono_ctxs: list[str]) -> list[dict]:
    return [inl(None, True), inl(None, False), inl(['idx', 0], True),
            mono(mono_ctxs[0]), mono(mono_ctxs[1], ARG_TYPES), CLOSE, LIFT]


def pair_pipelines(mono_ctxs: list[str]) -> list[list[dict]]:
    base = base_steps(mono_ctxs)
    out = []
    for a in base:
        for b in base + [inl(['oexpr', 0], True)]:
            if a['op'] == 'mono' and b['op'] == 'mono' and a['ctx'] != b['ctx']:
                continue        # two different pins: no "corresponding way" to evaluate
            out.append([a, b])
    return out


def pin_pipelines(requests: list[str], same_format: list[str]) -> list[list[dict]]:
    """Pipelines of the pinned family: monomorphize against every request context
    (alone and with argument types); against the same-format requests also twice
    and composed with inline and close in both orders."""
    out: list[list[dict]] = []
    for c in requests:
        out.append([mono(c)])
        out.append([mono(c, ARG_TYPES)])
        if c in same_format:
            out.append([mono(c), mono(c)])
            for other in (inl(None, True), CLOSE):
                out.append([mono(c), other])
                out.append([other, mono(c)])
    return out


def pinned_ctx(pipeline) -> str | None:
    for s in pipeline:
        if s['op'] == 'mono' and s['ctx'] is not None:
            return s['ctx']
    return None


class NotApplicable(Exception):
    """The pipeline names a site the program does not have (not a case)."""


def apply_step(step, cur: Function, orig: Function, mod) -> Function:
    op = step['op']
    if op == 'inline':
        funcs = None if step['funcs'] is None else [getattr(mod, n) for n in step['funcs'] if hasattr(mod, n)]
        w = step['where']
        if w is None:
            where = None
        elif w[0] == 'idx':
            where = int(w[1])
        else:
            base = orig if w[0] == 'oexpr' else cur
            sites = st.sites(st.inline, base, funcs=funcs)
            if not 0 <= w[1] < len(sites):
                raise NotApplicable()
            if w[0] == 'stmt':          # the statement holding the call
                where = sites[w[1]].stmt()
            elif w[0] == 'top':         # the outermost statement enclosing it (takes everything beneath)
                sp = sites[w[1]].stmt().path
                while isinstance(sp.parent, SubBlock):
                    sp = sp.parent.parent
                where = StmtCursor(base.ast, sp)
            elif w[0] == 'body':        # the whole function body as a region
                where = BlockCursor(base.ast, FuncBody(), range(0, len(base.ast.body.stmts)))
            else:
                where = sites[w[1]]
        return st.inline(cur, where, funcs=funcs, recursive=step['rec'])
    if op == 'mono':
        ctx = None if step['ctx'] is None else eval(step['ctx'], _EVAL_ENV)
        args = None if step['args'] is None else [None if a is None else eval(a, _EVAL_ENV) for a in step['args']]
        return st.monomorphize(cur, ctx, args)
    if op == 'close':
        return st.close(cur)
    if op == 'lift':
        return st.lift_context(cur)
    raise ValueError(step)


def apply_pipeline(pipeline, f: Function, mod) -> Function:
    cur = f
    for s in pipeline:
        cur = apply_step(s, cur, f, mod)
    return cur


def globals_can_change(t: Function) -> bool:
    """After `close`: True when no function still reachable from `t` (other
    than `t` itself) reads one of the data globals -- only then is "the
    original at closing time" well defined after the globals change."""
    try:
        cg = CallGraph.analyze(t.ast)
    except Exception:
        return False
    for fdef in cg.order:
        if fdef is t.ast:
            continue
        if any(str(v) in pg.GLOBALS_CHANGED for v in fdef.free_vars):
            return False
    return True


def reset_interpreter():
    rt = get_default_interpreter()
    cache = getattr(rt, 'func_cache', None)
    if cache is not None:
        cache.clear()


def call(fn: Function, inp, ctx):
    """('ok', canon) or ('raise', ExceptionTypeName, text)."""
    args = pg.make_args(inp)
    try:
        res = fn(*args) if ctx is None else fn(*args, ctx=ctx)
    except RecursionError:
        raise
    except Exception as e:  # noqa: BLE001
        return ('raise', type(e).__name__, str(e)[:200])
    return ('ok', canon(res))


# ---- the check -------------------------------------------------------------

class Check(BaseCheck):
    pid = 'C09'
    rule = ('every program of the C09 grammar (caller/callee pairs: 3 callee contexts x 8 callee bodies x 28 call '
            'positions x 2 argument forms; factory family (2-3 callees capturing different/same values under one name: 3 contexts x 2 bodies x 9 layout-arity combinations x 2 variants); pinned family (declared context = pool format under RTZ/RTP/RTN or SATURATE on caller/callee/both/chain leaf, monomorphized against the pool and every same-format rounding mode: 96 programs); argnest family (inlined call nested in an argument of an inlined call, 7 positions x 3x2 contexts); two-callee family (callee local named like a free variable of another function; callees with distinct names and with the same def name from two factories, 36 programs); 16 extra pair programs with a context built from a constant local; 3-chains: 3x3 contexts x 4 chain bodies x 8 leaf bodies x 9 positions) x '
            'every pipeline of length 1 and every ordered pair of 7 base transformations x every pool input x every '
            'pool caller context; f(args, ctx=C) vs T(f)(args, ctx=C) (mono(C): T(f)(args) without ctx; close: '
            'captured globals changed after closing). nontrivial = judged case whose transformed program text '
            'differs from the original')
    assumptions = [
        'the bytecode interpreter is the reference semantics of both the original and the transformed program',
        'a pass raising a documented refusal (TransformError, CallGraphError, RuntimeError, ValueError, TypeError) '
        'yields no program and is not judged; other exceptions from a pass are counted as transform_error, not as '
        'violations',
        'only (input, context) points where the original returns are judged',
        'argument-type pins use binary64, in which every pool input is representable',
    ]
    trusted_base = ['fpy2.interpret.byte (evaluation of both sides)', 'fpy2 frontend (parsing the generated text)']

    def __init__(self, tier, seed):
        super().__init__(tier, seed)
        thorough = tier == 'thorough'
        self.ctx_texts = pg.CALLER_CTXS_THOROUGH if thorough else pg.CALLER_CTXS_QUICK
        self.inputs = pg.INPUTS_THOROUGH if thorough else pg.INPUTS_QUICK
        self.mono_ctxs = [c for c in self.ctx_texts if c is not None]
        self.nshards = 128 if thorough else 64
        self._programs = None

    # -- space ----------------------------------------------------------------
    def programs(self) -> list[tuple]:
        if self._programs is None:
            pairs = pg.all_pairs()
            chains = pg.all_chains()
            facts = pg.all_facts() + pg.all_pins() + pg.all_argnests() + pg.all_twos() + pg.all_extras()
            if self.tier == 'thorough':
                self._programs = pairs + facts + chains
            else:
                # complete core: every pair; plus a seed-rotated 1/16 slice of the chains
                k = self.seed % 16
                self._programs = pairs + facts + [c for i, c in enumerate(chains) if i % 16 == k]
        return self._programs

    def bounds(self):
        ps = self.programs()
        return {'programs': len(ps), 'pairs': sum(1 for p in ps if p[0] == 'pair'),
                'chains': sum(1 for p in ps if p[0] == 'chain'),
                'factory_programs': sum(1 for p in ps if p[0] == 'fact'),
                'argnest_programs': sum(1 for p in ps if p[0] == 'argnest'),
                'two_callee_programs': sum(1 for p in ps if p[0] == 'two'),
                'pinned_programs': sum(1 for p in ps if p[0] == 'pin'),
                'pinned_inputs': len(pg.INPUTS_PIN),
                'chains_total': len(pg.all_chains()),
                'inputs': len(self.inputs), 'caller_contexts': self.ctx_texts,
                'pipelines_len1': 'about 15-20 per program (depends on the number of call sites)',
                'pipelines_len2': len(pair_pipelines(self.mono_ctxs)),
                'pipelines_len2_applied_to': 'all programs' if self.tier == 'thorough' else
                'A0 pairs and chains (A1 pairs: length-1 pipelines only)'}

    def shards(self):
        return [(k, self.nshards) for k in range(self.nshards)]

    def selfcheck(self):
        """Vacuity canary: the caller contexts must be told apart by the simplest
        program, and inlining must change its text and keep its value."""
        desc = ('pair', 'none', 'arith', 'assign', 'A0')
        mod = load_source(pg.build(desc))
        ctxs = [None if c is None else eval(c, _EVAL_ENV) for c in self.ctx_texts]
        rows = [tuple(call(mod.f, inp, c) for inp in self.inputs) for c in ctxs]
        # (absent context = binary64 and REAL legitimately agree on these small dyadic inputs)
        if len(set(rows)) < min(3, len(rows)):
            raise RuntimeError('caller contexts are not distinguished by the canary program')
        t = st.inline(mod.f)
        if t.format() == mod.f.format():
            raise RuntimeError('inline left the canary program unchanged')
        reset_interpreter()

    # -- one program ------------------------------------------------------------
    def check_program(self, r: ShardResult, desc, only=None):
        """Runs every pipeline on one program.  `only` = (pipeline, input, ctx_text)
        restricts to one case (replay)."""
        src = pg.build(desc)
        try:
            mod = load_source(src)
        except Exception as e:  # noqa: BLE001
            r.count('rejected_by_frontend')
            r.notes.append(f'frontend rejected {desc}: {type(e).__name__}')
            return
        try:
            self._check_loaded(r, desc, src, mod, only)
        finally:
            reset_interpreter()

    def _check_loaded(self, r, desc, src, mod, only):
        f = mod.f
        shape = pg.describe(desc)
        is_pin = desc[0] == 'pin'
        if is_pin:      # monomorphize family: every request context, inputs inexact everywhere
            requests = pg.pin_requests(desc, self.ctx_texts)
            ctx_texts = requests if only is None else [only[2]]
            inputs = pg.INPUTS_PIN if only is None else [only[1]]
        else:
            ctx_texts = self.ctx_texts if only is None else [only[2]]
            inputs = self.inputs if only is None else [only[1]]
        ctxs = {c: (None if c is None else eval(c, _EVAL_ENV)) for c in ctx_texts}
        if only is not None and pinned_ctx(only[0]) is not None:
            ctxs[pinned_ctx(only[0])] = eval(pinned_ctx(only[0]), _EVAL_ENV)

        # originals (globals at their initial values)
        orig = {}
        for c, cobj in ctxs.items():
            for inp in inputs:
                res = call(f, inp, cobj)
                orig[(c, json.dumps(inp))] = res
                if res[0] == 'ok':
                    r.count('states')
                else:
                    r.count('original_raises')
        ftext = f.format()

        if only is not None:
            pipelines = [only[0]]
        elif is_pin:
            pipelines = pin_pipelines(requests, pg.pin_requests(desc, []))
        else:
            try:
                nsites = len(st.sites(st.inline, f))
            except Exception as e:  # noqa: BLE001
                r.notes.append(f'sites(inline) raised {type(e).__name__} on position {shape["position"]}')
                nsites = 1
            pipelines = single_pipelines(nsites, funcs_filters(desc), self.mono_ctxs)
            if self.tier == 'thorough' or not (desc[0] == 'pair' and desc[4] == 'A1'):
                # quick: the A1 pairs get the length-1 pipelines only
                pipelines = pipelines + pair_pipelines(self.mono_ctxs)
            else:
                r.count('programs_without_length2_pipelines')

        failed_steps: set[str] = set()
        for pipeline in pipelines:
            if len(pipeline) == 2 and only is None:
                keys = []
                for s in pipeline:
                    s2 = dict(s)
                    if s2['op'] == 'inline' and s2['where'] is not None and s2['where'][0] == 'oexpr':
                        s2['where'] = ['expr', s2['where'][1]]
                    keys.append(json.dumps(s2, sort_keys=True))
                if any(k in failed_steps for k in keys):
                    r.count('pipelines_subsumed_by_failing_step')
                    continue
            bad = self.run_pipeline(r, desc, shape, src, mod, f, ftext, pipeline, ctxs, inputs, orig)
            if bad and len(pipeline) == 1:
                failed_steps.add(json.dumps(pipeline[0], sort_keys=True))

    def run_pipeline(self, r, desc, shape, src, mod, f, ftext, pipeline, ctxs, inputs, orig) -> bool:
        name = ' ; '.join(step_name(s) for s in pipeline)
        ops = [s['op'] for s in pipeline]
        passes = '+'.join(o for i, o in enumerate(ops) if i == 0 or o != ops[i - 1])     # inline+inline -> inline
        r.count('pipelines')
        try:
            t = apply_pipeline(pipeline, f, mod)
        except NotApplicable:
            r.count('pipelines_not_applicable')
            return False
        except REFUSALS as e:
            r.count('refused')
            r.outcomes[f'refused:{passes}:{type(e).__name__}'] += 1
            return False
        except RecursionError:
            raise
        except Exception as e:  # noqa: BLE001
            r.count('transform_error')
            r.outcomes[f'transform-error:{passes}:{type(e).__name__}'] += 1
            note = (f'transform_error (not judged): {passes} raised {type(e).__name__} at position '
                    f'{shape["position"]}/{shape["inner"]}: {str(e)[:80]}')
            if note not in r.notes:
                r.notes.append(note)
            return False

        ttext = t.format()
        changed = ttext != ftext
        pin = pinned_ctx(pipeline)
        has_close = any(s['op'] == 'close' for s in pipeline)
        change_globals = has_close and globals_can_change(t)
        saved = None
        if change_globals:
            saved = {k: mod.__dict__[k] for k in pg.GLOBALS_CHANGED if k in mod.__dict__}
            mod.__dict__.update({k: pg.GLOBALS_CHANGED[k] for k in saved})
            r.count('close_pipelines_with_globals_changed')
        bad = False
        try:
            for c, cobj in ctxs.items():
                if pin is not None and c != pin:
                    continue
                for inp in inputs:
                    o = orig[(c, json.dumps(inp))]
                    r.count('evaluations')
                    if o[0] != 'ok':
                        r.count('precondition_false')
                        continue
                    got = call(t, inp, None if pin is not None else cobj)
                    r.count('transitions')
                    if changed:
                        r.count('nontrivial')
                    if got == o:
                        r.outcomes['equal:' + passes + (':changed' if changed else ':same-text')] += 1
                        continue
                    bad = True
                    symptom = 'value' if got[0] == 'ok' else 'raises-' + got[1]
                    sig = {'pass': passes, 'position': shape['position'], 'inner': shape['inner'],
                           'effect': shape['effect'], 'symptom': symptom}
                    if desc[0] == 'argnest' and any(f'{o}(' in ttext for o in pg.ARGNEST_OUTER):
                        # the outer call was NOT inlined, so the inner body was spliced ahead of a
                        # statement that still reads the list outside any inlined argument list:
                        # the evaluation-order class already listed under position `readmut`
                        sig['position'] = 'readmut'
                        sig['inner'] = 'argnest-outer-kept'
                    case = {'desc': list(desc), 'src': src, 'pipeline': pipeline, 'input': list(inp),
                            'ctx': c, 'called_without_ctx': pin is not None, 'globals_changed': change_globals}
                    detail = (f'pipeline: {name}\ncallee: {shape["callee"]} (ctx {shape["callee_ctx"]}), position '
                              f'{shape["position"]}, args {shape["args"]}\ninput (u, v, us, n) = {inp}, ctx = {c}'
                              f'{" (pinned; transformed called without ctx)" if pin is not None else ""}'
                              f'{"; captured globals changed after the pipeline" if change_globals else ""}\n'
                              f'original    -> {show(o[1]) if o[0] == "ok" else o}\n'
                              f'transformed -> {show(got[1]) if got[0] == "ok" else got[1:]}\n'
                              f'--- original program ---\n{src}\n--- transformed f ---\n{t.format()}')
                    r.outcomes['DIFFERENT:' + passes] += 1
                    r.violate(sig, case, detail)
        finally:
            if saved is not None:
                mod.__dict__.update(saved)
        if changed and not bad:
            r.sample({'program': list(desc), 'pipeline': name, 'transformed': t.format()}, limit=2)
        return bad

    # -- shard / replay -----------------------------------------------------------
    def run_shard(self, shard) -> ShardResult:
        r = ShardResult()
        k, m = shard
        for i, desc in enumerate(self.programs()):
            if i % m == k:
                r.count('programs')
                self.check_program(r, desc)
        return r

    def replay(self, case):
        r = ShardResult()
        desc = tuple(case['desc'])
        if pg.build(desc) != case['src']:
            return False, 'the generator no longer produces the recorded source for this descriptor'
        inp = case['input']
        inp = (inp[0], inp[1], list(inp[2]), inp[3])
        self.check_program(r, desc, only=(case['pipeline'], inp, case['ctx']))
        if r.violations:
            return True, '\n'.join(v.detail for v in r.violations)
        return False, (f'case {case["desc"]} / {[step_name(s) for s in case["pipeline"]]} / {case["input"]} / '
                       f'{case["ctx"]}: transformed agrees with the original ({dict(r.counts)})')
