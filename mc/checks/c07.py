"""
C07 -- simplify never changes what a program returns.

Space (bounded exhaustive, see mc/engine/progen_c07.py): every well-scoped
program of <= N statements from thirteen small grammars ("families"), each aimed
at one decision the passes make: copy whose source is reassigned before the use
(straight-line / if arm / loop back-edge), callee that writes its argument
through a local alias called for effect, constant list mutated through an
alias, nested-list rows, effect-only helper calls on a nested list (family
`poke`: `t = p(xss)` with t unread, or a bare `p(xss)`, then `xss[0][0]` read
back; p in {direct write xss[0][0] = v; plain row alias row = xss[0]; row[0] =
v; row stored by index into a list the helper built itself and written one
level below the slot, t = [[0.0]]; t[0] = xss[0]; t[0][0] = v; row held in a
literal, t = [xss[0]]; t[0][0] = v; a pure control that writes only storage
built from fresh values}, one or two calls, optionally under an if; quick: all
194 programs of <= 4 statements, thorough: <= 5, 2800 programs), constants
folded under different statically active
contexts (3-bit float RTZ, fixed-point RTP, binary64, declared function
context), -0.0, constant conditions with early returns, tuple targets partly
unused.
  x transformations: `fp.strategies.simplify` with every subset of its five
    enable_* switches (thorough: all 32; quick: all-on, each single switch off,
    plus two seed-rotated further subsets), each pass alone (ConstFold,
    CopyPropagate, DeadCodeEliminate) and the three in all 6 orders;
  x a small input pool (u in a few doubles incl. -0.0 / NaN, trip count n).

Oracle: metamorphic.  f(args) vs T(f)(args) through the same default
interpreter, compared deeply with same-value semantics (NaN = NaN, zeros by
sign, bool is not a number, list/tuple shape).  Only inputs on which the
original returns are judged; there T(f) must return as well (an exception or
non-termination of T(f), or of the transformation itself, is a violation).

Signatures name the mechanism, not the property: the first pass of the
(mirrored) pipeline after which the behaviour differs, the single rewrite of
that pass that suffices to change the result (isolated by re-applying the pass
with only that one rewrite enabled), and a hazard label computed from the
def-use facts of that rewrite (copy source redefined between copy and use,
callee writes through a local alias, list name replaced by a fresh literal,
read of a list assumed unmodified, ...).  The diagnosis never affects the
verdict; if it fails the violation is still reported with a coarse label.
"""

from __future__ import annotations

import gc
import itertools
import math
import signal
import sys
import types
from fractions import Fraction

from ..engine.runner import BaseCheck, ShardResult
from ..engine import loader
from ..engine.adapt import to_x
from ..engine import progen_c07 as pg

import fpy2 as fp
from fpy2.number import Float, RealFloat
from fpy2.transform import ConstFold, CopyPropagate, DeadCodeEliminate

NSHARDS = 64
BATCH = 40
SLICES = 8                    # the quick tier adds 1/SLICES of the next size, chosen by the seed
CALL_TIMEOUT = 1.0            # CPU seconds; three orders of magnitude above a normal call (< 1 ms)
TRANSFORM_TIMEOUT = 10.0      # CPU seconds; a normal transformation takes a few ms

SWITCHES = ('enable_const_fold', 'enable_const_fold_context', 'enable_const_fold_op',
            'enable_copy_prop', 'enable_dead_code_elim')
PASSES = {'ConstFold': ConstFold, 'CopyPropagate': CopyPropagate, 'DeadCodeEliminate': DeadCodeEliminate}
HELPER_MODULE = 'vf_c07_helpers'


# --------------------------------------------------------------------------
# time limits (a broken rewrite of a loop counter must not hang the run)

class _Timeout(BaseException):
    pass


def _on_alarm(signum, frame):
    raise _Timeout()


def _with_limit(seconds, fn, *args, **kwargs):
    """Runs fn under a limit on the CPU time this process spends in it (ITIMER_VIRTUAL: user time of
    the process, so the limit means the same on a loaded machine)."""
    old = signal.signal(signal.SIGVTALRM, _on_alarm)
    signal.setitimer(signal.ITIMER_VIRTUAL, seconds)
    try:
        return fn(*args, **kwargs)
    finally:
        signal.setitimer(signal.ITIMER_VIRTUAL, 0)
        signal.signal(signal.SIGVTALRM, old)


# --------------------------------------------------------------------------
# values

def norm(v):
    """Run-time value -> comparable tree: ('b', bool) | ('x', X) | ('l', [...]) | ('t', [...])."""
    if isinstance(v, bool):
        return ('b', v)
    if isinstance(v, (Float, RealFloat, int, float, Fraction)):
        return ('x', to_x(v))
    if isinstance(v, list):
        return ('l', [norm(e) for e in v])
    if isinstance(v, tuple):
        return ('t', [norm(e) for e in v])
    return ('o', repr(v))


def same_tree(a, b) -> bool:
    if a[0] != b[0]:
        return False
    if a[0] == 'x':
        return a[1].same(b[1], zero_sign=True)
    if a[0] in ('l', 't'):
        return len(a[1]) == len(b[1]) and all(same_tree(x, y) for x, y in zip(a[1], b[1]))
    return a[1] == b[1]


def show_tree(a) -> str:
    if a[0] == 'x':
        return str(a[1])
    if a[0] == 'l':
        return '[' + ', '.join(show_tree(e) for e in a[1]) + ']'
    if a[0] == 't':
        return '(' + ', '.join(show_tree(e) for e in a[1]) + ')'
    return repr(a[1])


def enc_arg(v) -> str:
    return ('i:' + str(v)) if isinstance(v, int) else ('f:' + repr(v))


def dec_arg(s: str):
    tag, _, body = s.partition(':')
    return int(body) if tag == 'i' else float(body)


def call(fn, args):
    """('ret', tree) | ('exc', type name, text) | ('timeout',)"""
    try:
        try:
            v = _with_limit(CALL_TIMEOUT, fn, *args)
        except _Timeout:
            # not a verdict yet: give the same call five times the budget before calling it endless
            v = _with_limit(5 * CALL_TIMEOUT, fn, *args)
    except _Timeout:
        return ('timeout',)
    except RecursionError as e:
        return ('exc', 'RecursionError', str(e)[:80])
    except Exception as e:  # noqa: BLE001 - every failure of the program under test is an observation
        return ('exc', type(e).__name__, str(e)[:160])
    return ('ret', norm(v))


def outcome_same(ref, got) -> bool:
    return got[0] == 'ret' and same_tree(ref[1], got[1])


def show_outcome(o) -> str:
    if o[0] == 'ret':
        return show_tree(o[1])
    if o[0] == 'timeout':
        return f'<no result within {5 * CALL_TIMEOUT:.0f} s of CPU time>'
    return f'<raises {o[1]}: {o[2]}>'


# --------------------------------------------------------------------------
# transformations

def tid_simplify(mask: int) -> str:
    return 'simplify:' + format(mask, '05b')


def switches_of(tid: str) -> dict:
    bits = tid.split(':', 1)[1]
    return {name: bits[i] == '1' for i, name in enumerate(SWITCHES)}


def all_transforms(tier: str, seed: int) -> list[str]:
    ts = []
    if tier == 'thorough':
        masks = list(range(31, -1, -1))
    else:
        masks = [0b11111] + [0b11111 & ~(1 << (4 - i)) for i in range(5)]
        rest = [m for m in range(31, -1, -1) if m not in masks]
        k = (2 * seed) % len(rest)
        masks += [rest[k], rest[(k + 1) % len(rest)]]
    ts += [tid_simplify(m) for m in masks]
    ts += ['passes:' + p for p in PASSES]
    ts += ['passes:' + '>'.join(o) for o in itertools.permutations(PASSES)]
    return ts


class _Cycle(Exception):
    """The driver loop of `simplify` re-entered a state it has been in: it never terminates."""

    def __init__(self, steps, start):
        super().__init__('simplify re-entered an earlier state')
        self.steps, self.start = steps, start


class _Session:
    def __init__(self):
        self.steps = []          # (pass name, ast in, ast out, changed)
        self.first = None

    def enter(self, name, ast):
        if self.first is None:
            self.first = name
        if name != self.first:
            return
        # `simplify` is a deterministic loop whose only state at the top of a round is the AST:
        # the same AST at the top of two rounds means the rounds repeat for ever.
        for i, (n, a, _o, _c) in enumerate(self.steps):
            if n == name and a.is_equiv(ast):
                raise _Cycle(self.steps, i)


_SESSION: _Session | None = None


class _PassProxy:
    """Stands in for a pass class inside fpy2.strategies.simple (this process only): forwards to the
    real pass and lets the running session watch the sequence of ASTs."""

    def __init__(self, real, name):
        self._real, self._name = real, name

    def apply_with_status(self, ast, *args, **kwargs):
        s = _SESSION
        if s is not None:
            s.enter(self._name, ast)
        new, c = self._real.apply_with_status(ast, *args, **kwargs)
        if s is not None:
            s.steps.append((self._name, ast, new, c))
        return new, c

    def __getattr__(self, k):
        return getattr(self._real, k)


_PROXIES_INSTALLED = None


def install_proxies() -> bool:
    global _PROXIES_INSTALLED
    if _PROXIES_INSTALLED is None:
        import fpy2.strategies.simple as S
        ok = all(hasattr(getattr(S, n, None), 'apply_with_status') for n in PASSES)
        if ok:
            for n in PASSES:
                if not isinstance(getattr(S, n), _PassProxy):
                    setattr(S, n, _PassProxy(getattr(S, n), n))
        _PROXIES_INSTALLED = ok
    return _PROXIES_INSTALLED


def apply_transform(fn, tid: str):
    global _SESSION
    if tid.startswith('simplify:'):
        install_proxies()
        _SESSION = _Session()
        try:
            return fp.strategies.simplify(fn, **switches_of(tid))
        finally:
            _SESSION = None
    ast = fn.ast
    for p in tid.split(':', 1)[1].split('>'):
        ast = PASSES[p].apply(ast)
    return fn.with_ast(ast)


def mirror_steps(fn, tid: str, state: dict | None = None):
    """The pipeline of `tid` one pass application at a time: yields
    (pass name, kwargs, ast before, ast after).  For simplify this mirrors
    fpy2/strategies/simple.py; it is used for *labelling* only.  `state['current']`
    names the pass being applied (so a raising pass can be named)."""
    state = {} if state is None else state
    ast = fn.ast
    if tid.startswith('passes:'):
        for p in tid.split(':', 1)[1].split('>'):
            state['current'], state['ast'] = p, ast
            new = PASSES[p].apply(ast)
            yield p, {}, ast, new
            ast = new
        return
    sw = switches_of(tid)
    for _ in range(12):
        changed = False
        if sw['enable_const_fold']:
            kw = {'enable_context': sw['enable_const_fold_context'], 'enable_op': sw['enable_const_fold_op']}
            state['current'], state['ast'] = 'ConstFold', ast
            new, c = ConstFold.apply_with_status(ast, **kw)
            yield 'ConstFold', kw, ast, new
            ast, changed = new, changed | c
        if sw['enable_copy_prop']:
            state['current'], state['ast'] = 'CopyPropagate', ast
            new, c = CopyPropagate.apply_with_status(ast)
            yield 'CopyPropagate', {}, ast, new
            ast, changed = new, changed | c
        if sw['enable_dead_code_elim']:
            state['current'], state['ast'] = 'DeadCodeEliminate', ast
            new, c = DeadCodeEliminate.apply_with_status(ast)
            yield 'DeadCodeEliminate', {}, ast, new
            ast, changed = new, changed | c
        if not changed:
            return


# --------------------------------------------------------------------------
# diagnosis: which pass, which single rewrite, which hazard (labels only)

def _children(e):
    out = []
    for cls in type(e).__mro__:
        for slot in getattr(cls, '__slots__', ()):
            v = getattr(e, slot, None)
            if isinstance(v, fp.ast.Expr):
                out.append(v)
            elif isinstance(v, (list, tuple)):
                out.extend(x for x in v if isinstance(x, fp.ast.Expr))
    return out


def _has_list(v) -> bool:
    if isinstance(v, list):
        return True
    if isinstance(v, tuple):
        return any(_has_list(x) for x in v)
    return False


def _lit_kind(v) -> str:
    if isinstance(v, bool):
        return 'bool'
    if isinstance(v, list):
        return 'list'
    if isinstance(v, tuple):
        return 'tuple'
    if isinstance(v, fp.Context):
        return 'context'
    return 'number'


def _shared_var_nodes(ast) -> set:
    """ids of `Var` nodes that occur at more than one place of the tree (an identity-keyed analysis
    can hold only one fact for such a node)."""
    from fpy2.ast import DefaultVisitor
    seen, shared = set(), set()

    class V(DefaultVisitor):
        def _visit_var(self, e, ctx):
            (shared if id(e) in seen else seen).add(id(e))

        def _visit_call(self, e, ctx):
            super()._visit_call(e, ctx)

    V()._visit_function(ast, None)
    return shared


def _responsible(ref, got, variant_outcome) -> bool:
    """A single rewrite is held responsible when it alone changes what the program returns, or makes it
    fail the way the fully transformed program fails (a variant that merely fails to compile because a
    rewrite was applied out of its context is not evidence)."""
    if outcome_same(ref, variant_outcome):
        return False
    if variant_outcome[0] == 'ret':
        return True
    return got[0] == variant_outcome[0] and (got[0] == 'timeout' or got[1] == variant_outcome[1])


def _diag_copy_prop(fn, before, args, ref, got):
    from fpy2.analysis import AssignDef, DefineUse, PhiDef
    from fpy2.ast import Assign, Id, IndexedAssign, Var, WhileStmt
    from fpy2.transform.subst_var import _SubstVar

    du = DefineUse.analyze(before)
    prop = {}
    for d in du.defs:
        if (isinstance(d, AssignDef) and isinstance(d.site, Assign) and isinstance(d.site.target, Id)
                and isinstance(d.site.expr, Var) and len(du.uses[d]) > 0):
            prop[d] = d.site.expr

    shared = _shared_var_nodes(before)

    def hazard(d, stmt, e):
        """Is the source of the copy `x = y` still the same definition of y where x is used?"""
        if id(e) in shared:
            return 'use-node-shared-by-several-sites'
        src = d.site.expr
        d1 = du.find_def_from_use(src)
        if isinstance(stmt, WhileStmt):
            d2 = du.in_defs[stmt.body].get(src.name)
        else:
            d2 = du.reach[stmt].get(src.name)
        if d2 is None:
            return 'copy-source-not-in-scope-at-use'
        if d2 == d1:
            return 'copy-source-unchanged'
        if isinstance(d2, PhiDef):
            return 'copy-source-redefined-before-use:' + ('loop-header-merge' if d2.is_loop else 'if-merge')
        if isinstance(d2.site, IndexedAssign):
            return 'copy-source-redefined-before-use:index-assign'
        return 'copy-source-redefined-before-use:plain-assign'

    class One(_SubstVar):
        def __init__(self, k):
            super().__init__(before, du, prop)
            self.k, self.n, self.hit, self.cur = k, 0, None, None

        def _visit_statement(self, stmt, ctx):
            self.cur = stmt
            return super()._visit_statement(stmt, ctx)

        def _visit_var(self, e, ctx):
            d = self.def_use.find_def_from_use(e)
            if d in self.subst:
                i = self.n
                self.n += 1
                if i == self.k:
                    self.hit = (e, d, self.cur)
                    return self.subst[d]
            return Var(e.name, e.loc)

    alone, every = [], []
    for k in range(200):
        one = One(k)
        ast_k = one.apply()
        if one.hit is None:
            break
        e, d, stmt = one.hit
        hz = hazard(d, stmt, e)
        every.append(hz)
        if _responsible(ref, got, call(fn.with_ast(ast_k), args)):
            alone.append(hz)
    if alone:
        return [{'rewrite': 'name->copy-source', 'hazard': hz} for hz in sorted(set(alone))]
    # no substitution suffices alone: name the substitutions whose source is no longer the copied definition
    stale = sorted({hz for hz in every if hz != 'copy-source-unchanged'})
    if stale:
        return [{'rewrite': 'name->copy-source', 'hazard': hz} for hz in stale]
    return [{'rewrite': 'name->copy-source', 'hazard': 'copy-source-unchanged'}]


def _diag_const_fold(fn, before, kw, args, ref, got):
    from fpy2.analysis import DefineUse, PartialEval
    from fpy2.transform.const_fold import _ConstFoldInstance

    du = DefineUse.analyze(before)
    pe = PartialEval.apply(before, def_use=du)

    class One(_ConstFoldInstance):
        def __init__(self, k):
            super().__init__(before, pe, kw.get('enable_context', True), kw.get('enable_op', True))
            self.k, self.n, self.hit = k, 0, None

            self.stack = []

        def _visit_expr(self, e, ctx):
            self.stack.append(e)
            try:
                return super()._visit_expr(e, ctx)
            finally:
                self.stack.pop()

        def _fold(self, e):
            lit = super()._fold(e)
            if lit is None:
                return None
            i = self.n
            self.n += 1
            if i == self.k:
                self.hit = (e, self.stack[-2] if len(self.stack) > 1 else None)
                return lit
            return None

    ESCAPING = ('Call', 'ListExpr', 'TupleExpr', 'IfExpr')

    shared = _shared_var_nodes(before)

    def classify(e, parent):
        val = pe.by_expr[e]
        old = type(e).__name__
        if old == 'Var' and id(e) in shared:
            return (f'{old}->{_lit_kind(val)}-literal', 'use-node-shared-by-several-sites')
        if _has_list(val):
            if old != 'Var':
                hz = 'list-expression-replaced-by-literal'
            elif parent is None or type(parent).__name__ in ESCAPING:
                # the name is bound, passed, stored or returned: the literal is a different list object
                hz = 'list-name-replaced-by-fresh-literal'
            else:
                # the name is only read here: a fresh list with the same contents would do, so the
                # contents the analysis holds for the name are not the contents at run time
                hz = 'read-of-list-assumed-unmodified'
        elif any(_has_list(pe.by_expr.get(c)) for c in _children(e)):
            hz = 'read-of-list-assumed-unmodified'
        elif old == 'Var':
            hz = 'constant-name-replaced-by-literal'
        else:
            hz = 'scalar-operation-evaluated-statically'
        return (f'{old}->{_lit_kind(val)}-literal', hz)

    alone, every = set(), set()
    for k in range(400):
        one = One(k)
        ast_k = one.apply()
        if one.hit is None:
            break
        cls = classify(*one.hit)
        every.add(cls)
        if _responsible(ref, got, call(fn.with_ast(ast_k), args)):
            alone.add(cls)
    if alone:
        return [{'rewrite': rw, 'hazard': hz} for rw, hz in sorted(alone)]
    # no fold suffices alone (e.g. two calls each handed a fresh literal): name the folds that touch lists
    risky = sorted(c for c in every if 'list' in c[1] or 'shared' in c[1])
    if risky:
        return [{'rewrite': rw, 'hazard': hz} for rw, hz in risky]
    return [{'rewrite': 'fold (only several together)', 'hazard': 'undetermined'}]


def _callee_write_kind(callee) -> str:
    from fpy2.analysis import AssignDef, DefineUse
    from fpy2.ast import Argument, Assign, DefaultVisitor, IndexedAssign, ListExpr, ListRef, Var

    du = DefineUse.analyze(callee.ast)
    found = []

    class V(DefaultVisitor):
        def _visit_indexed_assign(self, stmt, ctx):
            found.append(stmt)
            super()._visit_indexed_assign(stmt, ctx)

    V()._visit_function(callee.ast, None)

    def holds_param_row(ex, depth) -> bool:
        """Is the stored expression (a row of) a list that reaches the callee through a parameter?"""
        try:
            while isinstance(ex, ListRef):
                ex = ex.value
            return isinstance(ex, Var) and origin(du.find_def_from_use(ex), depth + 1) in (
                'parameter', 'local-alias-of-parameter', 'row-of-parameter')
        except Exception:  # noqa: BLE001 - a label only
            return False

    def origin(d, depth=0):
        if not isinstance(d, AssignDef) or depth > 8:
            return 'other'
        if isinstance(d.site, Argument):
            return 'parameter'
        if isinstance(d.site, IndexedAssign):
            o = origin(du.defs[d.prev], depth + 1) if d.prev is not None else 'other'
            if o == 'local' and holds_param_row(d.site.expr, depth):
                return 'local-list-with-row-of-parameter-stored-by-index'
            return o
        if isinstance(d.site, Assign):
            ex = d.site.expr
            if isinstance(ex, ListExpr) and any(holds_param_row(c, depth) for c in _children(ex)):
                return 'list-literal-holding-row-of-parameter'
            if isinstance(ex, Var):
                o = origin(du.find_def_from_use(ex), depth + 1)
                return {'parameter': 'local-alias-of-parameter'}.get(o, o)
            if isinstance(ex, ListRef) and isinstance(ex.value, Var):
                o = origin(du.find_def_from_use(ex.value), depth + 1)
                return {'parameter': 'row-of-parameter', 'local-alias-of-parameter': 'row-of-parameter'}.get(o, o)
            return 'local'
        return 'other'

    kinds = sorted({origin(du.find_def_from_use(s)) for s in found})
    return '+'.join(kinds) if kinds else 'nothing'


def _find_calls(e, acc):
    from fpy2.ast import Call
    if isinstance(e, Call) and isinstance(e.fn, fp.Function):
        acc.append(e.fn)
    for c in _children(e):
        _find_calls(c, acc)
    return acc


def _used_defs_feeding_unused_merges(ast) -> bool:
    """Does some definition that is read somewhere feed a merge that nobody reads -- now, or once the
    plainly unread assignments are gone (the pass iterates)?"""
    from fpy2.analysis import AssignDef, DefineUse, PhiDef
    from fpy2.ast import Assign, DefaultTransformVisitor, NamedId, PassStmt, StmtBlock

    for _ in range(8):
        du = DefineUse.analyze(ast)
        for d in du.defs:
            if isinstance(d, PhiDef) and len(du.uses[d]) == 0 and not any(
                    isinstance(x, PhiDef) for x in du.successors[d]):
                for idx in (d.lhs, d.rhs):
                    arg = du.defs[idx]
                    if isinstance(arg, AssignDef) and len(du.uses[arg]) > 0:
                        return True
        dead = set()
        for d in du.defs:
            if (isinstance(d, AssignDef) and isinstance(d.site, Assign) and isinstance(d.site.target, NamedId)
                    and len(du.uses[d]) == 0 and not du.successors[d]):
                dead.add(id(d.site))
        if not dead:
            return False

        class Drop(DefaultTransformVisitor):
            def _visit_block(self, block, ctx):
                stmts = []
                for stmt in block.stmts:
                    if id(stmt) in dead:
                        continue
                    s, _ = self._visit_statement(stmt, ctx)
                    stmts.append(s)
                return StmtBlock(stmts or [PassStmt(None)]), ctx

        ast = Drop()._visit_function(ast, None)
    return False


def _code_follows_constant_branch_that_returns(ast) -> bool:
    """Is there an `if` with a literal condition whose selected branch ends in `return` and which is
    followed by further statements in its block?"""
    from fpy2.ast import BoolVal, DefaultVisitor, If1Stmt, IfStmt, ReturnStmt
    found = []

    def taken(stmt):
        if isinstance(stmt, (If1Stmt, IfStmt)) and isinstance(stmt.cond, BoolVal):
            if isinstance(stmt, If1Stmt):
                return stmt.body if stmt.cond.val else None
            return stmt.ift if stmt.cond.val else stmt.iff
        return None

    def always_returns(block) -> bool:
        if block is None or not block.stmts:
            return False
        last = block.stmts[-1]
        return isinstance(last, ReturnStmt) or always_returns(taken(last))

    class V(DefaultVisitor):
        def _visit_block(self, block, ctx):
            for i, stmt in enumerate(block.stmts):
                if i + 1 < len(block.stmts) and always_returns(taken(stmt)):
                    found.append(stmt)
            super()._visit_block(block, ctx)

    V()._visit_function(ast, None)
    return bool(found)


def _diag_dead_code(fn, before, after, args, ref, got):
    from fpy2.ast import Assign, DefaultTransformVisitor, EffectStmt, NamedId, PassStmt, StmtBlock

    def head(stmt):
        return stmt.format().strip().split('\n')[0].strip()

    def lines(ast):
        return [ln.strip() for ln in ast.format().split('\n')]

    lb, la = lines(before), lines(after)
    from fpy2.analysis import DefineUse
    du = DefineUse.analyze(before)

    class Drop(DefaultTransformVisitor):
        """`before` without its k-th statement (pre-order)."""

        def __init__(self, k):
            self.k, self.n, self.hit = k, 0, None

        def _visit_block(self, block, ctx):
            stmts = []
            for stmt in block.stmts:
                i = self.n
                self.n += 1
                if i == self.k:
                    self.hit = stmt
                    continue
                s, _ = self._visit_statement(stmt, ctx)
                stmts.append(s)
            if not stmts:
                stmts.append(PassStmt(None))
            return StmtBlock(stmts), ctx

    def classify(stmt):
        what = type(stmt).__name__
        callees = _find_calls(stmt.expr, [])
        if callees:
            kinds = sorted({_callee_write_kind(c) for c in callees})
            return (f'delete-{what}-with-call', 'callee-writes-' + '+'.join(kinds) + via_merge(stmt))
        hz = 'right-side-has-no-call'
        try:
            if isinstance(stmt, Assign) and isinstance(stmt.target, NamedId):
                if len(du.uses[du.find_def_from_site(stmt.target, stmt)]) > 0:
                    hz = 'deleted-definition-still-has-uses'
        except Exception:  # noqa: BLE001
            pass
        return (f'delete-{what}', hz + via_merge(stmt))

    def via_merge(stmt) -> str:
        """The pass only considers a definition that feeds a merge when it drops the merge."""
        try:
            from fpy2.analysis import PhiDef
            if isinstance(stmt, Assign) and isinstance(stmt.target, NamedId):
                d = du.find_def_from_site(stmt.target, stmt)
                if any(isinstance(x, PhiDef) for x in du.successors[d]):
                    return ' (definition feeds a merge)'
        except Exception:  # noqa: BLE001
            pass
        return ''

    def is_read(stmt) -> bool:
        """Does the definition made by this statement have a reader?"""
        try:
            if isinstance(stmt, Assign):
                names = [stmt.target] if isinstance(stmt.target, NamedId) else list(stmt.target.names())
                return any(len(du.uses[du.find_def_from_site(nm, stmt)]) > 0 for nm in names)
        except Exception:  # noqa: BLE001
            pass
        return False

    # which statements did the pass remove?  By text; where the same text occurs several times and only
    # some copies went, the copies nobody reads are taken to be the removed ones (both readings give
    # the same output text, and that is the reading under which the pass did nothing wrong).
    cands: dict[str, list] = {}
    for k in range(200):
        drop = Drop(k)
        ast_k = drop._visit_function(before, None)
        if drop.hit is None:
            break
        cands.setdefault(head(drop.hit), []).append((k, drop.hit, ast_k))
    removed = []
    for h, items in cands.items():
        gone = lb.count(h) - la.count(h)
        if gone <= 0:
            continue
        if ' = ' in h and isinstance(items[0][1], Assign) and not isinstance(items[0][1].target, NamedId):
            rhs = ' = ' + h.split(' = ', 1)[1]
            if sum(1 for ln in la if ln.endswith(rhs)) >= lb.count(h):
                continue                   # kept with some targets scrubbed to `_`, not removed
        items = sorted(items, key=lambda it: (is_read(it[1]), it[0]))
        removed.extend(items[:gone])
    removed.sort(key=lambda it: it[0])

    alone, removed_calls, removed_kinds = set(), set(), set()
    for k, stmt, ast_k in removed:
        removed_kinds.add(type(stmt).__name__)
        if not isinstance(stmt, (Assign, EffectStmt)):
            continue                       # deleting a compound statement alone is not what the pass did
        cls = classify(stmt)
        if cls[1].startswith('callee-writes-') and not cls[1].startswith('callee-writes-nothing'):
            removed_calls.add(cls)
        if _responsible(ref, got, call(fn.with_ast(ast_k), args)):
            alone.add(cls)
    if alone:
        return [{'rewrite': rw, 'hazard': hz} for rw, hz in sorted(alone)]
    if removed_calls:
        # no single deletion suffices (e.g. the same writing call removed twice)
        return [{'rewrite': rw, 'hazard': hz} for rw, hz in sorted(removed_calls)]
    return [{'rewrite': 'delete/restructure ' + '+'.join(sorted(removed_kinds)), 'hazard': 'undetermined'}]


def _diag_cycle(exc: _Cycle) -> dict:
    """Which pass keeps the loop of `simplify` alive, and on what."""
    from fpy2.analysis import AssignDef, DefineUse
    from fpy2.ast import Assign, Id, IndexedAssign, Var

    loop = exc.steps[exc.start:]
    idle = [(n, a) for n, a, o, c in loop if c and o.is_equiv(a)]
    if not idle:
        names = '+'.join(sorted({n for n, a, o, c in loop if c}))
        return {'pass': names, 'rewrite': 'passes undo each other', 'hazard': 'oscillation'}
    name, ast = idle[0]
    hz = 'n/a'
    if name == 'CopyPropagate':
        # the pass reports a change whenever some copy `x = y` has a use; why did rewriting change nothing?
        du = DefineUse.analyze(ast)
        shared = _shared_var_nodes(ast)
        kinds = set()
        for d in du.defs:
            if (isinstance(d, AssignDef) and isinstance(d.site, Assign) and isinstance(d.site.target, Id)
                    and isinstance(d.site.expr, Var) and len(du.uses[d]) > 0):
                if d.site.expr.name == d.name:
                    kinds.add('self-copy')
                elif not any(isinstance(u, Var) for u in du.uses[d]):
                    kinds.add('copy-is-index-assigned' if any(isinstance(u, IndexedAssign) for u in du.uses[d])
                              else 'copy-has-no-rewritable-use')
                elif shared:
                    kinds.add('use-node-shared-by-several-sites')
                else:
                    kinds.add('other-copy')
        for k in ('copy-is-index-assigned', 'self-copy', 'use-node-shared-by-several-sites',
                  'copy-has-no-rewritable-use', 'other-copy'):
            if k in kinds:
                hz = k        # one cause is named even when several copies keep the loop alive
                break
        else:
            hz = 'no-copy'
    return {'pass': name, 'rewrite': 'reports-a-change-but-returns-an-equivalent-program', 'hazard': hz}


def diagnose(fn, tid: str, args, ref, got) -> list[dict]:
    """Signature parts {'pass', 'rewrite', 'hazard'} for a confirmed violation: one entry per distinct
    class of single rewrite that suffices to produce it."""
    try:
        steps = mirror_steps(fn, tid)
        while True:
            try:
                name, kw, before, after = _with_limit(TRANSFORM_TIMEOUT, next, steps)
            except StopIteration:
                return [{'pass': 'unattributed', 'rewrite': 'pipeline mirror does not reproduce', 'hazard': tid}]
            except _Timeout:
                return [{'pass': 'unattributed', 'rewrite': 'pipeline step does not terminate', 'hazard': tid}]
            except Exception as e:  # noqa: BLE001
                return [{'pass': 'pipeline step raises', 'rewrite': type(e).__name__, 'hazard': 'n/a'}]
            if outcome_same(ref, call(fn.with_ast(after), args)):
                continue
            if name == 'CopyPropagate':
                ds = _diag_copy_prop(fn, before, args, ref, got)
            elif name == 'ConstFold':
                ds = _diag_const_fold(fn, before, kw, args, ref, got)
            else:
                ds = _diag_dead_code(fn, before, after, args, ref, got)
            for d in ds:
                d['pass'] = name
            return ds
    except _Timeout:
        raise
    except Exception as e:  # noqa: BLE001 - labelling must never lose a violation
        return [{'pass': 'undiagnosed', 'rewrite': type(e).__name__ + ': ' + str(e)[:60],
                 'hazard': tid.split(':')[0]}]


# --------------------------------------------------------------------------
# loading

_HELPERS_LOADED: dict[str, str] = {}


def ensure_helpers(text: str):
    """Load the helper callees once per process and expose them to generated modules."""
    if _HELPERS_LOADED.get('text') == text and HELPER_MODULE in sys.modules:
        return
    mod = loader.load_source(text)
    m = types.ModuleType(HELPER_MODULE)
    for name in pg.HELPER_NAMES:
        if hasattr(mod, name):
            setattr(m, name, getattr(mod, name))
    m.__all__ = [n for n in pg.HELPER_NAMES if hasattr(mod, n)]
    sys.modules[HELPER_MODULE] = m
    _HELPERS_LOADED['text'] = text


PRELUDE = loader.PRELUDE + f'from {HELPER_MODULE} import *\n'


def load_programs(srcs: list[str]):
    """[Function | Exception] for each source text (each defines `f`)."""
    renamed = [s.replace('def f(', f'def f_{i}(', 1) for i, s in enumerate(srcs)]
    try:
        mod = loader.load_source('\n'.join(renamed), prelude=PRELUDE)
        return [getattr(mod, f'f_{i}') for i in range(len(srcs))]
    except Exception:  # noqa: BLE001 - find the offender(s) one by one
        out = []
        for s in srcs:
            try:
                out.append(loader.load_function(s, 'f', prelude=PRELUDE))
            except Exception as e:  # noqa: BLE001
                out.append(e)
        return out


# --------------------------------------------------------------------------
# the check

U_POOL = {'quick': [3.0, -2.0, -0.0, math.nan],
          'thorough': [3.0, -2.0, 0.0, -0.0, 0.1, math.inf, math.nan]}
N_POOL = {'quick': [0, 2], 'thorough': [0, 1, 2, 3]}


def inputs_for(fam, tier: str):
    n_pool = (fam.n_pool or N_POOL)[tier]
    axes = [U_POOL[tier] if a == 'u' else n_pool for a in fam.argnames]
    return [tuple(t) for t in itertools.product(*axes)]


class Check(BaseCheck):
    pid = 'C07'
    rule = ('every program of <= N statements of each grammar family (incl. `poke`: helpers called only for their '
            'effect on a nested list -- direct row write, row alias, row stored by index into a locally built list and '
            'written one level below, row held in a literal, pure control) x every transformation of the tier x every '
            'input of the pool; a case is (program, transformation, input) judged where the original returns. '
            'nontrivial = distinct (program, transformed text, input) where the transformed program is not '
            'structurally equivalent to the original')
    assumptions = [
        'the original and the transformed program run on the same default interpreter; the interpreter itself is '
        'checked by C04',
        'only inputs on which the original returns are judged',
        f'a call that uses more than {CALL_TIMEOUT:.0f} s and, tried again, more than {5 * CALL_TIMEOUT:.0f} s of CPU time '
        '(normal: < 1 ms) counts as not returning',
        'sizes, families and pools are bounds: larger programs, other statement kinds and other inputs are not explored',
    ]
    trusted_base = ['CPython', 'fpy2 front end and bytecode interpreter (as the common evaluator of both sides)']

    def __init__(self, tier, seed):
        super().__init__(tier, seed)
        self.transforms = all_transforms(tier, seed)

    # ---- the declared space ---------------------------------------------
    def plan(self):
        """[(family, size, slice or None)] in enumeration order."""
        out = []
        for fam in pg.FAMILIES:
            core, extra = fam.sizes[self.tier]
            for size in range(2, core + 1):
                out.append((fam, size, None))
            if extra is not None:
                out.append((fam, extra, self.seed % SLICES))
        return out

    def programs(self):
        """(global index, family, size, source) for the whole declared space, fixed order."""
        idx = 0
        for fam, size, sl in self.plan():
            en = pg._Enum(fam)
            for j, src in enumerate(en.programs(size)):
                if sl is not None and j % SLICES != sl:
                    continue
                yield idx, fam, size, src
                idx += 1

    def bounds(self):
        return {
            'families': {fam.name: {'core_max_size': fam.sizes[self.tier][0],
                                    'seed_rotated_extra': (None if fam.sizes[self.tier][1] is None else
                                                           f'size {fam.sizes[self.tier][1]}, slice '
                                                           f'{self.seed % SLICES} of {SLICES}'),
                                    'atoms': len(fam.atoms), 'wrappers': len(fam.wraps),
                                    'max_nesting': fam.maxdepth}
                         for fam in pg.FAMILIES},
            'transformations': self.transforms,
            'u_pool': [repr(x) for x in U_POOL[self.tier]], 'n_pool': N_POOL[self.tier],
            'n_pool_overrides': {f.name: f.n_pool[self.tier] for f in pg.FAMILIES if f.n_pool},
        }

    def shards(self):
        return [(k, NSHARDS) for k in range(NSHARDS)]

    # ---- one program -----------------------------------------------------
    def check_program(self, r: ShardResult, fam, size, src, fn, transforms=None, inputs=None, collect=None):
        transforms = self.transforms if transforms is None else transforms
        inputs = inputs_for(fam, self.tier) if inputs is None else inputs
        r.count('programs')
        r.count(f'programs_{fam.name}')
        refs = []
        for args in inputs:
            o = call(fn, args)
            if o[0] == 'ret':
                refs.append((args, o))
            else:
                r.count('original_does_not_return')
                r.outcomes['original:' + (o[1] if o[0] == 'exc' else 'timeout')] += 1
        if not refs:
            r.count('programs_never_returning')
            return
        variants: dict[str, list] = {}      # transformed text -> [Function, [tids]]
        for tid in transforms:
            r.count('transitions')
            try:
                g = _with_limit(TRANSFORM_TIMEOUT, apply_transform, fn, tid)
            except _Cycle as e:
                self._report(r, fam, size, src, tid, refs[0][0], refs[0][1], ('cycle', e), fn, collect,
                             stage='transform')
                continue
            except _Timeout:
                self._report(r, fam, size, src, tid, refs[0][0], refs[0][1], ('timeout',), fn, collect,
                             stage='transform')
                continue
            except Exception as e:  # noqa: BLE001
                self._report(r, fam, size, src, tid, refs[0][0], refs[0][1],
                             ('exc', type(e).__name__, str(e)[:160]), fn, collect, stage='transform')
                continue
            # transformations that produce the same program are run once
            text = g.format()
            slot = variants.get(text)
            while slot is not None and not slot[0].ast.is_equiv(g.ast):
                text += '#'                   # same text, different tree: keep both
                slot = variants.get(text)
            if slot is None:
                variants[text] = [g, [tid]]
            else:
                slot[1].append(tid)
        for text, (g, tids) in variants.items():
            changed = not g.ast.is_equiv(fn.ast)
            r.outcomes['rewritten' if changed else 'unchanged'] += len(tids)
            bad = None
            for args, ref in refs:
                r.count('transitions')
                r.count('evaluations', len(tids))
                r.count('states', len(tids))
                if changed:
                    r.count('nontrivial')
                got = call(g, args)
                if not outcome_same(ref, got):
                    r.count('mismatching_cases', len(tids))
                    if bad is None:
                        bad = (args, ref, got)
                    if got[0] == 'timeout':
                        break                 # do not wait out the limit once per input
            if bad is not None:
                # one report per (program, distinct transformed text); the shortest pipeline names it
                tid = min(tids, key=lambda t: (len(t), t))
                self._report(r, fam, size, src, tid, bad[0], bad[1], bad[2], fn, collect, also=tids)
        if size <= 4 and changed_any(variants, fn):
            r.sample({'family': fam.name, 'program': src, 'distinct_results': len(variants),
                      'one_result': next(iter(variants))}, limit=2)

    def _report(self, r, fam, size, src, tid, args, ref, got, fn, collect, stage='run', also=None):
        if stage == 'transform':
            d = {'pass': 'n/a', 'rewrite': 'n/a', 'hazard': 'n/a'}
            if got[0] == 'cycle':
                effect = 'simplify-does-not-terminate'
                try:
                    d = _diag_cycle(got[1])
                except Exception as e:  # noqa: BLE001
                    d['rewrite'] = 'undiagnosed ' + type(e).__name__
                got = ('exc', 'non-termination', 'the loop of simplify re-enters a state it has been in '
                       f'(after {len(got[1].steps)} pass applications)')
            else:
                effect = ('transformation-raises:' + got[1]) if got[0] == 'exc' else \
                    'transformation-does-not-finish-in-time'
                state: dict = {}
                try:
                    _with_limit(TRANSFORM_TIMEOUT, lambda: [0 for _ in mirror_steps(fn, tid, state)])
                    d['pass'] = 'unattributed'
                except BaseException as e:  # noqa: BLE001
                    import os as _os
                    import traceback as _tb
                    d['pass'] = state.get('current', 'n/a')
                    d['rewrite'] = 'raises ' + type(e).__name__
                    frames = [f for f in _tb.extract_tb(e.__traceback__) if 'fpy2' in f.filename]
                    if frames:
                        top = frames[-1]
                        d['hazard'] = 'raised in ' + _os.path.basename(top.filename) + ':' + top.name
                    try:
                        if d['pass'] == 'DeadCodeEliminate':
                            if type(e).__name__ == 'KeyError' and _used_defs_feeding_unused_merges(state['ast']):
                                d['hazard'] += '; a definition that is read feeds a merge nobody reads'
                            elif _code_follows_constant_branch_that_returns(state['ast']):
                                d['hazard'] += '; statements follow a literal-condition if whose taken branch returns'
                    except Exception:  # noqa: BLE001
                        pass
        else:
            effect = ('wrong-value' if got[0] == 'ret' else
                      'raises:' + got[1] if got[0] == 'exc' else 'does-not-terminate')
            ds = diagnose(fn, tid, args, ref, got)
        if stage == 'transform':
            ds = [d]
        case = {'family': fam.name, 'size': size, 'helpers': pg.HELPERS, 'src': src, 'transform': tid,
                'args': [enc_arg(a) for a in args]}
        for d in ds:
            sig = {'pass': d['pass'], 'rewrite': d['rewrite'], 'hazard': d['hazard'], 'effect': effect}
            detail = (f'family {fam.name}, transformation {tid}'
                      + (f' (same result text from {len(also)} transformations)' if also and len(also) > 1 else '')
                      + f', args {case["args"]}\n{src}'
                      f'original returns {show_outcome(ref)}; transformed: {show_outcome(got)}\n'
                      f'attributed to {sig["pass"]}: {sig["rewrite"]} [{sig["hazard"]}]'
                      + (f' (one of {len(ds)} single rewrites of different kinds that each suffice)'
                         if len(ds) > 1 else ''))
            r.outcomes['violation:' + sig['pass'] + ':' + sig['hazard']] += 1
            if collect is not None:
                collect.append((sig, detail))
            r.violate(sig, case, detail)

    # ---- shards ----------------------------------------------------------
    def run_shard(self, shard) -> ShardResult:
        k, m = shard
        r = ShardResult()
        ensure_helpers(pg.HELPERS)
        gc.disable()        # collections happen between batches, never inside a time-limited call
        rt = fp.interpret.get_default_interpreter() if hasattr(fp, 'interpret') else None
        batch = []

        def flush():
            if not batch:
                return
            fns = load_programs([b[3] for b in batch])
            for (idx, fam, size, src), fn in zip(batch, fns):
                if isinstance(fn, Exception):
                    r.count('rejected_by_frontend')
                    r.outcomes['frontend:' + type(fn).__name__] += 1
                    if r.counts['rejected_by_frontend'] <= 2:
                        r.notes.append(f'front end rejected a generated program ({type(fn).__name__}: '
                                       f'{str(fn)[:80]}): {src!r}')
                    continue
                self.check_program(r, fam, size, src, fn)
            batch.clear()
            if rt is not None and hasattr(rt, 'func_cache'):
                rt.func_cache.clear()
            gc.collect()

        for idx, fam, size, src in self.programs():
            if idx % m != k:
                continue
            batch.append((idx, fam, size, src))
            if len(batch) >= BATCH:
                flush()
        flush()
        gc.enable()
        return r

    # ---- replay ----------------------------------------------------------
    def replay(self, case):
        ensure_helpers(case['helpers'])
        fam = pg.FAMILY_BY_NAME[case['family']]
        fn = loader.load_function(case['src'], 'f', prelude=PRELUDE)
        args = tuple(dec_arg(a) for a in case['args'])
        r = ShardResult()
        got: list = []
        self.check_program(r, fam, case.get('size', 0), case['src'], fn, transforms=[case['transform']],
                           inputs=[args], collect=got)
        head = f'program (family {fam.name}):\n{case["src"]}transformation {case["transform"]}, args {case["args"]}\n'
        try:
            head += 'transformed program:\n' + apply_transform(fn, case['transform']).format() + '\n'
        except BaseException as e:  # noqa: BLE001
            head += f'transformation raised {e!r}\n'
        if got:
            return True, head + '\n'.join(d for _, d in got)
        if r.counts['original_does_not_return']:
            return False, head + 'the original does not return on this input: not judged'
        return False, head + 'original and transformed program return the same value'


def changed_any(variants, fn) -> bool:
    return any(not g.ast.is_equiv(fn.ast) for g, _ in variants.values())
