"""Launcher: python -m mc.run C07 --tier quick|thorough [--replay path] [--jobs N]"""

import argparse
import os
import sys


def main():
    ap = argparse.ArgumentParser()
    ap.add_argument('pid')
    ap.add_argument('--tier', default=os.environ.get('VERIF_TIER', 'quick'),
                    choices=['quick', 'thorough'])
    ap.add_argument('--replay')
    ap.add_argument('--jobs', type=int, default=int(os.environ.get('VERIF_JOBS', '16')))
    args = ap.parse_args()
    pid = args.pid.upper()
    seed = int(os.environ.get('VERIF_SEED', '0') or 0)

    # deterministic hashing: re-exec with PYTHONHASHSEED derived from the seed
    want = str(seed % (2 ** 32))
    if os.environ.get('PYTHONHASHSEED') != want:
        env = dict(os.environ)
        env['PYTHONHASHSEED'] = want
        os.execve(sys.executable, [sys.executable, '-m', 'mc.run'] + sys.argv[1:], env)

    os.environ.setdefault('FPY_VERIF', '1')
    # FPY_REPO=<worktree>: check a scratch copy of bksaiki/fpy instead of /repo
    # (used only for mutation experiments; registered commands never set it)
    alt = os.environ.get('FPY_REPO')
    if alt:
        sys.path.insert(0, alt)
        import fpy2
        assert os.path.abspath(fpy2.__file__).startswith(os.path.abspath(alt)), fpy2.__file__
    sys.setrecursionlimit(10000)
    from mc.engine import runner
    modname = f'mc.checks.{pid.lower()}'
    if args.replay:
        sys.exit(runner.main_replay(modname, pid, args.replay))
    sys.exit(runner.main_run(modname, pid, args.tier, seed, args.jobs))


if __name__ == '__main__':
    main()
