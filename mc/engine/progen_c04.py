"""
Bounded-exhaustive program enumerator for C04 (pure text; no import of fpy2).

Layer 1 (`expressions(level)`): typed expression trees of depth <= 2, one family per
operator row.  Children of a root are *all* trees of depth <= 1 of the child's type;
`level` bounds how many children of one root may be non-leaves (1 = quick, 2 = thorough).

Layer 2 (`skeletons(n)` + `render`): all statement skeletons of exactly n statement
nodes over 11 atomic and 6 compound kinds (early `return` as the last statement of any
block, no unreachable code), expression / context / iterable holes filled by a fixed
rotation over small pools, a probe `ps[j] = 1 / 3` after each compound statement.
"""

from __future__ import annotations

import itertools
import re

# ---------------------------------------------------------------------------
# Layer 1: expressions.  A tree is (text, depth, row).

N_LEAVES = ['u', 'v']
N_LITERALS = ['0', '0.1']
I_LEAVES = ['0', '1', '2']
B_LEAVES = ['True', 'False']
L_LEAVES = ['us']

ARITH = ['+', '-', '*', '/']
CMPS = ['<', '<=', '>', '>=', '==', '!=']
UNARY_N = ['-{0}', 'abs({0})', 'fp.round({0})', 'fp.floor({0})', 'fp.ceil({0})', 'fp.trunc({0})', 'fp.sqrt({0})']
PREDS = ['fp.isnan({0})', 'fp.isinf({0})', 'fp.isfinite({0})', 'fp.signbit({0})']


def _sub(t: str, old: str, new: str) -> str:
    return re.sub(r'\b' + old + r'\b', new, t)


def _paren(t: str) -> str:
    return t if t.isidentifier() or t.isdigit() else f'({t})'


def n_depth1():
    """all number-valued trees of depth exactly 1 over the leaves: (text, row)"""
    out = []
    for op in ARITH:
        for a in N_LEAVES:
            for b in N_LEAVES:
                out.append((f'{a} {op} {b}', op))
    for a in N_LEAVES:
        for b in I_LEAVES:
            out.append((f'{a} ** {b}', '**'))
    for a in N_LEAVES:
        for b in N_LEAVES:
            out.append((f'{a} % {b}', '%'))
    for f in UNARY_N:
        for a in N_LEAVES:
            out.append((f.format(a), f.format('')))
    for a, b, c in itertools.product(N_LEAVES, repeat=3):
        out.append((f'fp.fma({a}, {b}, {c})', 'fma'))
    for f in ('min', 'max'):
        for a in N_LEAVES:
            for b in N_LEAVES:
                out.append((f'{f}({a}, {b})', f + '/2'))
        out.append((f'{f}(us)', f + '/list'))
    out.append(('sum(us)', 'sum'))
    out.append(('len(us)', 'len'))
    for c in B_LEAVES:
        for a in N_LEAVES:
            for b in N_LEAVES:
                out.append((f'{a} if {c} else {b}', 'ifexp'))
    for i in I_LEAVES:
        out.append((f'us[{i}]', 'index'))
    for a in N_LEAVES:
        out.append((f'fp.fst(({a}, v))', 'fst'))
        out.append((f'fp.snd((u, {a}))', 'snd'))
    return out


def literal_depth1():
    """depth-1 trees with an exact literal as one operand (a number that has no floating-point
    representation of its own inside the implementation); not used as children of depth-2 trees"""
    out = []
    for lit in N_LITERALS:
        for a in N_LEAVES:
            for op in ARITH:
                out.append((f'{a} {op} {lit}', op))
                out.append((f'{lit} {op} {a}', op))
            for f in ('min', 'max'):
                out.append((f'{f}({a}, {lit})', f + '/2'))
                out.append((f'{f}({lit}, {a})', f + '/2'))
                out.append((f'{f}([{a}, {lit}])', f + '/list'))
                out.append((f'{f}([{lit}, {a}])', f + '/list'))
            out.append((f'fp.fma({a}, {lit}, {lit})', 'fma'))
            for op in CMPS:
                out.append((f'{a} {op} {lit}', 'cmp' + op))
                out.append((f'{lit} {op} {a}', 'cmp' + op))
    return out


def b_depth1():
    out = []
    for op in CMPS:
        for a in N_LEAVES:
            for b in N_LEAVES:
                out.append((f'{a} {op} {b}', 'cmp' + op))
    for op in ('and', 'or'):
        for a in B_LEAVES:
            for b in B_LEAVES:
                out.append((f'{a} {op} {b}', op))
    for a in B_LEAVES:
        out.append((f'not {a}', 'not'))
    for f in PREDS:
        for a in N_LEAVES:
            out.append((f.format(a), f.format('')))
    return out


def l_depth1():
    out = [('[]', 'list'), ('[u]', 'list'), ('[v, u]', 'list'), ('[u, v, u]', 'list')]
    for i in I_LEAVES:
        out.append((f'us[{i}:]', 'slice'))
        out.append((f'us[:{i}]', 'slice'))
        for j in I_LEAVES:
            out.append((f'us[{i}:{j}]', 'slice'))
    out.append(('us[:]', 'slice'))
    out.append(('[x for x in us]', 'comp'))
    out.append(('[u for x in us]', 'comp'))
    for i in I_LEAVES:
        out.append((f'range({i})', 'range'))
        for j in I_LEAVES:
            out.append((f'range({i}, {j})', 'range'))
    return out


def i_depth1():
    return [('len(us)', 'len'), ('len(us) - 1', '-'), ('1 + 1', '+')]


def _combos(pools_leaf, pools_all, max_nonleaf):
    """all child tuples: child k from pools_all[k], at most `max_nonleaf` children outside pools_leaf[k]"""
    k = len(pools_leaf)
    for mask in itertools.product((0, 1), repeat=k):
        if sum(mask) > max_nonleaf:
            continue
        choice = [(pools_all[i] if m else pools_leaf[i]) for i, m in enumerate(mask)]
        yield from itertools.product(*choice)


def expressions(level: int):
    """yields (row, text).  level 1: at most one non-leaf child per root; level 2: at most two."""
    N1 = [t for t, _ in n_depth1()]
    B1 = [t for t, _ in b_depth1()]
    L1 = [t for t, _ in l_depth1()]
    I1 = [t for t, _ in i_depth1()]
    NL, BL, LL, IL = N_LEAVES, B_LEAVES, L_LEAVES, I_LEAVES
    seen = set()

    def emit(row, text):
        if text not in seen:
            seen.add(text)
            return [(row, text)]
        return []

    # depth <= 1 trees themselves
    for t, row in n_depth1() + b_depth1() + l_depth1() + literal_depth1():
        yield from emit(row, t)
    yield from emit('leaf', 'u')
    yield from emit('leaf', 'us')

    def fam(row, fmt, leafs, alls):
        for ch in _combos(leafs, alls, level):
            if all(c in lf for c, lf in zip(ch, leafs)):
                continue        # depth 1: already emitted
            yield from emit(row, fmt.format(*[_paren(c) for c in ch]))

    for op in ARITH + ['%']:
        yield from fam(op, '{0} ' + op + ' {1}', [NL, NL], [N1, N1])
    yield from fam('**', '{0} ** {1}', [NL, IL], [N1, I1])
    for f in UNARY_N + PREDS:
        yield from fam(f.format(''), f, [NL], [N1])
    yield from fam('fma', 'fp.fma({0}, {1}, {2})', [NL] * 3, [N1] * 3)
    for f in ('min', 'max'):
        yield from fam(f + '/2', f + '({0}, {1})', [NL] * 2, [N1] * 2)
        yield from fam(f + '/3', f + '({0}, {1}, {2})', [NL] * 3, [N1] * 3)
        for a, b, c in itertools.product(NL, repeat=3):
            yield from emit(f + '/3', f'{f}({a}, {b}, {c})')
        yield from fam(f + '/list', f + '({0})', [LL], [L1])
    for f in ('sum', 'len'):
        yield from fam(f, f + '({0})', [LL], [L1])
    for f in ('any', 'all'):
        for lb in ['[]', '[{0}]', '[{0}, {1}]', '[{1}, {0}, {1}]']:
            for a, b in itertools.product(BL + B1[:30], BL + ['u < v', 'fp.isnan(u)']):
                yield from emit(f, f'{f}({lb.format(a, b)})')
        for b in B1[:24]:
            yield from emit(f, f'{f}([{_sub(b, "u", "x")} for x in us])')
        yield from emit(f + '-nonbool', f'{f}([u, v])')
        yield from emit(f + '-nonbool', f'{f}([u < v, 1])')
    for op in CMPS:
        yield from fam('cmp' + op, '{0} ' + op + ' {1}', [NL, NL], [N1, N1])
    for op in ('==', '!='):
        yield from fam('cmp' + op + '/list', '{0} ' + op + ' {1}', [LL, LL], [L1, L1])
        for a in NL:
            yield from emit('cmp' + op + '/tuple', f'(u, {a}) {op} ({a}, v)')
            yield from emit('cmp' + op + '/mixed', f'[u, {a}] {op} ({a}, v)')
            yield from emit('cmp' + op + '/mixed', f'{a} {op} us')
            yield from emit('cmp' + op + '/mixed', f'(u < v) {op} {a}')
        yield from emit('cmp' + op + '/bool', f'(u < v) {op} (v < u)')
    # chains: every ordered pair of comparators; the middle operand is evaluated once
    mids = NL + ['u + v', 'u * v', 'u / v', 'fp.fma(u, v, u)', 'max(u, v)', 'us[0]', 'sum(us)', 'len(us)']
    for o1 in CMPS:
        for o2 in CMPS:
            for a in NL:
                for c in NL:
                    for m in mids:
                        yield from emit('chain', f'{a} {o1} {_paren(m)} {o2} {c}')
    for o1, o2, o3 in itertools.product(['<', '<=', '=='], repeat=3):
        yield from emit('chain3', f'u {o1} v {o2} us[0] {o3} u + 1')
    for op in ('and', 'or'):
        yield from fam(op, '{0} ' + op + ' {1}', [BL, BL], [B1, B1])
        yield from fam(op + '/3', '{0} ' + op + ' {1} ' + op + ' {2}', [BL] * 3, [B1] * 3)
        # short-circuit: the skipped operand would be stuck
        yield from emit(op + '-shortcut', f'u < v {op} us[2] < u')
        yield from emit(op + '-shortcut', f'fp.isnan(u) {op} min([]) < u')
    yield from fam('not', 'not {0}', [BL], [B1])
    yield from fam('ifexp', '{1} if {0} else {2}', [BL, NL, NL], [B1, N1, N1])
    yield from fam('ifexp/b', '{1} if {0} else {2}', [BL, BL, BL], [B1, B1, B1])
    yield from emit('ifexp-untaken', 'u if u < v else us[2]')
    yield from emit('ifexp-untaken', 'min([]) if fp.isnan(u) else v')
    yield from fam('index', '{0}[{1}]', [LL, IL], [L1, I1 + N1[:24]])
    for lit in ['[{0}]', '[{0}, {1}]', '[{1}, {0}, {1}]']:
        yield from fam('list', lit, [NL, NL], [N1, N1])
    yield from fam('slice', '{0}[{1}:{2}]', [LL, IL, IL], [L1, I1 + ['u', 'v', 'u + v', '-1'], I1 + ['u', 'v', 'u * v', '-1']])
    yield from fam('slice', '{0}[{1}:]', [LL, IL], [L1, I1 + ['u', 'v']])
    yield from fam('slice', '{0}[:{1}]', [LL, IL], [L1, I1 + ['u', 'v']])
    yield from fam('slice', '{0}[:]', [LL], [L1])
    # comprehensions: element = every depth <= 1 number/bool tree over {x, u} / {x, y}
    for t in N1 + B1:
        tx = _sub(t, 'v', 'x')
        yield from emit('comp', f'[{tx} for x in us]')
        yield from emit('comp', f'[{tx} for x in us[1:]]')
        yield from emit('comp', f'[{tx} for x in [u, v, 1 / 3]]')
        txy = _sub(_sub(t, 'u', 'y'), 'v', 'x')
        yield from emit('comp2', f'[{txy} for x in us for y in [u, v]]')
        yield from emit('comp2', f'[{txy} for x in us for y in us]')
        yield from emit('comp-enum', f'[{txy} for y, x in enumerate(us)]')
        yield from emit('comp-zip', f'[{txy} for x, y in zip(us, [u, v])]')
        yield from emit('comp-zip', f'[{txy} for x, y in zip(us, us[:])]')
    for l in L1:
        yield from emit('enumerate', f'enumerate({l})')
        yield from emit('zip', f'zip({l}, us)')
        yield from emit('zip', f'zip(us, {l})')
        yield from emit('zip3', f'zip({l}, {l}, us)')
        yield from emit('comp-nested', f'[[x, y] for x in {l} for y in us]')
    yield from fam('range', 'range({0})', [IL], [I1 + N1[:30]])
    yield from fam('range', 'range({0}, {1})', [IL, IL], [I1 + ['u', 'v', '-1'], I1 + ['u', 'v', '-2']])
    yield from fam('range', 'range({0}, {1}, {2})', [IL, IL, IL], [I1 + ['u'], I1 + ['v'], ['-1', 'u', 'len(us)']])
    for f in ('fp.fst', 'fp.snd'):
        yield from fam(f, f + '(({0}, {1}))', [NL, NL], [N1, N1])
    # literals read exactly
    for lit in ['0.1', '1e-1', '0.1000000000000000055511151231257827', '1e23', '3.5e0', '0x10', '1_0',
                'fp.rational(1, 3)', 'fp.rational(-2, 7)', 'fp.digits(3, -2, 2)', 'fp.digits(-5, 1, 10)',
                "fp.hexfloat('0x1.8p1')", "fp.hexfloat('-0x1.01p-3')", '-0.0', '-0', '-3', '1e400', '1e-400']:
        # (an integer spelled with an exponent beyond 2^53 is a class of its own: see C06)
        row = 'literal/integer-valued-float' if lit == '1e23' else 'literal'
        for ctxt in ['{0}', '{0} + u', 'u * {0}', 'fp.round({0})', '[{0}, u]', '{0} < u']:
            yield from emit(row, ctxt.format(lit))


# ---------------------------------------------------------------------------
# Layer 2: statement skeletons

ATOMS = ['assign', 'tuple', 'aug', 'alias', 'idx', 'call0', 'call1', 'call2', 'assert', 'effect']
UNARY_COMPOUND = ['if1', 'for', 'while', 'with', 'withas']

N_POOL = ['1 / 3', 'a + b', 'a * u', 'u / 3', 'b - a / 3', 'xs[0]', 'sum(xs)', 'fp.round(a)', 'max(a, v)',
          'len(xs) / 3', 'ys[1] * b', 'fp.fma(a, b, 0.1)', 'sum([t / 3 for t in ys])', 'a / 3 if a < b else b / 3']
NX_POOL = ['a + x', 'x / 3']                      # additionally inside for bodies
B_POOL = ['a < b', 'u <= 1', 'not fp.isnan(a)', 'a == b or b < 1', 'len(xs) > 1', 'True', '0 < a / 3 <= 1',
          '0 < h2(ys) < 9']
L_POOL = [('x', 'xs'), ('x', 'range(2)'), ('x', 'ys[1:]'), ('x', '[a, 1 / 3]'), ('(i, x)', 'enumerate(xs)'),
          ('(x, y)', 'zip(xs, xs[:])')]
I_POOL = ['0', '1', 'len(ys) - 1']
C_POOL = ['fp.REAL', 'C0', 'fp.MPFixedContext(-2, fp.RM.RTZ)', 'fp.MPFloatContext((1 / 3) * 9 - 1, fp.RM.RAZ)',
          'fp.IEEEContext(3, len(ys) + 4, fp.RM.RNE)',
          # keyword-only, mixed and non-call spellings with computed (inexact under a narrow context) arguments
          'fp.MPFloatContext(pmax=(1 / 3) * 9 - 1, rm=fp.RM.RAZ)',
          'fp.IEEEContext(3, nbits=(1 / 3) * 9 + 3, rm=fp.RM.RTZ)',
          'fp.MPFixedContext(nmin=-(1 / 3) * 9 + 1)',
          'fp.MPFloatContext(pmax=len(ys) + 6)',
          '(fp.MPFloatContext(pmax=2) if (1 / 3) * 3 == 1 else fp.REAL)']
ALIAS_POOL = ['ys = xs', 'ys = xs[:]', 'xs = ys', 'ys = [t for t in xs]']
# indexed assignment: plainly, through a row of a list of lists (rows are shared), read-modify-write
IDX_POOL = ['ys[{i}] = {n}', 'zs = [ys, xs]\nzs[0][{i}] = {n}', 'ys[{i}] = ys[{i}] + {n}']
AUG_POOL = ['+=', '-=', '*=', '/=']
TUPLE_POOL = ['a, b = b, {n}', '(a, (b, t)) = ({n}, (a, b))', 'b, a = (a + b, {n})']

HELPERS = '''
C0 = fp.IEEEContext(3, 6, fp.RM.RTZ)

@fp.fpy
def h0(x):
    return x / 3 + 1

@fp.fpy(ctx=fp.MPFloatContext(3, fp.RM.RTP))
def h1(x):
    with fp.MPFixedContext(-3, fp.RM.RAZ):
        if x > 1:
            return x / 3
    return x / 3 + 1

@fp.fpy
def h2(zs):
    zs[0] = zs[0] + 1 / 3
    return zs[0] * 3
'''


def _returns(block) -> bool:
    """does the block definitely return?"""
    if not block:
        return False
    s = block[-1]
    k = s[0]
    if k == 'ret':
        return True
    if k == 'ifelse':
        return _returns(s[1]) and _returns(s[2])
    if k in ('with', 'withas'):
        return _returns(s[1])
    return False


def _blocks(n: int, memo: dict):
    """all blocks (tuples of statements) of exactly n statement nodes; a statement that
    definitely returns may only be the last one of its block"""
    if n in memo:
        return memo[n]
    out = []
    if n == 0:
        out.append(())
    else:
        for k in range(1, n + 1):
            for s in _stmts(k, memo):
                if _returns((s,)):
                    if k == n:
                        out.append((s,))
                    continue
                for rest in _blocks(n - k, memo):
                    out.append((s,) + rest)
    memo[n] = out
    return out


def _stmts(n: int, memo: dict):
    key = ('s', n)
    if key in memo:
        return memo[key]
    out = []
    if n == 1:
        out = [(a,) for a in ATOMS] + [('ret',)]
    else:
        for body in _blocks(n - 1, memo):
            for k in UNARY_COMPOUND:
                out.append((k, body))
        for i in range(1, n - 1):
            for b1 in _blocks(i, memo):
                for b2 in _blocks(n - 1 - i, memo):
                    out.append(('ifelse', b1, b2))
    memo[key] = out
    return out


def skeletons(n: int):
    """all main-function bodies of exactly n statement nodes (deterministic order)"""
    memo: dict = {}
    return _blocks(n, memo)


def n_compound(block) -> int:
    c = 0
    for s in block:
        if s[0] in UNARY_COMPOUND:
            c += 1 + n_compound(s[1])
        elif s[0] == 'ifelse':
            c += 1 + n_compound(s[1]) + n_compound(s[2])
    return c


def shape(block) -> str:
    """compact name of a skeleton (used in signatures)"""
    parts = []
    for s in block:
        if s[0] in UNARY_COMPOUND:
            parts.append(f'{s[0]}[{shape(s[1])}]')
        elif s[0] == 'ifelse':
            parts.append(f'ifelse[{shape(s[1])}|{shape(s[2])}]')
        else:
            parts.append(s[0])
    return ';'.join(parts)


def kinds(block) -> str:
    """the set of statement kinds of a skeleton (used in signatures)"""
    ks = set()

    def walk(b):
        for s in b:
            ks.add(s[0])
            for sub in s[1:]:
                walk(sub)
    walk(block)
    return '+'.join(sorted(ks))


class _Render:
    def __init__(self, pidx: int, rot: int):
        self.p = pidx
        self.rot = rot
        self.cnt = {}
        self.probe = 0
        self.lines = []
        self.wdepth = 0

    def pick(self, kind: str, pool):
        j = self.cnt.get(kind, 0)
        self.cnt[kind] = j + 1
        stride = {'n': 7, 'b': 3, 'l': 5, 'i': 2, 'c': 3, 'alias': 1, 'aug': 3, 'tuple': 2, 'idx': 1}[kind]
        return pool[(self.p * stride + j * (stride + 4) + self.rot * (stride + 1) + j * j) % len(pool)]

    def num(self, in_for: bool):
        pool = N_POOL + NX_POOL if in_for else N_POOL
        return self.pick('n', pool)

    def block(self, block, ind: int, in_for: bool, in_as: bool):
        pad = '    ' * ind
        for s in block:
            k = s[0]
            if k == 'assign':
                self.lines.append(f'{pad}a = {self.num(in_for)}')
            elif k == 'tuple':
                self.lines.append(pad + self.pick('tuple', TUPLE_POOL).format(n=self.num(in_for)))
            elif k == 'aug':
                self.lines.append(f'{pad}a {self.pick("aug", AUG_POOL)} {self.num(in_for)}')
            elif k == 'alias':
                self.lines.append(pad + self.pick('alias', ALIAS_POOL))
            elif k == 'idx':
                form = self.pick('idx', IDX_POOL)
                for line in form.format(i=self.pick('i', I_POOL), n=self.num(in_for)).split('\n'):
                    self.lines.append(pad + line)
            elif k == 'call0':
                self.lines.append(f'{pad}a = h0({self.num(in_for)})')
            elif k == 'call1':
                self.lines.append(f'{pad}b = h1({self.num(in_for)}) + a')
            elif k == 'call2':
                self.lines.append(f'{pad}a = h2(ys)')
            elif k == 'assert':
                self.lines.append(f'{pad}assert {self.pick("b", B_POOL)}')
            elif k == 'effect':
                self.lines.append(f'{pad}h2(xs)')
            elif k == 'ret':
                self.lines.append(f'{pad}return ({self.num(in_for)}, a, xs, ps)')
            else:
                j = self.probe
                self.probe += 1
                if k == 'ifelse':
                    self.lines.append(f'{pad}if {self.pick("b", B_POOL)}:')
                    self.block(s[1], ind + 1, in_for, in_as)
                    self.lines.append(f'{pad}else:')
                    self.block(s[2], ind + 1, in_for, in_as)
                elif k == 'if1':
                    self.lines.append(f'{pad}if {self.pick("b", B_POOL)}:')
                    self.block(s[1], ind + 1, in_for, in_as)
                elif k == 'for':
                    tgt, it = self.pick('l', L_POOL)
                    self.lines.append(f'{pad}for {tgt} in {it}:')
                    self.block(s[1], ind + 1, True, in_as)
                elif k == 'while':
                    kv = f'k{j}'
                    self.lines.append(f'{pad}{kv} = 0')
                    self.lines.append(f'{pad}while {kv} < 2:')
                    self.block(s[1], ind + 1, in_for, in_as)
                    if not _returns(s[1]):
                        self.lines.append(f'{pad}    {kv} = {kv} + 1')
                elif k in ('with', 'withas'):
                    pool = C_POOL + (['c'] if in_as else [])
                    c = self.pick('c', pool)
                    if k == 'with':
                        self.lines.append(f'{pad}with {c}:')
                        self.block(s[1], ind + 1, in_for, in_as)
                    else:
                        self.lines.append(f'{pad}with {c} as c:')
                        self.block(s[1], ind + 1, in_for, True)
                if not _returns((s,)):
                    self.lines.append(f'{pad}ps[{j}] = 1 / 3')


def render(skel, pidx: int, rot: int, name: str = 'f') -> str:
    """source text of the main function for one skeleton"""
    r = _Render(pidx, rot)
    npr = max(1, n_compound(skel))
    r.lines.append('@fp.fpy')
    r.lines.append(f'def {name}(u, v, us):')
    r.lines.append('    ps = [' + ', '.join(['0'] * npr) + ']')
    r.lines.append('    a = u')
    r.lines.append('    b = v')
    r.lines.append('    xs = us')
    r.lines.append('    ys = [v, u, 1]')
    r.block(skel, 1, False, False)
    if not _returns(skel):
        r.lines.append('    return (a, b, xs, ys, us, ps)')
    return '\n'.join(r.lines) + '\n'


# ---------------------------------------------------------------------------
# Call graphs: f -> g -> h, every choice of declared context per function and of a
# `with` block around each call site (callee context selection, list sharing across calls)

DECLARED = [None, 'fp.MPFloatContext(3, fp.RM.RTP)', 'fp.REAL']
AROUND = [None, 'C0', 'fp.MPFixedContext(-3, fp.RM.RAZ)']


def _dec(c):
    return '@fp.fpy' if c is None else f'@fp.fpy(ctx={c})'


def _call_site(pad, w, stmt):
    if w is None:
        return f'{pad}{stmt}\n'
    return f'{pad}with {w}:\n{pad}    {stmt}\n'


def callgraphs():
    """yields (name of the entry function, label, source of the three functions)"""
    k = 0
    for cf, cg, ch in itertools.product(DECLARED, repeat=3):
        for wf, wg in itertools.product(AROUND, repeat=2):
            src = (f'{_dec(ch)}\ndef dh{k}(x, zs):\n    zs[0] = x / 3\n    return x / 3\n\n'
                   f'{_dec(cg)}\ndef dg{k}(x, zs):\n    p = x / 3\n'
                   + _call_site('    ', wg, f'q = dh{k}(x, zs)') +
                   f'    r = x / 3\n    return (p, q, r)\n\n'
                   f'{_dec(cf)}\ndef df{k}(u, v, us):\n    zs = [0, u]\n    p = u / 3\n'
                   + _call_site('    ', wf, f't = dg{k}(u, zs)') +
                   f'    r = u / 3\n    return (p, t, r, zs)\n')
            label = 'f:%s g:%s h:%s wf:%s wg:%s' % tuple('-' if x is None else 'C' for x in (cf, cg, ch, wf, wg))
            yield f'df{k}', label, src
            k += 1


# ---------------------------------------------------------------------------
# Context expressions: every spelling x every kind of narrow ambient context

CTX_EXPRS = [
    'fp.MPFloatContext(9)', 'fp.MPFloatContext(p + 5)', 'fp.MPFloatContext(pmax=p + 5)',
    'fp.MPFloatContext(pmax=p + 5, rm=fp.RM.RTZ)', 'fp.MPFloatContext(p + 5, rm=fp.RM.RTZ)',
    'fp.IEEEContext(es=3, nbits=p + 5)', 'fp.IEEEContext(3, nbits=(1 / 3) * 9 + 6)',
    'fp.MPFixedContext(nmin=-(p + 5))', 'fp.MPFixedContext(-(1 / 3) * 27)',
    '(fp.MPFloatContext(pmax=9) if (1 / 3) * 3 == 1 else fp.MPFloatContext(pmax=2))',
    '(fp.MPFloatContext(9) if p + 5 == 9 else fp.REAL)',
]
NARROW = 'fp.MPFloatContext(3)'


def ctxexprs():
    """yields (entry name, label, source): the context expression evaluated (a) directly under the
    caller's context, (b) inside an enclosing narrow `with`, (c) in a function with a narrow declared
    context, (d) in a callee reached from inside a narrow `with`; p = 4 is computed at run time"""
    k = 0
    for ce in CTX_EXPRS:
        body = (f'    with {ce} as c:\n        y = fp.round(x)\n        z = x / 3\n'
                f'    return (y, z, x / 3)\n')
        for amb in ('caller', 'with', 'declared', 'callee'):
            if amb == 'caller':
                src = f'@fp.fpy\ndef cx{k}(u, v, us):\n    x = 1 + u / 256\n    p = len(us) + 1\n' + body
            elif amb == 'with':
                src = (f'@fp.fpy\ndef cx{k}(u, v, us):\n    x = 1 + u / 256\n    p = len(us) + 1\n'
                       f'    with {NARROW}:\n        with {ce} as c:\n            y = fp.round(x)\n            z = x / 3\n'
                       f'        w = x / 3\n    return (y, z, w, x / 3)\n')
            elif amb == 'declared':
                src = (f'@fp.fpy(ctx={NARROW})\ndef cy{k}(x, p):\n' + body +
                       f'\n@fp.fpy\ndef cx{k}(u, v, us):\n    x = 1 + u / 256\n'
                       f'    return cy{k}(x, len(us) + 1)\n')
            else:
                src = (f'@fp.fpy\ndef cy{k}(x, p):\n' + body +
                       f'\n@fp.fpy\ndef cx{k}(u, v, us):\n    x = 1 + u / 256\n'
                       f'    with {NARROW}:\n        t = cy{k}(x, len(us) + 1)\n    return (t, x / 3)\n')
            form = ('ifexp' if ' if ' in ce else 'literal' if ce == 'fp.MPFloatContext(9)' else
                    'mixed' if '=' in ce and not ce.split('(', 1)[1].lstrip().split(',')[0].count('=') else
                    'keyword' if '=' in ce else 'positional')
            yield f'cx{k}', f'ctxexpr/{amb}/{form}', src
            k += 1


# ---------------------------------------------------------------------------
# Integer-producing forms (enumerate / range / len / size / loop indices): the index is observed
# without an arithmetic node, on lists longer than 2**p, under contexts of precision p = 1, 2

TINY = ['fp.MPFloatContext(1)', 'fp.MPFloatContext(2)', 'fp.IEEEContext(2, 4)', 'fp.MPFloatContext(1, fp.RM.RTZ)']

INT_FORMS = [
    ('enumerate/comp', ['return [i for i, x in enumerate(us)]']),
    ('enumerate/value', ['return enumerate(us)']),
    ('enumerate/index', ['ys = [0 for t in us]', 'for i, x in enumerate(us):', '    ys[i] = x', 'return ys']),
    ('enumerate/read', ['ys = [t for t in us]', 'zs = [0 for t in us]', 'for i, x in enumerate(us):',
                        '    zs[i] = ys[i]', 'return zs']),
    ('enumerate/bind', ['t = 0', 'for i, x in enumerate(us):', '    t = i', 'return t']),
    ('enumerate/zip', ['return [(i, y) for (i, x), y in zip(enumerate(us), us)]']),
    ('range/value', ['return range(len(us))']),
    ('range/index', ['return [us[i] for i in range(len(us))]']),
    ('range/bind', ['t = 0', 'for i in range(len(us)):', '    t = i', 'return t']),
    ('range/2', ['return range(1, len(us))']),
    ('range/3', ['return (range(1, len(us), 2), range(len(us), 0, -1))']),
    ('len/value', ['return len(us)']),
    ('len/list', ['return [len(us), len(us[1:]), len([x for x in us])]']),
    ('len/slice', ['return us[1:len(us)]']),
    ('size/value', ['return fp.size(us, 0)']),
    ('dim/value', ['return fp.dim([[us]])']),
]


def intforms():
    """yields (entry name, label, source, ambient, context text)"""
    k = 0
    for label, body in INT_FORMS:
        plain = ''.join(f'    {l}\n' for l in body)
        yield f'ix{k}', f'{label}/caller', f'@fp.fpy\ndef ix{k}(u, v, us):\n' + plain, 'caller', None
        k += 1
        for c in TINY:
            yield f'ix{k}', f'{label}/declared', f'@fp.fpy(ctx={c})\ndef ix{k}(u, v, us):\n' + plain, 'declared', c
            k += 1
            inner = ''.join(f'        {l}\n' for l in body)
            yield f'ix{k}', f'{label}/with', f'@fp.fpy\ndef ix{k}(u, v, us):\n    with {c}:\n' + inner, 'with', c
            k += 1
