"""
Execution tracer for FPy programs (used by C13, C14).

`TracingCompiler` is a `BytecodeCompiler` subclass (fpy2.interpret.byte) that
compiles a FuncDef exactly as the real compiler does, except that

* every compiled *expression* is wrapped in ``__vf_trace(k, <expr>)`` where
  ``k`` is a stable index into ``TracedCode.exprs`` (the FPy AST nodes, in
  compile-visit order), and
* every *definition site* reports the value it binds:
  ``x = e``            -> ``x = __vf_def(s, e)``            (site kind 'assign')
  ``for t in e``       -> ``for t in __vf_iter(s, e)``      ('for'; one event per iteration)
  ``[.. for t in e]``  -> ``.. for t in __vf_iter(s, e)``   ('comp'; one site per generator)
  ``with e as c``      -> ``c = __ctx__ = __vf_def(s, e)``  ('with')
  ``xs[i] = e``        -> followed by ``__vf_idef(s, xs)``  ('iassign': xs is the same object,
                                                            re-defined in SSA terms)

`TracingInterpreter` is a `BytecodeInterpreter` whose `eval` uses that compiler
and keeps one `Activation` per call (FPy-to-FPy calls made through
``fn.runtime`` nest as children).  Nothing under /repo is changed and the
process-wide default interpreter is left alone: attach the tracer with
``TracingInterpreter.attach(module_or_functions)`` (sets ``Function.runtime``)
or call ``interp.run(f, args)`` directly.

Events (tuples, in execution order) in ``Activation.events``:
    (EXPR, k, value, snap)      value of expression ``code.exprs[k]``
    (DEF,  s, value, snap)      value bound at site ``code.sites[s]`` (whole value; the
                                site's `target` pattern says how it is destructured)
    (CALL, child_activation)    a nested FPy call started here
`value` is the live object (identity is meaningful: `is`); `snap` is a deep
copy of lists/tuples taken at event time (lists are mutable, so a later
``xs[i] = e`` must not rewrite history).  For scalars `snap is value`.

`replay(act)` turns the raw events into analysis-level observations and tracks
which assignment dynamically reaches each variable read.
"""

from __future__ import annotations

import ast as pyast
from fractions import Fraction
from typing import Any, Iterator

from fpy2.ast.fpyast import (
    Argument, Assign, ContextStmt, Expr, ForStmt, FuncDef, IndexedAssign, ListComp, NamedId,
    TupleBinding, Var,
)
from fpy2.function import Function
from fpy2.interpret.byte import BytecodeCompiler, BytecodeInterpreter, make_namespace
from fpy2.interpret.value import from_value, to_value

EXPR, DEF, CALL = 0, 1, 2


class TraceOverflow(RuntimeError):
    """the execution produced more events than `TracingInterpreter.max_events`"""


HOOK_TRACE = '__vf_trace'
HOOK_DEF = '__vf_def'
HOOK_ITER = '__vf_iter'
HOOK_IDEF = '__vf_idef'


def snapshot(v):
    """Deep copy of the container spine (lists/tuples); scalars are immutable
    and shared."""
    if isinstance(v, list):
        return [snapshot(x) for x in v]
    if isinstance(v, tuple):
        return tuple(snapshot(x) for x in v)
    return v


class Site:
    """A definition site of the traced function."""

    __slots__ = ('kind', 'node', 'target', 'gen')

    def __init__(self, kind: str, node, target, gen: int = 0):
        self.kind = kind        # 'assign' | 'for' | 'comp' | 'with' | 'iassign'
        self.node = node        # the DefSite AST node (Assign, ForStmt, ListComp, ContextStmt, IndexedAssign)
        self.target = target    # Id | TupleBinding bound at this site
        self.gen = gen          # generator index for 'comp'

    def __repr__(self):
        return f'<site {self.kind} {type(self.node).__name__} {self.target}>'


def bindings(target, value) -> Iterator[tuple[NamedId, Any]]:
    """(name, sub-value) for every NamedId in the pattern `target` bound to `value`."""
    if isinstance(target, NamedId):
        yield target, value
    elif isinstance(target, TupleBinding):
        for t, v in zip(target.elts, value):
            yield from bindings(t, v)
    # UnderscoreId / anything else binds nothing


class TracedCode:
    """Result of compiling one FuncDef with tracing."""

    def __init__(self, func: FuncDef, pyfn, exprs: list[Expr], sites: list[Site]):
        self.func = func
        self.pyfn = pyfn
        self.exprs = exprs
        self.sites = sites
        self.expr_index = {e: i for i, e in enumerate(exprs)}


class TracingCompiler(BytecodeCompiler):
    """BytecodeCompiler that reports every expression value and every definition."""

    def __init__(self, func: FuncDef, env):
        super().__init__(func, env)
        self.exprs: list[Expr] = []
        self.sites: list[Site] = []

    # ---- helpers ------------------------------------------------------
    @staticmethod
    def _hook_call(name: str, *args: pyast.expr) -> pyast.Call:
        return pyast.Call(func=pyast.Name(id=name, ctx=pyast.Load()), args=list(args), keywords=[])

    def _new_site(self, kind: str, node, target, gen: int = 0) -> pyast.Constant:
        self.sites.append(Site(kind, node, target, gen))
        return pyast.Constant(value=len(self.sites) - 1)

    # ---- expressions --------------------------------------------------
    def _visit_expr(self, e: Expr, ctx: None):
        node = super()._visit_expr(e, ctx)
        k = len(self.exprs)
        self.exprs.append(e)
        return self._hook_call(HOOK_TRACE, pyast.Constant(value=k), node)

    def _visit_list_comp(self, e: ListComp, ctx: None):
        node = super()._visit_list_comp(e, ctx)
        for gi, (gen, target) in enumerate(zip(node.generators, e.targets)):
            gen.iter = self._hook_call(HOOK_ITER, self._new_site('comp', e, target, gi), gen.iter)
        return node

    # ---- statements ---------------------------------------------------
    def _visit_assign(self, stmt: Assign, ctx: None):
        node = super()._visit_assign(stmt, ctx)
        node.value = self._hook_call(HOOK_DEF, self._new_site('assign', stmt, stmt.target), node.value)
        return node

    def _visit_indexed_assign(self, stmt: IndexedAssign, ctx: None):
        node = super()._visit_indexed_assign(stmt, ctx)
        after = pyast.Expr(value=self._hook_call(
            HOOK_IDEF, self._new_site('iassign', stmt, stmt.var),
            pyast.Name(id=str(stmt.var), ctx=pyast.Load())))
        return [node, after]

    def _visit_for(self, stmt: ForStmt, ctx: None):
        node = super()._visit_for(stmt, ctx)
        node.iter = self._hook_call(HOOK_ITER, self._new_site('for', stmt, stmt.target), node.iter)
        return node

    def _visit_context(self, stmt: ContextStmt, ctx: None):
        node = super()._visit_context(stmt, ctx)
        # try-body is [stash, real, set, *body]; `set` is `<target> = __ctx__ = <ctx expr>`
        set_stmt = node.body[2]
        assert isinstance(set_stmt, pyast.Assign) and len(set_stmt.targets) == 2
        set_stmt.value = self._hook_call(HOOK_DEF, self._new_site('with', stmt, stmt.target), set_stmt.value)
        return node

    def _visit_block(self, block, ctx: None):
        out: list[pyast.stmt] = []
        for stmt in block.stmts:
            r = self._visit_statement(stmt, ctx)
            if isinstance(r, list):
                out.extend(r)
            else:
                out.append(r)
        return out

    # ---- entry point (mirrors BytecodeCompiler.compile) ---------------
    def compile_traced(self, hooks: dict[str, object]) -> TracedCode:
        fn_ast = self._visit_function(self.func, None)
        mod = pyast.Module(body=[fn_ast], type_ignores=[])
        pyast.fix_missing_locations(mod)
        code = compile(mod, filename=self._location_to_name(self.func.loc), mode='exec')
        namespace = make_namespace()
        for var in self.func.free_vars:
            name = str(var)
            namespace[name] = to_value(self.env[name])
        namespace.update(self.foreign_vals)
        namespace.update(hooks)
        exec(code, namespace)  # noqa: S102 -- same as the real compiler
        return TracedCode(self.func, namespace[self.func.name], self.exprs, self.sites)

    def compile(self):
        raise RuntimeError('use compile_traced(hooks)')


class Activation:
    """One call of one FPy function."""

    __slots__ = ('func', 'code', 'args', 'arg_snaps', 'ctx', 'events', 'parent', 'returned', 'result',
                 'result_snap', 'error')

    def __init__(self, func: Function, code: TracedCode, args: tuple, ctx, parent: 'Activation | None'):
        self.func = func
        self.code = code
        self.args = args
        self.arg_snaps = tuple(snapshot(a) for a in args)
        self.ctx = ctx
        self.events: list[tuple] = []
        self.parent = parent
        self.returned = False
        self.result = None
        self.result_snap = None
        self.error: BaseException | None = None

    def children(self) -> list['Activation']:
        return [ev[1] for ev in self.events if ev[0] == CALL]

    def all_returned(self) -> bool:
        """this call and every nested call produced a result"""
        return self.returned and all(c.all_returned() for c in self.children())


class TracingInterpreter(BytecodeInterpreter):
    """BytecodeInterpreter whose `eval` records an `Activation` per call."""

    def __init__(self, ctx=None, max_events: int = 20000, max_len: int = 512):
        super().__init__(ctx=ctx)
        self.codes: dict[FuncDef, TracedCode] = {}
        self._stack: list[Activation] = []
        self._cur: list | None = None
        self._last: Activation | None = None
        self.roots: list[Activation] = []
        self.keep_roots = False
        self.max_events = max_events
        self.max_len = max_len
        self._budget = max_events

        def snap(v):
            # bound memory: a runaway program (a list whose length squares per
            # iteration, a loop that never ends) is cut off, not recorded
            self._budget -= 1
            if self._budget < 0:
                raise TraceOverflow(f'more than {self.max_events} events')
            if isinstance(v, (list, tuple)):
                if len(v) > self.max_len:
                    raise TraceOverflow(f'container of length {len(v)}')
                return snapshot(v)
            return v

        def h_trace(k, v):
            self._cur.append((EXPR, k, v, snap(v)))
            return v

        def h_def(s, v):
            self._cur.append((DEF, s, v, snap(v)))
            return v

        def h_iter(s, iterable):
            for v in iterable:
                self._cur.append((DEF, s, v, snap(v)))
                yield v

        def h_idef(s, v):
            self._cur.append((DEF, s, v, snap(v)))

        self._hooks = {HOOK_TRACE: h_trace, HOOK_DEF: h_def, HOOK_ITER: h_iter, HOOK_IDEF: h_idef}

    # ---- set-up -------------------------------------------------------
    def attach(self, *things) -> None:
        """Route FPy-to-FPy calls of these Functions (or of every Function in
        these modules) through this interpreter."""
        for t in things:
            if isinstance(t, Function):
                t.runtime = self
            else:
                for v in vars(t).values():
                    if isinstance(v, Function):
                        v.runtime = self

    def reset(self) -> None:
        self.codes.clear()
        self.func_cache.clear()
        self.roots.clear()
        self._stack.clear()
        self._cur = None

    def code_for(self, func: Function) -> TracedCode:
        code = self.codes.get(func.ast)
        if code is None:
            code = TracingCompiler(func.ast, func.env).compile_traced(self._hooks)
            self.codes[func.ast] = code
        return code

    # ---- evaluation ---------------------------------------------------
    def eval(self, func: Function, args, ctx=None, *, convert: bool = True):
        if not isinstance(func, Function):
            raise TypeError(f'Expected Function, got `{func}`')
        code = self.code_for(func)
        ctx = self._func_ctx(func.ast, ctx)
        if convert:
            args = tuple(to_value(arg) for arg in args)
        parent = self._stack[-1] if self._stack else None
        act = Activation(func, code, tuple(args), ctx, parent)
        if parent is not None:
            parent.events.append((CALL, act))
        elif self.keep_roots:
            self.roots.append(act)
        self._stack.append(act)
        self._cur = act.events
        self._last = act
        try:
            res = code.pyfn(*args, __ctx__=ctx)
            act.result = res
            act.result_snap = snapshot(res)
            act.returned = True
        except BaseException as e:
            act.error = e
            raise
        finally:
            self._stack.pop()
            self._cur = self._stack[-1].events if self._stack else None
        return from_value(res) if convert else res

    def run(self, func: Function, args, ctx=None) -> Activation:
        """Call `func` from 'Python' and return its Activation; an exception
        raised by the program is kept in `.error` (returned is False)."""
        assert not self._stack
        self._last = None
        self._budget = self.max_events
        try:
            self.eval(func, args, ctx)
        except Exception:  # noqa: BLE001 -- the program raising is an observation
            if self._last is None:
                raise        # failed before an activation existed (compile error)
        act = self._root_of_last()
        return act

    def _root_of_last(self) -> Activation:
        act = self._last
        while act.parent is not None:
            act = act.parent
        return act


# ----------------------------------------------------------------------
# Replay: raw events -> observations with the dynamically reaching definition

class Obs:
    """One observation produced by `replay`.

    kind 'expr': `node` is the Expr, `value`/`snap` its value.  For a `Var`
        node, `dyn` is the (name, DefSite) of the assignment that produced the
        value read (DefSite is the AST node: Argument, Assign, ForStmt,
        ListComp, ContextStmt, IndexedAssign, or the FuncDef for a free
        variable).
    kind 'def': `name` was bound to `value` at DefSite `node`.
    kind 'iuse': an IndexedAssign statement `node` read variable `name`
        (`value` = the list), `dyn` as for a Var.
    kind 'call': `value` is the child Activation.
    """

    __slots__ = ('kind', 'node', 'name', 'value', 'snap', 'dyn')

    def __init__(self, kind, node, name, value, snap, dyn):
        self.kind = kind
        self.node = node
        self.name = name
        self.value = value
        self.snap = snap
        self.dyn = dyn


def replay(act: Activation) -> Iterator[Obs]:
    code = act.code
    func = code.func
    # scope stack: [(owner ListComp | None, {name: site_node})]
    scopes: list[tuple[Any, dict[NamedId, Any]]] = [(None, {})]
    for arg, v, s in zip(func.args, act.args, act.arg_snaps):
        if isinstance(arg.name, NamedId):
            scopes[0][1][arg.name] = arg
            yield Obs('def', arg, arg.name, v, s, None)

    def lookup(name: NamedId):
        for _, env in reversed(scopes):
            if name in env:
                return (name, env[name])
        return (name, func)     # never assigned in this activation: a free variable

    for ev in act.events:
        tag = ev[0]
        if tag == EXPR:
            _, k, v, s = ev
            node = code.exprs[k]
            if isinstance(node, ListComp):
                # the comprehension finished: its variables go out of scope
                while scopes[-1][0] is not None and scopes[-1][0] is node:
                    scopes.pop()
                yield Obs('expr', node, None, v, s, None)
            elif isinstance(node, Var):
                yield Obs('expr', node, node.name, v, s, lookup(node.name))
            else:
                yield Obs('expr', node, None, v, s, None)
        elif tag == DEF:
            _, si, v, s = ev
            site = code.sites[si]
            if site.kind == 'comp':
                if scopes[-1][0] is not site.node:
                    scopes.append((site.node, {}))
                env = scopes[-1][1]
            else:
                # statements bind in the function scope (a comprehension
                # contains no statements)
                env = scopes[0][1]
            if site.kind == 'iassign':
                yield Obs('iuse', site.node, site.target, v, s, lookup(site.target))
            for (name, sub), (_, subsnap) in zip(bindings(site.target, v), bindings(site.target, s)):
                env[name] = site.node
                yield Obs('def', site.node, name, sub, subsnap, None)
        else:
            yield Obs('call', None, None, ev[1], None, None)


# ----------------------------------------------------------------------
# small value helpers shared by the checks

def is_real_value(v) -> bool:
    from fpy2.number import Float
    return isinstance(v, (Float, Fraction)) and not isinstance(v, bool)
