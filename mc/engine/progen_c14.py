"""
Bounded-exhaustive program enumerator for C14 (format inference).

Every family is a finite grammar enumerated completely (deterministic order).
Programs are module texts: a prelude that fetches the pre-built contexts of the
pool from mc.engine.ctxreg, optional helpers, and one entry function `f`.

  A  arithmetic chains   1..3 statements `with K: t = E`, E over + - * neg abs round cast
                         and literals, K in {caller ctx, REAL, CA, CX, INTEGER}; the REAL
                         chains are the ones whose carries need one more bit
  B  branches            comparison refinements (every orientation, negation, and/or, nested,
                         one-armed, if-expression) and logb refinements of an argument or a
                         local; arms read the tested variable through exact and rounded ops
  L  loops               statically known lengths (range(k), list literal) -> unrolling; symbolic
                         lengths (list argument, while) -> fixpoint + widening; analysed with
                         loop_iter_limit in {1, 2, 10}; L3: a value that GROWS per iteration stored
                         through one alias of a list (same depth `ys = xs`, row `row = xss[i]`, tuple
                         field) and read through the other alias inside and after the loop
  H  helper calls        callees with one/two returns, own pinned context, tuple results, a loop;
                         nested calls; the callee activations are judged against by_call
  M  miscellany          literal sets and joins, min/max, sum, inf/nan constants, lists, element
                         stores through an alias, comprehensions, captured constants

`cells(prog, tier)` lists the (caller context, argument formats) instantiations of a
program; the check runs ALL members of the argument formats for each.
"""

from __future__ import annotations

import itertools
from typing import Iterator

CTX_NAMES = ('CA', 'CB', 'CX', 'CU', 'CZ', 'CM')

PRELUDE = '''from mc.engine import ctxreg
CA = ctxreg.REG['c14-CA']
CB = ctxreg.REG['c14-CB']
CX = ctxreg.REG['c14-CX']
CU = ctxreg.REG['c14-CU']
CZ = ctxreg.REG['c14-CZ']
CM = ctxreg.REG['c14-CM']
KONST = 1.5

'''

ARG_TYPES = {'x': 'fp.Real', 'y': 'fp.Real', 'n': 'fp.Real', 'xs': 'list[fp.Real]', 'c': 'bool'}
ARG_ORDER = ('x', 'y', 'n', 'xs', 'c')


class Prog:
    __slots__ = ('fam', 'src', 'args', 'tag', 'fixpoint')

    def __init__(self, fam, src, args, tag, fixpoint=False):
        self.fam = fam
        self.src = src
        self.args = args
        self.tag = tag
        self.fixpoint = fixpoint        # has a loop without a static trip count: loop_iter_limit matters


def indent(lines):
    return ['    ' + ln for ln in lines]


def wrap(lines, k):
    """put statements under `with K:` (k None = the caller's context)"""
    return lines if k is None else [f'with {k}:'] + indent(lines)


def make(fam, body, args, tag, helpers='', fixpoint=False) -> Prog:
    args = tuple(a for a in ARG_ORDER if a in args)
    sig = ', '.join(f'{a}: {ARG_TYPES[a]}' for a in args)
    src = PRELUDE + helpers + f'@fp.fpy\ndef f({sig}):\n' + '\n'.join(indent(body)) + '\n'
    return Prog(fam, src, args, tag, fixpoint)


# ----------------------------------------------------------------------
# A: arithmetic chains

A_K = [None, 'fp.REAL', 'CA', 'CX', 'fp.INTEGER', 'CM']
A_E1 = ['x + y', 'x * y', 'x - y', '-x', 'x * x', 'x + 1', 'x + x', 'x - x', 'x - 1', '1 - x', 'abs(x)',
        'round(x)', 'x * 0.5', 'cast(x)', 'x + 0.25', 'x * 3']
A_E1_CORE = A_E1[:6]
A_E2 = ['t + t', 't + x', 't * t', 't * x', 't - x', 'x - t', '-t', 'abs(t)', 'round(t)', 't + 1', 't + y', 't * y',
        't - t', 't - 1', 'cast(t)', 't * 0.5']
A_E2_CORE = A_E2[:10]
A_E3 = ['s + t', 's * t', 's - t', 's + s', 's * s', '-s', 'abs(s)', 'round(s)', 's + x', 's * x', 's + 1', 't - s']
A_K2_QUICK = [('fp.REAL', 'fp.REAL'), ('fp.REAL', None), (None, 'fp.REAL'), ('fp.REAL', 'CX')]
A_K2 = A_K2_QUICK + [('fp.REAL', 'CA'), ('CA', 'fp.REAL'), (None, None), ('CX', 'fp.REAL'), ('fp.INTEGER', 'fp.REAL'),
                     ('fp.REAL', 'fp.INTEGER'), ('CM', 'fp.REAL'), ('fp.REAL', 'CM'), ('CA', 'CX'), ('CX', 'CA'), (None, 'CA'),
                     ('fp.INTEGER', None)]


def _uses(e):
    return {a for a in ('x', 'y') if a in e.replace('abs', '').replace('cast', '')}


def family_A(tier: str) -> Iterator[Prog]:
    quick = tier == 'quick'
    for e1 in A_E1:
        for k1 in A_K:
            yield make('A', wrap([f't = {e1}'], k1) + ['return t'], _uses(e1), 'A1')
    if quick:
        combos = [(e1, k1, e2, k2) for e1 in A_E1_CORE for e2 in A_E2_CORE for k1, k2 in A_K2_QUICK]
    else:
        combos = [(e1, k1, e2, k2) for e1 in A_E1[:12] for e2 in A_E2[:12] for k1, k2 in A_K2]
    for e1, k1, e2, k2 in combos:
        if k1 == k2:
            body = wrap([f't = {e1}', f's = {e2}'], k1)
        else:
            body = wrap([f't = {e1}'], k1) + wrap([f's = {e2}'], k2)
        yield make('A', body + ['return (t, s)'], _uses(e1) | _uses(e2), 'A2')
    # three statements: exact chains (the carry needs one more bit each time), then one rounding
    e1s = A_E1_CORE if quick else A_E1[:8]
    e2s = A_E2_CORE[:5] if quick else A_E2[:8]
    e3s = A_E3[:4] if quick else A_E3[:8]
    lastk = ['fp.REAL'] if quick else ['fp.REAL', None, 'CA']
    for e1 in e1s:
        for e2 in e2s:
            for e3 in e3s:
                for k3 in lastk:
                    if k3 == 'fp.REAL':
                        body = wrap([f't = {e1}', f's = {e2}', f'r = {e3}'], 'fp.REAL')
                    else:
                        body = wrap([f't = {e1}', f's = {e2}'], 'fp.REAL') + wrap([f'r = {e3}'], k3)
                    yield make('A', body + ['return (t, s, r)'], _uses(e1) | _uses(e2) | _uses(e3), 'A3')


# ----------------------------------------------------------------------
# B: branch refinements

B_SUBJECTS = [('x', []), ('a', ['with fp.REAL:', '    a = x + y']), ('a', ['a = x * y']), ('a', ['a = x'])]
B_CONDS = ['{v} < 1', '{v} <= 1', '{v} > -1', '{v} >= -1', '1 > {v}', '-1 <= {v}', '{v} < 0', '{v} >= 0', '{v} > 1',
           '{v} < -1', '{v} == 1', '{v} != 0', 'not ({v} < 1)', 'not ({v} >= 2)', '{v} < 2 and {v} > -2',
           '{v} < 1 or {v} > 2', 'not ({v} < -1 or {v} > 1)', '-2 < {v} < 2', '{v} < y', '{v} <= 0.5', '{v} < 1.5',
           '{v} > -0.0', '{v} <= 0', '{v} < 3 and not ({v} < -3)']
B_CONDS_CORE = B_CONDS[:8] + B_CONDS[12:17]
B_ARMS = ['{v}', '-{v}', 'abs({v})', '{v} + 1', '{v} * {v}', '{v} - y', 'round({v})', '{v} + {v}', '{v} * 2']
B_ARMS_CORE = B_ARMS[:6]
B_WRAPS = [None, 'fp.REAL', 'CA']
B_LOGB_CONDS = ['e >= {c}', 'e > {c}', '{c} <= e', 'not (e < {c})', 'e >= {c} and {v} < 2', 'e < {c}']
B_LOGB_ARMS = ['{v}', '{v} * {v}', '{v} + {v}', '{v} * 0.5']


def family_B(tier: str) -> Iterator[Prog]:
    quick = tier == 'quick'
    subjects = B_SUBJECTS[:2] if quick else B_SUBJECTS
    conds = B_CONDS_CORE if quick else B_CONDS
    arms = B_ARMS_CORE if quick else B_ARMS
    wraps = B_WRAPS[:2] if quick else B_WRAPS
    wraps1 = wraps if quick else B_WRAPS[1:]
    # (1) two-armed if, same arm expression on both sides (so only the refinement differs)
    for v, pre in subjects:
        for c in (conds[:6] + conds[8:12] if quick else conds):
            for arm in arms:
                for w in wraps1:
                    e = arm.format(v=v)
                    lad = [f'if {c.format(v=v)}:', f'    r = {e}', 'else:', f'    r = {e}']
                    yield make('B', pre + wrap(lad, w) + [f'return (r, {v})'], {'x', 'y'} if (v == 'a' or 'y' in e + c) else {'x'},
                               'B-if2')
    # (2) one-armed, nested, if-expression, re-definition inside the arm
    for v, pre in subjects[:2]:
        for c in conds:
            cc = c.format(v=v)
            for arm in (arms[:4] if quick else arms[:6]):
                e = arm.format(v=v)
                args = {'x', 'y'}
                for w in (wraps[1:] if quick else wraps[:2]):
                    one = ['r = y', f'if {cc}:', f'    r = {e}']
                    yield make('B', pre + wrap(one, w) + [f'return (r, {v})'], args, 'B-if1')
                    ife = [f'r = ({e} if {cc} else {e})']
                    yield make('B', pre + wrap(ife, w) + [f'return (r, {v})'], args, 'B-ifexpr')
                if v == 'a':
                    redef = [f'if {cc}:', '    a = y', f'    r = {e}', 'else:', f'    r = {e}', f't = {e}']
                    yield make('B', pre + redef + ['return (r, t, a)'], args, 'B-redef')
            for c2 in (conds[:3] if quick else conds[:6]):
                if c2 == c or (quick and c not in conds[:6]):
                    continue
                cc2 = c2.format(v=v)
                for arm in arms[:3]:
                    e = arm.format(v=v)
                    nest = [f'if {cc}:', f'    if {cc2}:', f'        r = {e}', '    else:', f'        r = {e}', 'else:',
                            f'    r = {e}']
                    yield make('B', pre + wrap(nest, 'fp.REAL' if arm != '{v}' else None) + [f'return (r, {v})'],
                               {'x', 'y'}, 'B-nested')
    # (3) logb refinements: e = logb(v); a lower bound on e pins the finest digit of v
    for v, pre in ([('x', []), ('a', ['a = x'])] if quick else B_SUBJECTS):
        for lc in B_LOGB_CONDS:
            for c in ((-1, 1) if quick else (-1, 0, 1)):
                for arm in (B_LOGB_ARMS[:2] if quick else B_LOGB_ARMS):
                    for w in (None, 'fp.REAL'):
                        e = arm.format(v=v)
                        cond = lc.format(c=c, v=v)
                        body = pre + [f'e = logb({v})'] + wrap([f'if {cond}:', f'    r = {e}', 'else:', f'    r = {e}'], w)
                        yield make('B', body + [f'return (r, e, {v})'], {'x', 'y'} if pre and 'y' in ''.join(pre) else {'x'},
                                   'B-logb')
    # (4) min / max clamps (selection orders its operands)
    for sel in ('min({v}, 1)', 'max({v}, -1)', 'min(max({v}, -1), 1)', 'max({v}, y)', 'min({v}, y, 1)', 'max({v}, 0)',
                'min({v}, 0)', 'min({v}, -0.0)'):
        for v, pre in subjects[:2]:
            for w in wraps:
                for post in (('r * r', '-r') if quick else ('r', 'r * r', 'r + 1', '-r')):
                    body = pre + wrap([f'r = {sel.format(v=v)}', f'q = {post}'], w)
                    yield make('B', body + ['return (r, q)'], {'x', 'y'}, 'B-select')


# ----------------------------------------------------------------------
# L: loops

L_PRE = ['a = 0', 'a = x', 'a = 1']
L_BODIES = [['a = a + e'], ['a = a * 2'], ['a = a + 1'], ['a = -a'], ['a = a * a'], ['a = a - x'],
            ['if a < 2:', '    a = a + 1'], ['a = a + a'], ['b = a', 'a = x'], ['a = abs(a) + x'], ['a = a * 0.5'],
            ['a = e'], ['if a < 1:', '    a = a + e', 'else:', '    a = -a'], ['a = round(a) + 0.25']]
L_WRAPS = [None, 'fp.REAL', 'CA']


def _loop_headers(quick):
    """(header lines, loop element expression or None, extra args, fixpoint?)"""
    hs = [(['for e in range(3):'], 'e', set(), False),
          (['for e in [x, y, 1]:'], 'e', {'y'}, False),
          (['for e in xs:'], 'e', {'xs'}, True),
          (['k = 0', 'while k < n:'], None, {'n'}, True)]
    if not quick:
        hs += [(['for e in range(1):'], 'e', set(), False),
               (['for e in range(0):'], 'e', set(), False),
               (['for e in range(1, 4):'], 'e', set(), False),
               (['for e in [x, x]:'], 'e', set(), False),
               (['for e in [v + 1 for v in xs]:'], 'e', {'xs'}, True),
               (['for i, e in enumerate(xs):'], 'e', {'xs'}, True)]
    return hs


def family_L(tier: str) -> Iterator[Prog]:
    quick = tier == 'quick'
    pres = L_PRE[:2] if quick else L_PRE
    bodies = L_BODIES[:9] if quick else L_BODIES
    wraps = L_WRAPS[:2] if quick else L_WRAPS
    for pre in pres:
        for hdr, elt, extra, fix in _loop_headers(quick):
            for body in bodies:
                if elt is None and any(' e' in ln or '= e' in ln for ln in body):
                    body = [ln.replace(' e', ' x') for ln in body]
                for w in wraps:
                    inner = list(body)
                    if hdr[-1] == 'while k < n:':
                        inner = inner + ['with fp.INTEGER:', '    k = k + 1']
                    uses_b = any(ln.strip().startswith('b =') for ln in body)
                    lines = [pre] + (['b = 0'] if uses_b else [])
                    lines += wrap(hdr[:-1] + [hdr[-1]] + indent(inner), w)
                    lines += ['r = round(a)']
                    ret = 'return (a, r, b)' if uses_b else 'return (a, r)'
                    args = {'x'} | extra
                    yield make('L', lines + [ret], args, 'L1', fixpoint=fix)
    # two loop-carried variables; a loop inside a branch; a branch around a loop; nested loops
    extra = [
        (['a = x', 'b = 1', 'for e in xs:', '    t = a', '    a = b', '    b = t + e'], 'return (a, b)', {'x', 'xs'}, True),
        (['a = x', 'b = 1', 'for e in range(3):', '    t = a', '    a = b', '    b = t + e'], 'return (a, b)', {'x'}, False),
        (['a = 0', 'with fp.REAL:', '    for e in xs:', '        a = a + e * e'], 'return a', {'xs'}, True),
        (['a = 0', 'with fp.REAL:', '    for e in [x, y, x]:', '        a = a + e * e'], 'return a', {'x', 'y'}, False),
        (['a = x', 'if x < 1:', '    for e in xs:', '        a = a + e'], 'return a', {'x', 'xs'}, True),
        (['a = 0', 'for e in xs:', '    if e < 1:', '        a = a + e', '    else:', '        a = a - 1'], 'return a',
         {'xs'}, True),
        (['a = 0', 'with fp.REAL:', '    for e in xs:', '        for g in range(2):', '            a = a + e'], 'return a',
         {'xs'}, True),
        (['a = 0', 'with fp.REAL:', '    for g in range(2):', '        for e in xs:', '            a = a + e'], 'return a',
         {'xs'}, True),
        (['a = x', 'k = 0', 'with fp.REAL:', '    while k < n:', '        a = a + a', '        k = k + 1'], 'return (a, k)',
         {'x', 'n'}, True),
        (['a = x', 'k = 0', 'while k < n:', '    with fp.REAL:', '        a = a * a', '        k = k + 1'], 'return (a, k)',
         {'x', 'n'}, True),
        (['a = 1', 'with fp.REAL:', '    for e in xs:', '        a = a * e'], 'return a', {'xs'}, True),
        (['a = 0', 'm = x', 'for e in xs:', '    m = max(m, e)', '    a = min(a, e)'], 'return (a, m)', {'x', 'xs'}, True),
        (['a = 0', 'for e in xs:', '    a = e'], 'return a', {'xs'}, True),
        (['a = -0.0', 'with fp.REAL:', '    for e in xs:', '        a = a + e'], 'return a', {'xs'}, True),
        (['a = 0', 'with fp.REAL:', '    for e in xs:', '        a = a - e', 'r = a * a'], 'return (a, r)', {'xs'}, True),
        (['s = sum(xs)', 'with fp.REAL:', '    t = sum(xs)', '    u = sum([x, y, x])'], 'return (s, t, u)', {'x', 'y', 'xs'},
         False),
        (['ys = [e + 1 for e in xs]', 'with fp.REAL:', '    zs = [e * e for e in xs]', '    ws = [p + q for p, q in zip(xs, zs)]'],
         'return (ys, zs, ws)', {'xs'}, False),
        (['a = 0', 'with fp.REAL:', '    for i, e in enumerate(xs):', '        a = a + i * e'], 'return a', {'xs'}, True),
    ]
    for lines, ret, args, fix in extra:
        yield make('L', lines + [ret], args, 'L2', fixpoint=fix)
    yield from _alias_store_loops(quick)


# a list is one object: a store through one name inside a loop must widen every alias, and must keep
# widening it when the stored value's format grows from one body visit to the next
L3_ALIAS = [  # (set-up lines, name stored through with index text, read through the other alias)
    (['xs = [x, 2]', 'ys = xs'], 'ys[0]', 'xs[0]'),
    (['xs = [x, 2]', 'ys = xs'], 'xs[1]', 'ys[1]'),
    (['xss = [[x, 1], [2, 3]]', 'row = xss[0]'], 'row[0]', 'xss[0][0]'),
    (['xss = [[x, 1], [2, 3]]', 'row = xss[1]'], 'xss[1][1]', 'row[1]'),
    (['xs = [x, 2]', 'ys = xs', 'zs = ys'], 'zs[0]', 'xs[0]'),
    (['xs = [x, 2]', 't0 = (xs, xs)', 'ys = fst(t0)'], 'ys[0]', 'xs[0]'),
]
L3_GROW = [  # (initial value, growth statement of the stored scalar t, under REAL?)
    ('1', 't = t + 1', True), ('x', 't = t + t', True), ('x', 't = t * t', True), ('1', 't = t * 2', True),
    ('x', 't = t - 1', True), ('x', 't = t + 0.25', False),
]


def _alias_store_loops(quick: bool):
    hdrs = [(['for e in range(3):'], set(), False), (['for e in xs0:'], {'xs'}, True), (['k = 0', 'while k < n:'], {'n'}, True)]
    if not quick:
        hdrs += [(['for e in [x, x]:'], set(), False), (['for e in range(1):'], set(), False)]
    aliases = L3_ALIAS[:4] if quick else L3_ALIAS
    grows = L3_GROW[:3] if quick else L3_GROW
    for setup, store, read in aliases:
        for init, grow, real in grows:
            for hdr, extra, fix in hdrs:
                for order in ('store-first', 'grow-first'):
                    if quick and order == 'grow-first' and grow != 't = t + 1':
                        continue
                    g = wrap([grow], 'fp.REAL' if real else None)
                    body = ([f'{store} = t'] + g) if order == 'store-first' else (g + [f'{store} = t'])
                    body = body + [f'm = {read}']
                    if hdr[-1] == 'while k < n:':
                        body = body + ['with fp.INTEGER:', '    k = k + 1']
                    lines = [ln.replace('xs0', 'xs') for ln in hdr]
                    pre = list(setup)
                    if 'xs' in extra:
                        # the symbolic-length iterable is the argument; the aliased list gets other names
                        pre = [ln.replace('xss', 'wss').replace('xs', 'ws') for ln in pre]
                        body = [ln.replace('xss', 'wss').replace('xs', 'ws') for ln in body]
                        rd = read.replace('xss', 'wss').replace('xs', 'ws')
                    else:
                        rd = read
                    prog = pre + [f't = {init}', f'm = {rd}'] + lines[:-1] + [lines[-1]] + indent(body) + [f'r = {rd}']
                    kind = 'L3-row' if 'row' in store + read else 'L3-tuple' if 'fst' in ''.join(setup) else 'L3-alias'
                    yield make('L', prog + ['return (r, m, t)'], {'x'} | extra, kind, fixpoint=fix)


# ----------------------------------------------------------------------
# H: helper calls

HELPERS = '''@fp.fpy
def h_add(a: fp.Real, b: fp.Real):
    return a + b

@fp.fpy
def h_radd(a: fp.Real, b: fp.Real):
    with fp.REAL:
        r = a + b
    return r

@fp.fpy
def h_rmul(a: fp.Real, b: fp.Real):
    with fp.REAL:
        r = a * b
    return r

@fp.fpy
def h_neg(a: fp.Real, b: fp.Real):
    with fp.REAL:
        r = -a
    return r

@fp.fpy(ctx=CA)
def h_pin(a: fp.Real, b: fp.Real):
    return a * b

@fp.fpy
def h_br(a: fp.Real, b: fp.Real):
    if a < 1:
        return a
    return b

@fp.fpy
def h_rd(a: fp.Real, b: fp.Real):
    return round(a) - b

@fp.fpy
def h_two(a: fp.Real, b: fp.Real):
    with fp.REAL:
        s = a + b
        d = a - b
    return (s, d)

@fp.fpy
def h_sum(zs: list[fp.Real]):
    s = 0
    with fp.REAL:
        for z in zs:
            s = s + z
    return s

@fp.fpy
def h_sq(a: fp.Real):
    with fp.REAL:
        r = a * a
    return h_radd(r, a)

'''
H_FUNCS = ['h_add', 'h_radd', 'h_rmul', 'h_neg', 'h_pin', 'h_br', 'h_rd']
H_WRAPS = [None, 'fp.REAL', 'CA', 'CX']


def family_H(tier: str) -> Iterator[Prog]:
    quick = tier == 'quick'
    wraps = H_WRAPS[:3] if quick else H_WRAPS
    shapes = ['{h}(x, y)', '{h}(x, 1)', '{h}({h}(x, y), x)', '{h}(x, y) + x', '{h}(x, x)', '{h}(x + y, y)', '{h}(-0.0, x)']
    if quick:
        shapes = shapes[:4]
    for h in H_FUNCS:
        for sh in shapes:
            for w in wraps:
                body = wrap([f't = {sh.format(h=h)}'], w)
                yield make('H', body + ['return t'], {'x', 'y'}, 'H1', helpers=HELPERS)
    pairs = list(itertools.product(H_FUNCS, H_FUNCS))
    if quick:
        pairs = [p for i, p in enumerate(pairs) if i % 3 == 0]
    for h, g in pairs:
        for w in (wraps[:2] if quick else wraps):
            body = wrap([f't = {h}(x, y)', f'r = {g}(t, y)'], w)
            yield make('H', body + ['return (t, r)'], {'x', 'y'}, 'H2', helpers=HELPERS)
    for w in wraps:
        yield make('H', wrap(['p, q = h_two(x, y)', 'r = p * q'], w) + ['return (p, q, r)'], {'x', 'y'}, 'H3', helpers=HELPERS)
        yield make('H', wrap(['t = h_sum(xs)', 'r = t + x'], w) + ['return (t, r)'], {'x', 'xs'}, 'H3', helpers=HELPERS,
                   fixpoint=True)
        yield make('H', wrap(['t = h_sum([x, y, 1])', 'r = t + x'], w) + ['return (t, r)'], {'x', 'y'}, 'H3', helpers=HELPERS)
        yield make('H', wrap(['t = h_sq(x)', 'r = h_sq(t)'], w) + ['return (t, r)'], {'x'}, 'H3', helpers=HELPERS)
        yield make('H', wrap(['a = x', 'for e in range(2):', '    a = h_radd(a, y)'], w) + ['return a'], {'x', 'y'}, 'H3',
                   helpers=HELPERS)
        yield make('H', wrap(['a = x', 'for e in xs:', '    a = h_radd(a, e)'], w) + ['return a'], {'x', 'xs'}, 'H3',
                   helpers=HELPERS, fixpoint=True)
        yield make('H', wrap(['if x < 1:', '    t = h_radd(x, y)', 'else:', '    t = h_rmul(x, y)'], w) + ['return t'],
                   {'x', 'y'}, 'H3', helpers=HELPERS)


# ----------------------------------------------------------------------
# M: miscellany

def family_M(tier: str) -> Iterator[Prog]:
    wraps = [None, 'fp.REAL', 'CA', 'CX']
    set_wraps = wraps[:2] if tier == 'quick' else wraps
    sets = [['a = 1', 'if x > 0:', '    a = 2'], ['a = 0.5', 'if x > 0:', '    a = -0.0'], ['a = 0', 'if x > 0:', '    a = x'],
            ['a = 3', 'if x > 0:', '    a = 0.75', 'elif x < 0:', '    a = -4'], ['a = -0.0'], ['a = 0'], ['a = 1 / 3'],
            ['a = fp.inf()'], ['a = fp.nan()'], ['a = -fp.inf()'], ['a = KONST']]
    uses = ['a + 0.5', 'a * x', '-a', 'a - a', 'a * a', 'abs(a)', 'round(a)', 'a + x', 'x * 0', '0 * a', 'a + a + a',
            'a * 0.5', 'x - a', '0 - a', 'a + -0.0']
    for pre in sets:
        for u in (uses[:10] if tier == 'quick' else uses):
            for w in set_wraps:
                yield make('M', wrap(pre + [f'r = {u}'], w) + ['return (a, r)'], {'x'}, 'M-set')
    lists = [
        (['ys = [x, y]', 'ys[0] = 1.5', 'r = ys[1]', 's = ys[0]'], 'return (ys, r, s)', {'x', 'y'}),
        (['ys = [x, y]', 'zs = ys', 'zs[0] = 5', 'r = ys[0]'], 'return (ys, zs, r)', {'x', 'y'}),
        (['ys = [x, 1]', 'zs = ys', 'zs[1] = y', 'r = ys[1] + ys[0]'], 'return (ys, r)', {'x', 'y'}),
        (['ys = [1, 2, 3]', 'r = ys[0] + x', 's = sum(ys)'], 'return (r, s)', {'x'}),
        (['ys = [e + 1 for e in xs]', 'zs = [p * q for p, q in zip(xs, ys)]'], 'return (ys, zs)', {'xs'}),
        (['ys = [i + e for i, e in enumerate(xs)]', 'n2 = len(xs)', 'r = n2 + x'], 'return (ys, n2, r)', {'x', 'xs'}),
        (['ys = xs[1:]', 'r = len(ys)', 'zs = [x] + ys' if False else 'zs = [x, x]'], 'return (ys, r, zs)', {'x', 'xs'}),
        (['r = min(xs) if len(xs) > 0 else x', 's = max([x, y, 1])'], 'return (r, s)', {'x', 'y', 'xs'}),
        (['ys = [x, y]', 'for i in range(2):', '    ys[i] = ys[i] + 1', 'r = ys[0]'], 'return (ys, r)', {'x', 'y'}),
        (['ys = [0, 0]', 'for i, e in enumerate(xs):', '    ys[0] = e', 'r = ys[0] + ys[1]'], 'return (ys, r)', {'xs'}),
        (['t = (x, y)', 'p, q = t', 'r = p + q', 'u = (r, t)'], 'return u', {'x', 'y'}),
        (['t = (x, 1) if x < y else (y, 2)', 'p, q = t', 'r = p * q'], 'return (t, r)', {'x', 'y'}),
        (['r = x if x < 1 else 1', 's = (x if y > 0 else -x) + 1'], 'return (r, s)', {'x', 'y'}),
        (['e = logb(x)', 'p = 2 ** e', 'q = e + 1'], 'return (e, p, q)', {'x'}),
        (['p = 2 ** n', 'q = p * x'], 'return (p, q)', {'x', 'n'}),
        (['e = logb(x)', 'with fp.INTEGER:', '    k = e + 1', 'r = x * 2 ** k'], 'return (e, k, r)', {'x'}),
        (['r = x / y', 's = sqrt(abs(x))', 't = fma(x, y, 1)'], 'return (r, s, t)', {'x', 'y'}),
        (['ys = [x for i in range(3)]', 'r = sum(ys)'], 'return (ys, r)', {'x'}),
    ]
    for lines, ret, args in lists:
        for w in wraps:
            fix = 'xs' in args and any(ln.startswith('for') for ln in lines)
            yield make('M', wrap(lines, w) + [ret], args, 'M-list', fixpoint=fix)
    # selections whose operands are pinned to DIFFERENT formats (see SELECT_CELLS): an operand that is the
    # infinity a selection never returns must not cap the result by its own (narrower) finite range
    sels = ['min(x, y)', 'max(x, y)', 'min(y, x)', 'max(y, x)', 'min(x, y, x)', 'max(x, y, y)', 'min(x, y, 1)', 'max(x, -1, y)',
            'min(max(x, y), y)', 'max(min(x, y), x)', 'min([x, y])', 'max([x, y, x])', 'min(-x, y)', 'max(abs(x), y)']
    posts = ['r', 'r + r', '-r'] if tier != 'quick' else ['r + r']
    for sel in sels:
        for w in ('fp.REAL', None):
            for post in posts:
                yield make('M', wrap([f'r = {sel}', f'q = {post}'], w) + ['return (r, q)'], {'x', 'y'}, 'M-select')


# ----------------------------------------------------------------------
# R: early scalar return, then a statement that constrains len(xs)

R_PRE = [('sum', ['s = sum(xs)'], False),
         ('acc', ['s = 0', 'for e in xs:', '    s = s + e'], True),
         ('cnt', ['s = 0', 'for i in range(len(xs)):', '    s = s + 1'], True)]
R_WRAPS = ['fp.REAL', None, 'fp.INTEGER']
R_KS = (1, 2)
# (ctx, element format of xs); `c` is a bool and has no format
R_CELLS_QUICK = [('REAL', 'fx'), ('CB', 'fx'), ('REAL', 'fu'), ('REAL', 'int')]
R_CELLS_MORE = [('CA', 'fa'), ('REAL', 'fa'), ('CX', 'fx'), ('CM', 'fu'), ('INT', 'fx')]


def family_R(tier: str) -> Iterator[Prog]:
    """`if c: return <scalar over xs>` ; top-level `assert len(xs) == K` | strict zip of xs with a K-literal ; return.
    The length constraint only holds on executions that did NOT return early, so the scalar computed over xs must be
    bounded for every length on the early-return path."""
    for name, pre, fix in R_PRE:
        for w in R_WRAPS:
            body = wrap(pre, w)
            for K in R_KS:
                lit = '[' + ', '.join('0' for _ in range(K)) + ']'
                pins = [('assert', [f'assert len(xs) == {K}']),
                        ('zip', [f'zs = [p + q for p, q in zip(xs, {lit})]'])]
                for pname, pin in pins:
                    tag = f'R-{name}-{pname}'
                    # the scalar is computed first, returned early as is / inside a tuple
                    for ret in ('s', '(s, 0)'):
                        last = 's' if ret == 's' else '(s, 1)'
                        yield make('R', body + ['if c:', f'    return {ret}'] + pin + [f'return {last}'], {'xs', 'c'}, tag,
                                   fixpoint=fix)
                    # the scalar is computed inside the early-return arm only
                    yield make('R', ['if c:'] + indent(body + ['return s']) + pin + ['return xs[0]'], {'xs', 'c'}, tag,
                               fixpoint=fix)


FAMILIES = {'A': family_A, 'B': family_B, 'L': family_L, 'H': family_H, 'M': family_M, 'R': family_R}


# ----------------------------------------------------------------------
# instantiations

# (caller context, format of every scalar argument, element format of xs)
CELLS_QUICK = [('CB', 'fx', 'fx'), ('CA', 'fa', 'fa'), ('CB', 'fa', 'fa'), ('REAL', 'fx', 'fx'), ('CX', 'fx', 'fa'),
               ('CA', 'int', 'int'), ('CB', 'real', 'fa')]
CELLS_MORE = [('REAL', 'fx', 'int'), ('CX', 'fa', 'fx'), ('CB', 'fz', 'fz'), ('REAL', 'fa', 'fx')]
CELLS_MIXED = [('CM', 'fa', 'fx', 'fa'), ('REAL', 'fa', 'fx', 'fx'), ('CM', 'fc', 'fa', 'fa'), ('CB', 'fa', 'fx', 'fa'), ('REAL', 'fx', 'int', 'fx'),
               ('CA', 'fx', 'fa', 'fa'), ('CX', 'int', 'fa', 'int'), ('CB', 'real', 'fx', 'fx'), ('REAL', 'fz', 'fa', 'fz')]
CELL_ONE_ARG = ('CM', 'fc', 'fa')
# (caller ctx, format of x, format of y): two IEEE formats of different exponent range, both with infinities
# (fa = IEEE(2,4) max 3, fb = IEEE(3,5) max 12, fc = IEEE(3,6) max 14), and a fixed format; the scopes REAL and
# CB (= fc's own context) are wide enough that nothing re-rounds the selection into the narrower format
SELECT_CELLS = [('REAL', 'fa', 'fc'), ('CB', 'fc', 'fa'), ('REAL', 'fb', 'fa'), ('CB', 'fa', 'fb'), ('CB', 'fa', 'fx'),
                ('REAL', 'fx', 'fc')]
CELLS_THOROUGH_EXTRA = [('CU', 'fu', 'fu'), ('INT', 'fa', 'fa'), ('CZ', 'fz', 'fz'), ('CM', 'fa', 'fa'),
                        ('CB', 'fu', 'fu'), ('REAL', 'fu', 'fu'), ('INT', 'fx', 'fx'), ('CZ', 'fa', 'fa'),
                        ('REAL', 'real', 'fa'), ('REAL', 'int', 'int'), ('CX', 'real', 'fx'), ('CM', 'fx', 'fx')]


def cells(prog: Prog, tier: str):
    """[(ctx name, {arg: format name})]"""
    out = []
    if prog.tag == 'M-select':
        return [(c, {'x': fx_, 'y': fy_}) for c, fx_, fy_ in SELECT_CELLS]
    if prog.fam == 'R':
        rc = R_CELLS_QUICK + (R_CELLS_MORE if tier != 'quick' else [])
        return [(c, {'xs': fl, 'c': 'bool'}) for c, fl in rc]
    base = list(CELLS_QUICK)
    lean = tier == 'quick' and (prog.fam == 'B' or prog.tag == 'M-set')
    if lean:
        # refinement / literal-set programs: the context and format variety matters less than the program variety
        base = [CELLS_QUICK[i] for i in (0, 1, 2, 5, 6)]
    if tier != 'quick':
        base += CELLS_MORE
        if prog.fam in ('L', 'H', 'M') or prog.tag == 'A1':
            base += CELLS_THOROUGH_EXTRA
    for c, fs, fl in base:
        out.append((c, {a: ('int' if a == 'n' else fl if a == 'xs' else fs) for a in prog.args}))
    if 'y' not in prog.args and 'xs' not in prog.args:
        c, fs, fl = CELL_ONE_ARG
        out.append((c, {a: ('int' if a == 'n' else fs) for a in prog.args}))
    if 'x' in prog.args and 'y' in prog.args:
        mixed = CELLS_MIXED if (tier != 'quick' and prog.fam in ('L', 'H', 'M')) else CELLS_MIXED[1:2] if lean else CELLS_MIXED[:2]
        for c, fx_, fy_, fl in mixed:
            out.append((c, {a: ('int' if a == 'n' else fl if a == 'xs' else fx_ if a == 'x' else fy_) for a in prog.args}))
    return out


def space(tier: str):
    return [(k, (lambda k=k: FAMILIES[k](tier))) for k in ('A', 'B', 'L', 'H', 'M', 'R')]


if __name__ == '__main__':
    import sys
    for tier in sys.argv[1:] or ['quick', 'thorough']:
        for lab, fac in space(tier):
            n = 0
            tags = {}
            for p in fac():
                n += 1
                tags[p.tag] = tags.get(p.tag, 0) + 1
            print(tier, lab, n, tags)
