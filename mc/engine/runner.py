"""
Property-agnostic runner: shards a finite space over a process pool, merges
coverage counters, turns violations into replay artefacts, matches them against
known_findings.json, re-executes each new violation in a fresh process and
writes evidence/<id>.json.

A check module (mc/checks/cXX.py) exposes a class `Check(BaseCheck)`.
"""

from __future__ import annotations

import hashlib
import json
import multiprocessing as mp
import os
import subprocess
import sys
import time
import traceback
from collections import Counter
from typing import Any, Iterable

ROOT = os.path.dirname(os.path.dirname(os.path.dirname(os.path.abspath(__file__))))
EVIDENCE_DIR = os.path.join(ROOT, 'evidence')
REPLAY_DIR = os.path.join(ROOT, 'replays')
FINDINGS = os.path.join(ROOT, 'known_findings.json')

MAX_VIOLATIONS_PER_SIGNATURE = 3      # replay files kept per signature
MAX_SIGNATURES = 40                   # distinct new signatures written out


class Violation:
    """One failing case.  `signature` identifies the *class* of the failure
    (operation, family, arm, program shape) and is what known_findings.json
    matches on; `case` is whatever `Check.replay` needs to re-run exactly this
    case; `detail` is free text (model vs implementation)."""

    __slots__ = ('signature', 'case', 'detail')

    def __init__(self, signature: dict, case: dict, detail: str):
        self.signature = {k: str(v) for k, v in signature.items()}
        self.case = case
        self.detail = detail

    def to_json(self):
        return {'signature': self.signature, 'case': self.case, 'detail': self.detail}


class ShardResult:
    """What a worker returns for one shard (must be picklable)."""

    def __init__(self):
        self.counts: Counter = Counter()       # any integer counters; summed
        self.outcomes: Counter = Counter()     # distinct observed outcome classes
        self.violations: list[Violation] = []
        self.samples: list[Any] = []
        self.notes: list[str] = []             # caps hit, inconclusive cases, …
        self.error: str | None = None

    def count(self, key: str, n: int = 1):
        self.counts[key] += n

    def violate(self, signature: dict, case: dict, detail: str):
        self.counts['violations_raw'] += 1
        # keep memory bounded: at most a few per signature per shard
        k = json.dumps({k: str(v) for k, v in signature.items()}, sort_keys=True)
        seen = sum(1 for v in self.violations if json.dumps(v.signature, sort_keys=True) == k)
        if seen < MAX_VIOLATIONS_PER_SIGNATURE:
            self.violations.append(Violation(signature, case, detail))

    def sample(self, s: Any, limit: int = 3):
        if len(self.samples) < limit:
            self.samples.append(s)


class BaseCheck:
    pid = 'C00'
    level = 'model_checking'
    rule = ''               # how cases are enumerated; what makes one nontrivial
    assumptions: list[str] = []
    trusted_base: list[str] = []

    def __init__(self, tier: str, seed: int):
        self.tier = tier
        self.seed = seed

    # ---- to implement -------------------------------------------------
    def shards(self) -> list[Any]:
        """Partition of the declared space into picklable shard descriptors."""
        raise NotImplementedError

    def run_shard(self, shard: Any) -> ShardResult:
        raise NotImplementedError

    def replay(self, case: dict) -> tuple[bool, str]:
        """Re-run exactly one case.  Returns (violates, explanation)."""
        raise NotImplementedError

    def bounds(self) -> dict:
        return {}

    def selfcheck(self) -> None:
        """Optional vacuity canary; raise to abort the run as broken."""

    def finalize(self, total: 'Merged') -> None:
        """Optional cross-shard checks (may add violations / notes)."""


class Merged:
    def __init__(self):
        self.counts: Counter = Counter()
        self.outcomes: Counter = Counter()
        self.violations: list[Violation] = []
        self.samples: list[Any] = []
        self.notes: list[str] = []
        self.errors: list[str] = []

    def add(self, r: ShardResult):
        self.counts.update(r.counts)
        self.outcomes.update(r.outcomes)
        self.violations.extend(r.violations)
        if len(self.samples) < 6:
            self.samples.extend(r.samples[: 6 - len(self.samples)])
        for n in r.notes:
            if len(self.notes) < 50 and n not in self.notes:
                self.notes.append(n)
        if r.error:
            self.errors.append(r.error)


_CHECK: BaseCheck | None = None


def _init_worker(modname: str, tier: str, seed: int):
    global _CHECK
    if _CHECK is not None and type(_CHECK).__module__ == modname and (_CHECK.tier, _CHECK.seed) == (tier, seed):
        return      # inherited from the parent by fork (workers recycled per task must start cheaply)
    import importlib
    mod = importlib.import_module(modname)
    _CHECK = mod.Check(tier, seed)


def _run(shard):
    assert _CHECK is not None
    try:
        return _CHECK.run_shard(shard)
    except BaseException:  # a crashing harness is a broken check, not a verdict
        r = ShardResult()
        r.error = f'shard {shard!r}: ' + traceback.format_exc()
        return r
    finally:
        try:
            from .loader import drop_interpreter_cache
            drop_interpreter_cache()
        except Exception:   # noqa: BLE001
            pass


def load_findings(pid: str) -> list[dict]:
    if not os.path.exists(FINDINGS):
        return []
    with open(FINDINGS) as f:
        data = json.load(f)
    return [x for x in data.get('findings', []) if x.get('property') == pid]


def match_known(sig: dict, findings: Iterable[dict]) -> dict | None:
    for f in findings:
        if f.get('status') != 'known':
            continue
        fs = f.get('signature', {})
        if fs and all(sig.get(k) == str(v) for k, v in fs.items()):
            return f
    return None


def write_replay(pid: str, tier: str, seed: int, v: Violation) -> str:
    d = os.path.join(REPLAY_DIR, pid)
    os.makedirs(d, exist_ok=True)
    body = {'property': pid, 'signature': v.signature, 'case': v.case,
            'detail': v.detail, 'tier': tier, 'seed': seed,
            'pythonhashseed': os.environ.get('PYTHONHASHSEED', '')}
    key = json.dumps({'s': v.signature, 'c': v.case}, sort_keys=True, default=str)
    sha = hashlib.sha1(key.encode()).hexdigest()[:12]
    path = os.path.join(d, sha + '.json')
    with open(path, 'w') as f:
        json.dump(body, f, indent=1, default=str)
    return path


def confirm_in_fresh_process(pid: str, path: str) -> bool:
    """§6.1.6: a violation is reported only if it reproduces in a new process."""
    env = dict(os.environ)
    p = subprocess.run([sys.executable, '-m', 'mc.run', pid, '--replay', path],
                       cwd=ROOT, env=env, capture_output=True, text=True, timeout=600)
    return p.returncode == 1


def main_run(modname: str, pid: str, tier: str, seed: int, jobs: int) -> int:
    import importlib
    t0 = time.time()
    mod = importlib.import_module(modname)
    check: BaseCheck = mod.Check(tier, seed)
    try:
        check.selfcheck()
    except Exception as e:
        print(f'BROKEN-CHECK property={pid} selfcheck failed: {e!r}')
        traceback.print_exc()
        return 2
    shards = check.shards()
    total = Merged()
    if jobs <= 1 or len(shards) <= 1:
        _init_worker(modname, tier, seed)
        for s in shards:
            total.add(_run(s))
    else:
        ctx = mp.get_context('fork')
        recycle = getattr(check, 'max_tasks_per_worker', None)
        if recycle:
            # gmpy2 leaks one contextvars.Token per context entry (every fpy2 real-arithmetic call), so a
            # worker that evaluates ~10^7 operations holds GBs: such checks ask for fresh workers per shard
            global _CHECK
            _CHECK = check
        pool = ctx.Pool(min(jobs, len(shards)), initializer=_init_worker, initargs=(modname, tier, seed),
                        maxtasksperchild=recycle)
        try:
            workers = list(pool._pool)      # (with recycling, replaced workers exit with code 0)
            it = pool.imap_unordered(_run, shards, chunksize=1)
            done = 0
            while done < len(shards):
                try:
                    r = it.next(timeout=5.0)
                except mp.TimeoutError:
                    # a worker killed from outside (e.g. by the OOM killer) loses its shard and
                    # multiprocessing.Pool would wait for it for ever: that is a broken check
                    for w in list(pool._pool):
                        if w not in workers:
                            workers.append(w)
                    dead = [w for w in workers if w.exitcode not in (None, 0)]
                    if dead:
                        total.errors.append(f'{len(dead)} pool worker(s) died (exit codes '
                                            f'{sorted({w.exitcode for w in dead})}); their shards are lost')
                        break
                    continue
                total.add(r)
                done += 1
            if not total.errors:
                pool.close()        # let workers exit normally so that their scratch directories are removed
                pool.join()
        finally:
            pool.terminate()
    check.finalize(total)

    if total.errors:
        for e in total.errors[:5]:
            print(f'BROKEN-CHECK property={pid} harness error:\n{e}')
        return 2

    findings = load_findings(pid)
    known_seen: dict[str, int] = Counter()
    new_by_sig: dict[str, list[Violation]] = {}
    for v in total.violations:
        k = match_known(v.signature, findings)
        if k is not None:
            known_seen[k['what']] += 1
        else:
            key = json.dumps(v.signature, sort_keys=True)
            new_by_sig.setdefault(key, []).append(v)

    for what, n in sorted(known_seen.items()):
        print(f'KNOWN-FINDING: property={pid} {what} (seen {n}x this run)')

    nviol = 0
    nonrepro = 0
    replay_paths = []
    for key in sorted(new_by_sig)[:MAX_SIGNATURES]:
        vs = new_by_sig[key]
        vs.sort(key=lambda v: len(json.dumps(v.case, default=str)))
        for v in vs[:1]:
            path = write_replay(pid, tier, seed, v)
            if confirm_in_fresh_process(pid, path):
                nviol += 1
                replay_paths.append(path)
                print(f'VIOLATION property={pid} replay={path}')
                print(f'  signature={v.signature}')
                print('  ' + v.detail.replace('\n', '\n  ')[:1500])
            else:
                nonrepro += 1
                print(f'NONREPRODUCIBLE property={pid} case={path} (not counted)')
    if len(new_by_sig) > MAX_SIGNATURES:
        print(f'... {len(new_by_sig) - MAX_SIGNATURES} further violation signatures not written out')

    wall = time.time() - t0
    c = total.counts
    evaluations = int(c.get('evaluations', 0))
    coverage = {
        'states': int(c.get('states', evaluations)),
        'transitions': int(c.get('transitions', evaluations)),
        'traces_validated_against_impl': int(c.get('validated', evaluations)),
        'evaluations': evaluations,
        'distinct_nontrivial': int(c.get('nontrivial', 0)),
        'rule': check.rule,
        'samples': total.samples or ['(no sample recorded)'],
        'exhaustive': not any(n.startswith('CAP') for n in total.notes),
        'bounds': check.bounds(),
        'shards': len(shards),
        'distinct_outcomes': len(total.outcomes),
        'outcomes': {str(k): int(v) for k, v in total.outcomes.most_common(40)},
        'counters': {k: int(v) for k, v in sorted(c.items())},
        'notes': total.notes,
        'known_findings_seen': dict(known_seen),
        'nonreproducible': nonrepro,
        'new_violation_signatures': len(new_by_sig),
        'replays': replay_paths,
        'trusted_base': check.trusted_base,
    }
    ev = {
        'property_id': pid, 'tier': tier, 'seed': seed, 'level': check.level,
        'coverage': coverage, 'assumptions': check.assumptions,
        'wall_s': round(wall, 2), 'violations': nviol,
    }
    os.makedirs(EVIDENCE_DIR, exist_ok=True)
    with open(os.path.join(EVIDENCE_DIR, pid + '.json'), 'w') as f:
        json.dump(ev, f, indent=1, default=str)
    print(f'{pid} tier={tier} seed={seed} states={coverage["states"]} '
          f'transitions={coverage["transitions"]} nontrivial={coverage["distinct_nontrivial"]} '
          f'outcomes={coverage["distinct_outcomes"]} exhaustive={coverage["exhaustive"]} '
          f'violations={nviol} known={sum(known_seen.values())} wall={wall:.1f}s')
    return 1 if nviol else 0


def main_replay(modname: str, pid: str, path: str) -> int:
    import importlib
    with open(path) as f:
        body = json.load(f)
    mod = importlib.import_module(modname)
    check: BaseCheck = mod.Check(body.get('tier', 'quick'), int(body.get('seed', 0)))
    bad, text = check.replay(body['case'])
    print(text)
    if bad:
        print(f'VIOLATION property={pid} replay={path}')
        return 1
    print(f'replay of {path}: property holds on this case')
    return 0
