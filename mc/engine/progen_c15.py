"""
Bounded-exhaustive program enumerator for C15 (scoping / fall-through).

A program is a block; a block is a tuple of statements; a statement is a tuple
`(op,)` (simple), `(op, body)` (one-body compound) or `('ife', then, else)`.
Size = number of statements, compound headers included.  The `k = k + 1` that
makes every `while` terminate is part of the `while` construct (first statement
of its body) and is not counted.

Alphabet (DESIGN §5 C15, plus `k = 0` to initialise the counter and `return u`
so that programs can end without reading a local):

    a = u | b = a | a, b = (u, v) | b = [x for x in us] | k = 0 | pass
    return a|b|x|i|c|k|u
    if u > 0: S | if u > 0: S else: S | for x in us: S
    for i, x in enumerate(us): S | while k < n: k = k + 1; S
    with fp.IEEEContext(5, 16) as c: S

One pruning, for termination only: `k = 0` never occurs (at any depth) inside a
`while` body, so `k` strictly increases in every `while` and accepted programs
terminate on every input.

All blocks of a given size form a lazily indexable sequence (concatenations and
products over materialised lists of the smaller sizes), so a shard is an
arithmetic progression of indices and enumeration order is fixed.
"""

from __future__ import annotations

import bisect

SIMPLE = ('a=u', 'b=a', 'ab=uv', 'b=comp', 'k=0', 'pass',
          'ret_a', 'ret_b', 'ret_x', 'ret_i', 'ret_c', 'ret_k', 'ret_u')
ONEBODY = ('if1', 'for', 'fore', 'while', 'with')
COMPOUND = ONEBODY + ('ife',)

TEXT = {
    'a=u': 'a = u', 'b=a': 'b = a', 'ab=uv': 'a, b = (u, v)', 'b=comp': 'b = [x for x in us]',
    'k=0': 'k = 0', 'pass': 'pass',
    'if1': 'if u > 0:', 'ife': 'if u > 0:', 'for': 'for x in us:', 'fore': 'for i, x in enumerate(us):',
    'while': 'while k < n:', 'with': 'with fp.IEEEContext(5, 16) as c:',
}
PARAMS = ('u', 'v', 'us', 'n')
HEADER = 'def {name}(u, v, us, n):'


# ---- lazily indexable finite sequences ----------------------------------

class Cat:
    def __init__(self, parts):
        self.parts = [p for p in parts if len(p)]
        self.offs = []
        n = 0
        for p in self.parts:
            self.offs.append(n)
            n += len(p)
        self.n = n

    def __len__(self):
        return self.n

    def __getitem__(self, i):
        if not 0 <= i < self.n:
            raise IndexError(i)
        j = bisect.bisect_right(self.offs, i) - 1
        return self.parts[j][i - self.offs[j]]


class Prod:
    """f(a, b) for a in A for b in B (B fastest)."""

    def __init__(self, f, A, B):
        self.f, self.A, self.B = f, A, B
        self.nb = len(B)
        self.n = len(A) * self.nb

    def __len__(self):
        return self.n

    def __getitem__(self, i):
        if not 0 <= i < self.n:
            raise IndexError(i)
        q, r = divmod(i, self.nb)
        return self.f(self.A[q], self.B[r])


def _wrap(op):
    return lambda _, body: (op, body)


def _ife(b1, b2):
    return ('ife', b1, b2)


def _cons(head, tail):
    return (head,) + tail


class Space:
    """B(n, nok0) = all blocks of size n; S(n, nok0) = all statements of size n."""

    def __init__(self, materialise_upto: int = 4):
        self.mat = materialise_upto
        self._S = {}
        self._B = {}

    def S(self, n: int, nok0: bool = False):
        key = (n, nok0)
        if key in self._S:
            return self._S[key]
        if n == 1:
            seq = [(op,) for op in SIMPLE if not (nok0 and op == 'k=0')]
        else:
            parts = []
            for op in ONEBODY:
                parts.append(Prod(_wrap(op), [None], self.B(n - 1, nok0 or op == 'while')))
            for j in range(1, n - 1):
                parts.append(Prod(_ife, self.B(j, nok0), self.B(n - 1 - j, nok0)))
            seq = Cat(parts)
            if n <= self.mat:
                seq = [seq[i] for i in range(len(seq))]
        self._S[key] = seq
        return seq

    def B(self, n: int, nok0: bool = False):
        key = (n, nok0)
        if key in self._B:
            return self._B[key]
        if n == 0:
            seq = [()]
        else:
            seq = Cat([Prod(_cons, self.S(s, nok0), self.B(n - s, nok0)) for s in range(1, n + 1)])
            if n <= self.mat:
                seq = [seq[i] for i in range(len(seq))]
        self._B[key] = seq
        return seq

    def programs(self, n):
        if n == 'E':
            return E_PROGRAMS
        if n == 'I':
            return I_PROGRAMS
        return self.B(n, False)


# ---- rendering ----------------------------------------------------------

def rx(e) -> str:
    """Expression text."""
    if e[0] == 'n':
        return e[1]
    if e[0] == 'op':
        return e[1].format(*[rx(sub) for sub in e[2:]])
    return '[' + rx(e[1]) + ''.join(f' for {text} in {rx(it)}' for _, text, it in e[2]) + ']'


def subblocks(st):
    op = st[0]
    if op in ('let', 'rete', 'iset'):
        return ()
    if op in XCOMPOUND:
        return st[2:]
    return st[1:]


def render_block(block, indent: int, out: list):
    pad = ' ' * indent
    for st in block:
        op = st[0]
        if op == 'let':          # st[1]: a name, or a tuple of names (tuple pattern)
            out.append(f"{pad}{st[1] if isinstance(st[1], str) else ', '.join(st[1])} = {rx(st[2])}")
        elif op == 'rete':
            out.append(f'{pad}return {rx(st[1])}')
        elif op == 'iset':       # indexed assignment: the base name st[1] is a use, nothing is bound
            out.append(f'{pad}{st[1]}[{rx(st[2])}] = {rx(st[3])}')
        elif op in ('if1x', 'ifex'):
            out.append(f'{pad}if {rx(st[1])}:')
            render_block(st[2], indent + 4, out)
            if op == 'ifex':
                out.append(pad + 'else:')
                render_block(st[3], indent + 4, out)
        elif op == 'forx':
            out.append(f'{pad}for z in {rx(st[1])}:')
            render_block(st[2], indent + 4, out)
        elif op == 'whilex':
            out.append(f'{pad}while {rx(st[1])}:')
            out.append(pad + '    k = k + 1')
            render_block(st[2], indent + 4, out)
        elif op.startswith('ret_'):
            out.append(f'{pad}return {op[4:]}')
        elif op in SIMPLE:
            out.append(pad + TEXT[op])
        elif op == 'ife':
            out.append(pad + TEXT[op])
            render_block(st[1], indent + 4, out)
            out.append(pad + 'else:')
            render_block(st[2], indent + 4, out)
        else:
            out.append(pad + TEXT[op])
            if op == 'while':
                out.append(pad + '    k = k + 1')
            render_block(st[1], indent + 4, out)


def render(prog, name: str = 'f', indent: int = 0) -> str:
    """Source of one decorated function (no prelude)."""
    pad = ' ' * indent
    out = [pad + '@fp.fpy', pad + HEADER.format(name=name)]
    render_block(prog, indent + 4, out)
    return '\n'.join(out) + '\n'


def size(block) -> int:
    n = 0
    for st in block:
        n += 1
        for sub in subblocks(st):
            n += size(sub)
    return n


def to_json(x):
    """Programs are nested tuples of strings; JSON form = the same nesting as lists."""
    return [to_json(y) for y in x] if isinstance(x, tuple) else x


def from_json(x):
    return tuple(from_json(y) for y in x) if isinstance(x, list) else x


def constructs(block, acc=None) -> set:
    acc = set() if acc is None else acc
    for st in block:
        if st[0] in COMPOUND or st[0] in XCOMPOUND:
            acc.add(st[0])
        for sub in subblocks(st):
            constructs(sub, acc)
    return acc


# ---- family E: comprehensions as sub-expressions --------------------------
#
# Expressions: ('n', name) | ('op', format, e...) (operands evaluated left to right) |
# ('comp', elt, ((target names, target text, iterable), ...)).
# Statements: ('let', name, e) | ('rete', e) | ('iset', base name, index e, value e) (`base[index] = value`) | ('if1x', cond, body) | ('ifex', cond, then, else) |
# ('forx', iterable, body) (target z) | ('whilex', cond, body) (with the built-in k = k + 1).
# E = prefix x comprehension x shape x probe name: the probe R is read outside the comprehension --
# a later/earlier operand or argument of the same expression, the arms of an `if` whose condition
# holds the comprehension, after that `if`, in/after a loop whose header holds it, after the
# assignment, and as the element of an enclosing comprehension.

def N(v):
    return ('n', v)


def OP(fmt, *es):
    return ('op', fmt) + es


def COMP(elt, *gens):
    return ('comp', elt, gens)


def ADD(a, b):
    return OP('{} + {}', a, b)


_X = (('x',), 'x', N('us'))
_ENUM = (('i', 'x'), 'i, x', OP('enumerate({})', N('us')))
_INNER = COMP(N('x'), _X)

E_COMPS = (
    COMP(N('x'), _X),                                                   # [x for x in us]
    COMP(N('x'), _ENUM),                                                # tuple target
    COMP(ADD(N('x'), N('y')), _X, (('y',), 'y', N('us'))),              # two generators
    COMP(N('y'), _X, (('y',), 'y', OP('[{}]', N('x')))),                # later iterable reads an earlier target
    COMP(ADD(N('x'), N('y')), _X, (('y',), 'y', N('y'))),               # later iterable reads its own target
    COMP(ADD(N('x'), N('us')), _X, (('us',), 'us', N('us'))),           # ... which shadows an argument
    COMP(ADD(N('x'), N('i')), _X, (('i', 'us'), 'i, us', OP('enumerate({})', N('us')))),   # ... in a tuple target
    COMP(ADD(N('x'), N('u')), _X, (('u',), 'u', N('us'))),              # later target shadows an argument
    COMP(N('x'), _X, _X),                                               # same target twice
    COMP(ADD(N('x'), N('y')), (('y',), 'y', _INNER)),                   # outer element reads the inner variable
    COMP(N('y'), (('y',), 'y', _INNER)),                                # nested, well-scoped
    COMP(N('u'), (('u',), 'u', N('us'))),                               # target shadows an argument
    COMP(N('us'), (('us',), 'us', N('us'))),                            # target shadows its own iterable
    COMP(ADD(N('x'), N('y')), (('x', 'y'), 'x, y', OP('[({}, {})]', N('u'), N('v')))),     # tuple target over a literal
)
E_PROBES = ('x', 'y', 'i', 'u')
E_PREFIXES = ((), (('let', 'x', N('u')),), (('let', 'y', N('u')),), (('let', 'i', N('u')),))
XCOMPOUND = ('if1x', 'ifex', 'forx', 'whilex')


def _shapes(C, R):
    SUM, LEN = OP('sum({})', C), OP('len({}) > 0', C)
    KLT = OP('{} < len({})', N('k'), C)
    bu, bR, au = ('let', 'b', N('u')), ('let', 'b', R), ('a=u',)
    return (
        (('let', 'b', ADD(SUM, R)), ('ret_b',)),
        (('let', 'b', ADD(R, SUM)), ('ret_b',)),
        (('rete', OP('max({}, {})', SUM, R)),),
        (('ifex', LEN, (bR,), (bu,)), ('ret_b',)),
        (('ifex', LEN, (bu,), (bR,)), ('ret_b',)),
        (('ifex', LEN, (au,), (au,)), ('rete', R)),
        (('if1x', LEN, (('rete', R),)), ('ret_u',)),
        (('if1x', LEN, (('pass',),)), ('rete', R)),
        (('forx', C, (('rete', R),)), ('ret_u',)),
        (('forx', C, (('pass',),)), ('rete', R)),
        (('k=0',), ('whilex', KLT, (bR,)), ('ret_u',)),
        (('k=0',), ('whilex', KLT, (('pass',),)), ('rete', R)),
        (('let', 'b', C), ('rete', R)),
        (('rete', OP('sum({})', COMP(ADD(R, N('w')), (('w',), 'w', C)))),),
    )


def _family_e():
    out = []
    for pre in E_PREFIXES:
        for C in E_COMPS:
            for r in E_PROBES:
                for sh in _shapes(C, N(r)):
                    out.append(pre + sh)
    return list(dict.fromkeys(out))          # R = u makes a few shapes coincide


# ---- family W: a `while` condition that reads each candidate name ----------
#
# k = 0; [R = u]; while k < n and R > 0: k = k + 1; <body>; return u | return R
# with R bound only in the body (plain, tuple pattern, inside with / if-else / one-armed if, as a for
# target), only before the loop, both, or nowhere.  Terminates: k counts up to the input n.

W_NAMES = ('a', 'b', 'x', 'i')


def _family_w():
    out = []
    for r in W_NAMES:
        R, bind = N(r), ('let', r, N('u'))
        cond = OP('{} < {} and {} > 0', N('k'), N('n'), R)
        bodies = (
            (bind,),
            (('let', (r, 'w'), OP('({}, {})', N('u'), N('v'))),),
            (('with', (bind,)),),
            (('with', (('let', ('w', r), OP('({}, {})', N('v'), N('u'))),)),),
            (('ife', (bind,), (bind,)),),
            (('if1', (bind,)),),
            (('pass',),),
            (('fore', (('pass',),)),),
        )
        for pre in ((), (bind,)):
            for body in bodies:
                for post in (('ret_u',), ('rete', R)):
                    out.append((('k=0',),) + pre + (('whilex', cond, body), post))
    return out


W_PROGRAMS = _family_w()
E_PROGRAMS = _family_e() + W_PROGRAMS


# ---- family I: an indexed assignment `R[0] = u` as the USE site of R --------
#
# <binding shape of R>; <R[0] = u at a use position>; return u | return R[0]
# `R[0] = u` binds nothing and reads R (it updates the list R already names), so it is judged like a
# plain read of R.  Binding shapes = every way the rest of the space binds a name: nowhere, before
# (control), only in a one-armed `if`, in one / both arms of `if`/`else`, in one arm whose sibling
# returns, only in a `for` / `for-enumerate` / `while` body, as the loop target (R = x), as a
# comprehension variable (R = x), inside `with` (control), by a tuple pattern (control).
# Use positions: straight after, or nested in a one-armed `if`, an `if`/`else` arm, a `for` body, a
# `while` body, a `with` body.  Plus: use before the binding in the same loop body (first trip unbound),
# and binding + use in the same loop body (control).  The tail `return u` reads no local, so nothing
# but the indexed assignment can make the front end reject the program.

I_NAMES = ('a', 'x')


def _family_i():
    out = []
    for r in I_NAMES:
        R = N(r)
        bind = ('let', r, OP('[{}, {}]', N('u'), N('v')))
        use = ('iset', r, OP('0'), N('u'))
        pas, retu = ('pass',), ('ret_u',)
        prefixes = (
            (),                                                   # never bound
            (bind,),                                              # control: bound on every path
            (('if1', (bind,)),),
            (('ife', (bind,), (pas,)),),
            (('ife', (pas,), (bind,)),),
            (('ife', (bind,), (bind,)),),                         # control
            (('ife', (bind,), (retu,)),),                         # control: the sibling arm returns
            (('for', (bind,)),),                                  # for r = x this rebinds the target in the body
            (('fore', (bind,)),),
            (('k=0',), ('while', (bind,))),
            (('for', (pas,)),),                                   # r = x: loop target after the loop
            (('fore', (pas,)),),
            (('b=comp',),),                                       # r = x: comprehension variable afterwards
            (('with', (bind,)),),                                 # control: with-as does not scope
            (('let', (r, 'w'), OP('([{}, {}], {})', N('u'), N('v'), N('v'))),),     # control: tuple pattern
        )
        uses = (
            (use,),
            (('if1', (use,)),),
            (('ife', (use,), (pas,)),),
            (('for', (use,)),),
            (('k=0',), ('while', (use,))),
            (('with', (use,)),),
        )
        for pre in prefixes:
            for us_ in uses:
                for post in (retu, ('rete', OP('{}[0]', R))):
                    out.append(pre + us_ + (post,))
        for loop in ('for', 'fore', 'while'):
            k0 = (('k=0',),) if loop == 'while' else ()
            for body in ((use, bind), (bind, use), (('if1', (bind,)), use)):
                for post in (retu,):
                    out.append(k0 + ((loop, body), post))
    return list(dict.fromkeys(out))


I_PROGRAMS = _family_i()
