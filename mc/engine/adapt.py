"""Adapters between fpy2 run-time values and the reference models' X values."""

from fractions import Fraction

from fpy2.number import Float, RealFloat

from ..model.xreal import X, denote


def to_x(v) -> X:
    if isinstance(v, Float):
        if v.isnan:
            return X.nan()
        if v.isinf:
            return X.inf(v.s)
        return X('fin', v.s, Fraction(v._real.as_rational()))
    if isinstance(v, RealFloat):
        return X('fin', v.s, Fraction(v.as_rational()))
    return denote(v)


def show(v) -> str:
    if isinstance(v, (Float, RealFloat)):
        if isinstance(v, Float) and (v.isnan or v.isinf):
            return f'{type(v).__name__}({"-" if v.s else "+"}{"nan" if v.isnan else "inf"})'
        return f'{type(v).__name__}(s={v.s},exp={v.exp},c={v.c})'
    return repr(v)
