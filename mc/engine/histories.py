"""
Explicit-state breadth-first search over operation histories, property-agnostic.

Live interpreter objects cannot be copied, so a *state is the event list that
reaches it*: visiting a state means replaying that history, from the first
event, on fresh objects (`replay(history)` is supplied by the check and must
build everything it touches anew).  A transition appends one event of a finite
menu.  `replay` returns

    (observation, failures)

where `observation` is the canonical form of the state -- the tuple of
property-relevant results observed along the history -- and `failures` is a list
of invariant violations found in that state.  A state with failures is reported
and **not expanded** (its extensions would only repeat the same failure), which
also keeps reported histories minimal.

The search is exhaustive up to `depth`.  There is no merging of states with equal
canonical form: hidden state (caches, registries) is exactly what the
exploration is about, so two histories with equal observations may still differ
in what they do next.  The canonical forms are collected to report how many
distinct observations exist.

Sharding: the tree is cut below its `root_len`-event prefixes; subtree number i
(lexicographic order of the prefix) belongs to shard i % m.  The shorter
histories (length < root_len) are visited by shard 0.
"""

from __future__ import annotations

import itertools
from typing import Any, Callable, Iterable, Sequence

__all__ = ['bfs', 'space_size', 'HistoryStats']


def space_size(menu_len: int, depth: int) -> int:
    return sum(menu_len ** d for d in range(1, depth + 1))


class HistoryStats:
    def __init__(self):
        self.states = 0            # histories visited (each replayed from scratch)
        self.transitions = 0       # events executed over all replays
        self.by_depth: dict[int, int] = {}
        self.failed_states = 0
        self.not_expanded = 0
        self.canonical: set = set()
        self.depth_completed = 0


def bfs(menu: Sequence[Any], depth: int,
        replay: Callable[[tuple], tuple[tuple, list]],
        on_state: Callable[[tuple, tuple, list], None],
        shard: tuple[int, int] = (0, 1), root_len: int = 2,
        keep_canonical: bool = True) -> HistoryStats:
    k, m = shard
    st = HistoryStats()
    root_len = min(root_len, depth)

    def visit(h: tuple) -> bool:
        obs, failures = replay(h)
        st.states += 1
        st.transitions += len(h)
        st.by_depth[len(h)] = st.by_depth.get(len(h), 0) + 1
        if keep_canonical:
            st.canonical.add(obs)
        on_state(h, obs, failures)
        if failures:
            st.failed_states += 1
            return False
        return True

    # short histories: shard 0 (their verdicts do not gate the roots owned by
    # other shards -- every replay judges *all* its events, so a root whose
    # prefix already fails reports it and is not expanded)
    if k == 0:
        for d in range(1, root_len):
            for h in itertools.product(menu, repeat=d):
                visit(tuple(h))

    roots = [tuple(h) for i, h in enumerate(itertools.product(menu, repeat=root_len)) if i % m == k]
    frontier = []
    for h in roots:
        if visit(h):
            frontier.append(h)
        else:
            st.not_expanded += 1
    level = root_len
    st.depth_completed = level
    while level < depth:
        nxt = []
        for h in frontier:
            for e in menu:
                h2 = h + (e,)
                if visit(h2):
                    nxt.append(h2)
                else:
                    st.not_expanded += 1
        frontier = nxt
        level += 1
        st.depth_completed = level
    return st
