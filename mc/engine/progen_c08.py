"""
Bounded-exhaustive enumerator of FPy loop programs for C08 (loop / iterator
restructuring preserves results).

Nothing is sampled: every function below yields a finite, deterministic list of
programs -- all sequences (without repetition) of body statements from a small
pool, of length <= a bound, under every loop header, naming scheme and ambient
context of the tier.  Four families, each aimed at one group of rewrites:

  F  `for` loops (plain, range, static-length, zip / enumerate / enumerate(zip)
     with tuple, whole-tuple, discarded and nested targets)   unroll_for, split,
                                                               elim_iter
  W  `while` loops                                             unroll_while
  R  any / all over a comprehension in every syntactic position (assignment,
     return, if / while condition, operand of and / or, if-expression condition
     and branch, `not`, loop body, nested comprehension)       fuse
  E  comprehensions over zip / enumerate                       elim_iter

Every program is `f(xs, ys, k)`; `xs`, `ys` are lists of the same length (the
length is the input), `k` a small positive integer (the variable split factor);
`KF` is a module-level constant each program reads, so it is a *free variable*
of the function (the documented form of a variable factor).  The lists are only
mutated in place or rebound to a new list of the same length, so the length of
every loop's iterable is a function of the input length the check can evaluate
exactly (STRICT's precondition).

User variable names come from a naming scheme; two of the schemes use exactly
the names the rewrites generate (`t n i m j`, `_src _i acc b`) and one uses the
numbered forms (`t8`, `i9`, ...) in the window Gensym numbers from.

Every generator returns the whole (thorough) list with a flag per program saying
whether it belongs to the quick core; `all_programs('quick', seed)` is the core
plus every m-th program of the rest starting at `seed mod m`.
"""

from __future__ import annotations

import itertools

# ---------------------------------------------------------------------------
# naming schemes: A accumulator, C second outer variable, X Y I loop targets,
# P whole-tuple target, T body-local temporary, W inner-loop target, K while
# counter, R R2 boolean results, Z local static list, V comprehension target

SCHEMES = {
    'plain': dict(A='s', C='c', X='x', Y='y', I='e', P='p', T='u', W='w', K='q', R='r', R2='g',
                  Z='zs', V='v', V2='d'),
    # the temporaries of unroll_for / split: t n i m j
    'loop': dict(A='t', C='n', X='i', Y='j', I='m', P='p', T='hi', W='i1', K='q', R='r', R2='g',
                 Z='zs', V='v', V2='d'),
    # the temporaries of elim_iter / fuse: _src _i acc b
    'iter': dict(A='acc', C='b', X='_i', Y='_src', I='i', P='p', T='_src1', W='_i2', K='q', R='r',
                 R2='acc1', Z='zs', V='v', V2='d'),
    # numbered forms, as Gensym.refresh makes them
    # (Gensym numbers from the count of names in the program, 7-12 here, upwards: a dense window)
    'num': dict(A='t8', C='i9', X='i10', Y='t9', I='i8', P='t10', T='i11', W='t11', K='i12',
                R='acc8', R2='b9', Z='t12', V='_i9', V2='_src9'),
}

NARROW = {
    'fix2': 'fp.MPFixedContext(1, fp.RM.RTZ)',    # even integers only: i + 1 rounds back to i
    'p2': 'fp.MPFloatContext(2, fp.RM.RNE)',      # 2 significant bits: 5 -> 4, 7 -> 8, 9 -> 8
}

PI = [3, 1, 4, 1, 5, 9, 2, 6, 5]
E_ = [2, 7, 1, 8, 2, 8, 1, 8, 2]

SIG = 'def f(xs: list[fp.Real], ys: list[fp.Real], k: fp.Real):'

# programs that iterate over lists of tuples take three more arguments, built by the check from
# xs, ys: qs = [(10y+1, x)], ps = [((10y+1, y), x)], rs = [(((10y+1, y), x), x+y)]
SIG_TUPLES = ('def f(xs: list[fp.Real], ys: list[fp.Real], k: fp.Real, '
              'qs: list[tuple[fp.Real, fp.Real]], '
              'ps: list[tuple[tuple[fp.Real, fp.Real], fp.Real]], '
              'rs: list[tuple[tuple[tuple[fp.Real, fp.Real], fp.Real], fp.Real]]):')


def tuple_args(xs, ys):
    qs = [(10 * y + 1, x) for x, y in zip(xs, ys)]
    ps = [((10 * y + 1, y), x) for x, y in zip(xs, ys)]
    rs = [(((10 * y + 1, y), x), x + y) for x, y in zip(xs, ys)]
    return qs, ps, rs


BUMP = '''@fp.fpy
def bump(zs: list[fp.Real], x: fp.Real) -> bool:
    zs[0] = zs[0] + 1
    return x > 2

@fp.fpy
def bumpv(zs: list[fp.Real], x: fp.Real) -> fp.Real:
    zs[len(zs) - 1] = zs[len(zs) - 1] + 1
    return x

'''


class Prog:
    __slots__ = ('family', 'src', 'tags')

    def __init__(self, family: str, src: str, tags: dict):
        self.family = family
        self.src = src
        self.tags = tags          # header / position / features: what signatures are made of

    def __repr__(self):
        return f'Prog({self.family}, {self.tags})'


def _ind(lines, n=1):
    pad = '    ' * n
    return [pad + ln for ln in lines]


def _assemble(prologue, core, epilogue, names, helpers=False, wrap=None, sig=None):
    """core: lines at function-body level.  wrap: context expression or None."""
    body = list(prologue)
    if wrap is not None:
        body.append(f'with {wrap}:')
        body.extend(_ind(core))
    else:
        body.extend(core)
    body.extend(epilogue)
    text = '\n'.join(['@fp.fpy', sig or SIG] + _ind(body)) + '\n'
    text = text.format(**names)
    return 'KF = 3\n' + (BUMP if helpers else '') + text


# ---------------------------------------------------------------------------
# family F: for loops

RET = 'return ({A}, {C}, xs, ys)'

# key, header, pre-body, names bound, list(s) the derived iterable reads, kind
HEADERS = [
    ('xs', 'for {X} in xs:', [], 'X', ['xs'], 'plain'),
    ('range', 'for {X} in range(len(xs)):', [], 'X', [], 'range'),
    ('zip', 'for {X}, {Y} in zip(xs, ys):', [], 'XY', ['xs', 'ys'], 'zip'),
    ('enum', 'for {I}, {X} in enumerate(xs):', [], 'XI', ['xs'], 'enumerate'),
    ('enumzip', 'for {I}, ({X}, {Y}) in enumerate(zip(xs, ys)):', [], 'XYI', ['xs', 'ys'], 'enumerate-zip'),
    ('zipw', 'for {P} in zip(xs, ys):', ['{X} = {P}[0] + {P}[1]'], 'X', ['xs', 'ys'], 'zip'),
    ('enumzipw', 'for {I}, {P} in enumerate(zip(xs, ys)):', ['{X} = {P}[1]'], 'XI', ['xs', 'ys'], 'enumerate-zip'),
    ('zip_', 'for _, {X} in zip(ys, xs):', [], 'X', ['xs', 'ys'], 'zip'),
    ('enum_', 'for _, {X} in enumerate(xs):', [], 'X', ['xs'], 'enumerate'),
    ('enumi_', 'for {I}, _ in enumerate(xs):', ['{X} = xs[{I}]'], 'XI', ['xs'], 'enumerate'),
    ('zipnest', 'for ({X}, {Y}), {I} in zip(zip(xs, ys), ys):', [], 'XYI', ['xs', 'ys'], 'zip'),
    ('zip3', 'for {X}, {Y}, {I} in zip(xs, ys, xs):', [], 'XYI', ['xs', 'ys'], 'zip'),
    ('zip1', 'for {P} in zip(xs):', ['{X} = {P}[0]'], 'X', ['xs'], 'zip'),
    ('comp', 'for {X} in [{V} + 1 for {V} in xs]:', [], 'X', [], 'plain'),
    # the trip count is read from the argument `k`, which a body may reassign
    ('rangek', 'for {X} in range(k + 3):', [], 'X', [], 'range'),
]
HEADERS_QUICK = ('xs', 'range', 'zip', 'enum', 'enumzip', 'zipw', 'enumzipw', 'zip_', 'enumi_', 'zipnest', 'rangek')
HEADERS_MAIN = ('xs', 'zip', 'enum', 'enumzip', 'range', 'zipw')
HEADERS_MAIN_Q = ('xs', 'zip', 'enum', 'enumzip')


def _static_headers(sizes):
    out = []
    for s in sizes:
        lit = '[' + ', '.join(str(v) for v in PI[:s]) + ']'
        out.append((f'lit{s}', f'for {{X}} in {lit}:', [], 'X', [], 'static', None))
        out.append((f'loc{s}', 'for {X} in {Z}:', [], 'X', ['{Z}'], 'static', f'{{Z}} = {lit}'))
    return out


# tag, lines, needs (subset of 'XYI'), features
def _body_pool(lst: str):
    """Statements of a `for` body; `lst` is the list the loop iterates over (for
    the in-place mutation statements)."""
    last = f'{lst}[len({lst}) - 1]'
    return [
        ('acc', ['{A} = 2 * {A} + {X}'], '', ()),
        ('tgt', ['{X} = {X} + {C}'], '', ('reassign-target',)),
        ('mut', [f'{last} = {{A}} + 1'], '', ('mutate',)),
        ('ret', ['if {X} > 4:', '    ' + RET], '', ('early-return',)),
        # rebinds the name the loop iterates over to a new list of the same length
        ('rebind', [f'{lst} = [{{V}} * 2 for {{V}} in {lst}]'], '', ('rebind-source',)),
        ('cnd', ['if {X} > 2:', '    {C} = {C} + {X}'], '', ()),
        ('idx', ['{A} = {A} + {I} * {X}'], 'I', ()),
        ('yy', ['{C} = 2 * {C} + {Y}'], 'Y', ()),
        ('mut2', ['ys[len(ys) - 1] = {X} + 1'], '', ('mutate',)),
        # rebinds the second source of a zip to a new list of the same length
        ('rebind2', ['{C} = 2 * {C} + {X}', 'ys = [{V} + 1 for {V} in ys]'], '', ('rebind-source',)),
        # reassign the argument `k` -- the variable split factor (snapshot once before the loop) and the
        # trip count of the `rangek` header -- after using the element, so a skipped or repeated element shows
        ('kset', ['{A} = 2 * {A} + {X}', 'k = 1'], '', ('write-factor',)),
        ('kinc', ['{A} = 2 * {A} + {X}', 'k = k + 1'], '', ('write-factor',)),
        ('kdec', ['{A} = 2 * {A} + {X}', 'if k > 1:', '    k = k - 1'], '', ('write-factor',)),
        ('muti', [f'{last} = {last} + {{I}}'], 'I', ('mutate',)),
        ('tmp', ['{T} = {X} * 2', '{A} = {A} + {T}'], '', ()),
        ('nest', ['for {W} in ys:', '    {C} = 2 * {C} + {W}'], '', ('nested',)),
        ('nestret', ['for {W} in ys:', '    {A} = {A} + {W}', '    if {W} > 7:', '        ' + RET],
         '', ('nested', 'early-return')),
        ('nestsame', ['for {X} in ys:', '    {A} = 2 * {A} + {X}'], '', ('nested', 'reassign-target')),
        ('nestxs', [f'for {{W}} in {lst}:', '    {C} = {C} + {W}'], '', ('nested',)),
        ('nestlit', ['for {W} in [1, 2, 3]:', '    {A} = 2 * {A} + {W}'], '', ('nested',)),
        ('nestmut', ['for {W} in ys:', f'    {last} = {{W}}', '    {A} = {A} + {W}'], '', ('nested', 'mutate')),
        ('nestrng', ['for {W} in range({X}):', '    {A} = {A} + {W}'], '', ('nested',)),
        # the counter steps under the exact integer context so the loop ends under any ambient context
        ('while', ['{K} = 0', 'while {K} < {X}:', '    {A} = {A} + {K}', '    with fp.INTEGER:',
                   '        {K} = {K} + 2'], '', ('nested',)),
        ('any', ['if any([{V} > {X} for {V} in ys]):', '    {C} = {C} + 1'], '', ()),
        ('zcomp', ['{A} = {A} + sum([{V} * {V2} for {V}, {V2} in zip(xs, ys)])'], '', ()),
        # a comprehension in the body re-binds the loop target through a nested tuple target
        ('shcomp', ['{A} = {A} + sum([{X} * {V} for ({X}, {V2}), {V} in zip(zip(ys, xs), ys)]) + {X}'], '', ()),
    ]


BODY_CORE = ('acc', 'tgt', 'mut', 'ret', 'rebind', 'cnd', 'idx', 'nest', 'nestsame')


def _useful(seq):
    """Prune sequences whose last statement is dead (`tgt` needs a later reader)."""
    return seq[-1] != 'tgt'


def for_programs():
    """List of (Prog, in_core)."""
    headers = list(HEADERS)
    statics = _static_headers((1, 2, 3, 4, 5, 6))
    out = []

    def emit(hdr, seq_tags, pool, scheme, wrap, core):
        key, header, pre, binds, srcs, kind = hdr[:6]
        zdef = hdr[6] if len(hdr) > 6 else None
        names = SCHEMES[scheme]
        lines = []
        feats = set()
        for tag in seq_tags:
            _, ls, needs, fs = pool[tag]
            lines.extend(ls)
            feats.update(fs)
        prologue = ['{A} = KF - 3', '{C} = 1']
        if zdef:
            prologue.append(zdef)
        corelines = [header] + _ind(list(pre) + lines)
        src = _assemble(prologue, corelines, [RET], names, wrap=NARROW[wrap] if wrap else None)
        mut_src = 'n'
        if 'mutate' in feats:
            # does the body write a list the derived iterable reads?
            written = set()
            for tag in seq_tags:
                if tag in ('mut', 'muti', 'nestmut'):
                    written.add('{Z}' if key.startswith('loc') else 'xs')
                if tag == 'mut2':
                    written.add('ys')
            if written & set(srcs):
                mut_src = 'y'
        if mut_src == 'n' and 'rebind' in seq_tags and (('{Z}' if key.startswith('loc') else 'xs') in srcs):
            mut_src = 'rebind'
        if mut_src == 'n' and 'rebind2' in seq_tags and 'ys' in srcs:
            mut_src = 'rebind'
        if mut_src == 'n' and 'write-factor' in feats:
            mut_src = 'factor'
        tags = {'family': 'F', 'header': key, 'iter': kind, 'body': '+'.join(seq_tags), 'scheme': scheme,
                'ctx': wrap or 'ambient', 'mut': mut_src, 'site': 'stmt',
                'features': '+'.join(sorted(feats)) or '-',
                'usesk': 'y' if ('write-factor' in feats or key == 'rangek') else 'n'}
        out.append((Prog('F', src, tags), core))

    def seqs(pooltags, maxlen, binds):
        for n in range(1, maxlen + 1):
            for seq in itertools.permutations(pooltags, n):
                if _useful(seq):
                    yield seq

    for hdr in headers + statics:
        key, binds = hdr[0], hdr[3]
        lst = '{Z}' if key.startswith('loc') else 'xs'
        plist = _body_pool(lst)
        pool = {p[0]: p for p in plist}
        avail = [p[0] for p in plist if all(ch in binds for ch in p[2])]
        is_static = key.startswith('lit') or key.startswith('loc')
        q_header = key in HEADERS_QUICK
        q_static = key in ('lit1', 'lit3', 'loc4', 'loc5')
        main = key in HEADERS_MAIN
        core_tags = [t for t in avail if t in BODY_CORE]
        done = set()
        # (1) all sequences of length <= 2 over the core pool, scheme `loop`, ambient context
        for seq in seqs(core_tags, 2, binds):
            core = (key in HEADERS_MAIN_Q and (len(seq) == 1 or 'nestsame' not in seq)) or \
                ((q_header or q_static) and len(seq) == 1) or \
                (q_static and seq in (('mut', 'acc'), ('acc', 'mut'), ('nest', 'acc'), ('ret', 'acc')))
            if is_static and not q_static and len(seq) == 2 and any('nested' in pool[t][3] for t in seq):
                continue      # quadratic-cost bodies: four static headers only
            emit(hdr, seq, pool, 'loop', None, core)
            done.add((seq, 'loop', None))
        # (2) every single statement under the naming schemes and ambient contexts
        if is_static:
            combos = [('loop', None), ('iter', None), ('loop', 'fix2')]
        else:
            combos = [('loop', None), ('loop', 'fix2'), ('loop', 'p2'), ('iter', None), ('iter', 'fix2'),
                      ('plain', None), ('num', None)]
        for tag in avail:
            for scheme, wrap in combos:
                if ((tag,), scheme, wrap) in done:
                    continue
                if 'write-factor' in pool[tag][3] and wrap is not None:
                    continue      # a rounded `k - 1` could reach 0: the factor must stay >= 1
                if 'nested' in pool[tag][3] and ((scheme, wrap) in (('loop', 'p2'), ('iter', 'fix2'), ('plain', None))
                                                 or (is_static and scheme != 'loop')):
                    continue      # quadratic-cost bodies: fewer scheme x context combinations
                core = q_header and ((tag in BODY_CORE and (scheme, wrap) in (('iter', None), ('plain', None)))
                                     or (main and tag in BODY_CORE and (scheme, wrap) == ('loop', 'fix2'))
                                     or (scheme, wrap) == ('loop', None)
                                     or (main and tag == 'acc' and (scheme, wrap) == ('loop', 'p2'))
                                     # numbered names: bodies that make the rewrites mint many temporaries
                                     or (main and (scheme, wrap) == ('num', None) and
                                         tag in ('acc', 'nest', 'nestsame', 'tmp', 'while')))
                if key == 'rangek':
                    core = (scheme, wrap) == ('loop', None) and tag in ('acc', 'kset', 'kinc', 'kdec')
                elif tag in ('kset', 'kinc', 'kdec', 'rebind2') and not main:
                    core = False
                emit(hdr, (tag,), pool, scheme, wrap, core)
                done.add(((tag,), scheme, wrap))
        # (3) all sequences of length 2 over the whole pool, main headers and one static one
        sch = 'iter' if kindof(hdr) in ('zip', 'enumerate', 'enumerate-zip') else 'loop'
        if key in ('xs', 'enumzip', 'loc5'):
            for seq in seqs(avail, 2, binds):
                if (seq, sch, None) not in done:
                    emit(hdr, seq, pool, sch, None, False)
                    done.add((seq, sch, None))
        # (4) length 3 over the core pool
        if key in ('xs', 'enumzip'):
            for seq in seqs(core_tags, 3, binds):
                if len(seq) == 3 and sum(1 for t in seq if 'nested' in pool[t][3]) <= 1:
                    emit(hdr, seq, pool, sch, None, False)
        # (5) core sequences of length 2 under a narrow context
        for seq in seqs(core_tags, 2, binds):
            if len(seq) == 2 and main:
                emit(hdr, seq, pool, 'loop', 'fix2', False)
    return out


def kindof(hdr):
    return hdr[5]


# ---------------------------------------------------------------------------
# family W: while loops

WHILE_CONDS = [
    ('len', '{K} < len(xs)'),
    ('guard', '{K} < len(xs) and xs[{K}] < 6'),
    ('acc', '{A} < 40 and {K} < len(xs)'),
]


def while_programs():
    full = True
    out = []
    plist = [p for p in _body_pool('xs') if p[0] not in ('idx', 'yy', 'muti', 'zcomp', 'shcomp', 'nestrng', 'nestlit', 'rebind2', 'kset', 'kinc', 'kdec')]
    pool = {p[0]: p for p in plist}
    # the nested `while` of the pool shares the counter name with the outer loop: give it its own
    pool['while'] = ('while', ['{W} = 0', 'while {W} < {X}:', '    {A} = {A} + {W}', '    with fp.INTEGER:',
                               '        {W} = {W} + 2'], '', ('nested',))
    avail = [p[0] for p in plist]
    core_tags = [t for t in avail if t in BODY_CORE or t == 'while']

    def emit(ckey, cond, seq, scheme, wrap, incr_last, core):
        names = SCHEMES[scheme]
        lines = []
        feats = set()
        for tag in seq:
            lines.extend(pool[tag][1])
            feats.update(pool[tag][3])
        head = ['{X} = xs[{K}]']
        # under a narrow ambient context the counter steps exactly, or the original would not end
        incr = ['{K} = {K} + 1'] if wrap is None else ['with fp.INTEGER:', '    {K} = {K} + 1']
        if incr_last:
            body = head + lines + incr
        else:
            body = head + incr + lines
        corelines = [f'while {cond}:'] + _ind(body)
        src = _assemble(['{A} = KF - 3', '{C} = 1', '{K} = 0'], corelines, [RET], names,
                        wrap=NARROW[wrap] if wrap else None)
        tags = {'family': 'W', 'header': 'while-' + ckey, 'iter': 'while', 'body': '+'.join(seq), 'scheme': scheme,
                'ctx': wrap or 'ambient', 'mut': 'y' if 'mutate' in feats else 'n', 'site': 'stmt',
                'features': '+'.join(sorted(feats)) or '-', 'incr': 'last' if incr_last else 'first'}
        out.append((Prog('W', src, tags), core))

    for ckey, cond in WHILE_CONDS:
        for incr_last in (False, True):
            for n in (1, 2):
                for seq in itertools.permutations(core_tags if n == 2 or not full else avail, n):
                    if not _useful(seq):
                        continue
                    # an early return placed before a trailing increment is fine; a nested loop that
                    # reuses {X} is fine too
                    core = (n == 1 or (ckey == 'len' and not incr_last)) and all(t in core_tags for t in seq)
                    emit(ckey, cond, seq, 'loop', None, incr_last, core)
            for scheme in ('iter', 'plain') + (('num',) if full else ()):
                for tag in core_tags:
                    emit(ckey, cond, (tag,), scheme, None, incr_last, scheme == 'iter' and ckey != 'acc')
            for tag in core_tags:
                emit(ckey, cond, (tag,), 'loop', 'fix2', incr_last, ckey == 'guard' and incr_last)
            if full and ckey != 'acc':
                for seq in itertools.permutations(avail, 2):
                    if _useful(seq) and not all(t in core_tags for t in seq):
                        emit(ckey, cond, seq, 'iter', None, incr_last, False)
    return out


# ---------------------------------------------------------------------------
# family R: any / all over a comprehension, in every position

COMPS = [
    # key, text, can raise?, helper?
    ('tot', '[{V} > {C} - 4 for {V} in xs]', False, False),
    ('idx', '[xs[{V}] > 2 for {V} in ys]', True, False),            # IndexError when an element of ys >= len(xs)
    ('bump', '[bump(ys, {V}) for {V} in xs]', False, True),         # element has a side effect on ys
    ('zip', '[{V} > {V2} for {V}, {V2} in zip(xs, ys)]', False, False),
    ('enum', '[{V} < {V2} for {V}, {V2} in enumerate(xs)]', False, False),
    ('rng', '[xs[{V}] > 1 for {V} in range(len(xs))]', False, False),
    ('shadow', '[{A} > 1 for {A} in xs]', False, False),            # target shadows an outer variable
    ('nested', '[all([{V2} <= {V} + 5 for {V2} in ys]) for {V} in xs]', False, False),
]
COMPS_QUICK = ('tot', 'idx', 'bump', 'zip', 'shadow')

# key, lines ({Q} = any|all, {M} = comprehension), epilogue
POSITIONS = [
    ('assign', ['{R} = {Q}({M})'], None),
    ('return', [], 'return ({Q}({M}), {A}, ys)'),
    ('if-cond', ['{R} = False', 'if {Q}({M}):', '    {A} = {A} + 1', '    {R} = True'], None),
    ('and-rhs', ['{R} = {C} > 3 and {Q}({M})'], None),
    ('and-lhs', ['{R} = {Q}({M}) and {C} > 3'], None),
    ('or-rhs', ['{R} = {C} > 3 or {Q}({M})'], None),
    ('or-lhs', ['{R} = {Q}({M}) or {C} > 3'], None),
    ('ifexp-cond', ['{A} = 5 if {Q}({M}) else 7', '{R} = {A} > 5'], None),
    ('ifexp-then', ['{R} = {Q}({M}) if {C} > 3 else False'], None),
    ('ifexp-else', ['{R} = True if {C} > 3 else {Q}({M})'], None),
    ('not', ['{R} = not {Q}({M})'], None),
    ('tuple', ['{P} = ({Q}({M}), {C} > 2)', '{R} = {P}[0]'], None),
    ('two', ['{R} = {Q}({M})', '{R2} = {Q}({M})', '{A} = {A} + (1 if {R2} else 0)'], None),
    ('while-cond', ['{K} = 0', '{R} = False', 'while {Q}([{V} > {K} for {V} in xs]) and {K} < 12:',
                    '    {K} = {K} + 1', '    {R} = {Q}({M})', '{A} = {A} + {K}'], None),
    ('while-body', ['{K} = 0', '{R} = False', 'while {K} < 3:', '    {K} = {K} + 1', '    {C} = {C} - 1',
                    '    if {Q}({M}):', '        {A} = 2 * {A} + {K}', '        {R} = True'], None),
    ('for-body', ['{R} = False', 'for {X} in xs:', '    {C} = {X}', '    if {Q}({M}):',
                  '        {A} = 2 * {A} + 1', '        {R} = True'], None),
    ('for-iter', ['{R} = False', 'for {X} in [{Q}({M}), {C} > 2]:', '    {R} = {R} or {X}',
                  '    {A} = 2 * {A} + 1'], None),
    ('comp-elt', ['{A} = sum([1 if {Q}([{V2} > {X} for {V2} in ys]) else 0 for {X} in xs])',
                  '{R} = {Q}({M})'], None),
    ('comp-iter', ['{R} = {Q}([{X} > 1 for {X} in [1 if {Q}({M}) else 0, 2]])'], None),
    ('with', ['with fp.INTEGER:', '    {R} = {Q}({M})'], None),
    ('if-body', ['{R} = False', 'if {C} > 3:', '    {R} = {Q}({M})'], None),
]
POS_QUICK = ('assign', 'return', 'if-cond', 'and-rhs', 'or-rhs', 'or-lhs', 'ifexp-cond', 'ifexp-then', 'ifexp-else',
             'not', 'two', 'while-cond', 'while-body', 'for-body', 'if-body')


def reduce_programs():
    full = True
    out = []
    for pkey, lines, epi in POSITIONS:
        for ckey, comp, raises, helper in COMPS:
            for q in ('any', 'all'):
                for scheme in ('iter', 'plain', 'loop') + (('num',) if full else ()):
                    names = dict(SCHEMES[scheme])
                    body = [ln.replace('{Q}', q).replace('{M}', comp) for ln in lines]
                    epilogue = [(epi or 'return ({R}, {A}, {C}, ys)').replace('{Q}', q).replace('{M}', comp)]
                    src = _assemble(['{A} = KF - 3', '{C} = len(xs)'], body, epilogue, names, helpers=helper)
                    tags = {'family': 'R', 'header': 'reduce', 'iter': 'comprehension', 'position': pkey,
                            'elt': ckey, 'reduce': q, 'scheme': scheme, 'ctx': 'ambient', 'mut': 'n',
                            'site': 'comp', 'body': f'{q}:{ckey}', 'features': 'raises' if raises else
                            ('effect' if helper else '-')}
                    core = (scheme == 'iter' and pkey in POS_QUICK and ckey in COMPS_QUICK) or \
                           (scheme != 'iter' and pkey in ('assign', 'and-rhs', 'for-body') and ckey in ('tot', 'idx')
                            and q == 'any')
                    out.append((Prog('R', src, tags), core))
    return out


# ---------------------------------------------------------------------------
# family E: comprehensions over zip / enumerate (the expression path of elim_iter)

ECOMPS = [
    ('zip', 'sum([{V} * {V2} for {V}, {V2} in zip(xs, ys)])', False),
    ('enum', 'sum([{V} * {V2} for {V}, {V2} in enumerate(xs)])', False),
    ('enumzip', 'sum([{I} * ({V} + 2 * {V2}) for {I}, ({V}, {V2}) in enumerate(zip(xs, ys))])', False),
    ('enumzipw', 'sum([{I} + {P}[0] for {I}, {P} in enumerate(zip(xs, ys))])', False),
    ('zipw', 'sum([{P}[1] - {P}[0] for {P} in zip(xs, ys)])', False),
    ('zipnest', 'sum([{V} * {I} - {V2} for ({V}, {V2}), {I} in zip(zip(xs, ys), xs)])', False),
    ('zip3', 'sum([{V} * {V2} - {I} for {V}, {V2}, {I} in zip(xs, ys, ys)])', False),
    ('twostage', 'sum([{V} + 2 * {V2} + {I} for {V}, {V2} in zip(xs, ys) for {I} in ys])', False),
    ('shadowed', 'sum([sum([{V} for {V} in ys]) + {V2} for {V}, {V2} in zip(xs, ys)])', False),
    ('zip_', 'sum([{V2} for _, {V2} in zip(xs, ys)])', False),
    ('enum_', 'sum([{V} for {V}, _ in enumerate(ys)])', False),
    ('zipcomp', 'sum([{V} * {V2} for {V}, {V2} in zip([{I} + 1 for {I} in xs], ys)])', False),
    ('ziprev', 'sum([{V} - {V2} for {V}, {V2} in zip(ys, xs)])', False),
    ('list', '[{V} + {V2} for {V}, {V2} in zip(xs, ys)]', False),
    # a nested comprehension re-binds a zip/enumerate-bound name and uses it: through a plain name,
    # a flat tuple, a depth-2 / depth-3 nested tuple, an enumerate(zip) target (lists of tuples qs ps rs)
    ('sh-name', 'sum([sum([{V}[1] * 2 for {V} in qs]) + {V} + {V2} for {V}, {V2} in zip(xs, ys)])', 'T'),
    ('sh-flat', 'sum([sum([{V} * {I} for {V}, {I} in qs]) + {V} + 2 * {V2} for {V}, {V2} in zip(xs, ys)])', 'T'),
    ('sh-d2', 'sum([sum([{V} * {P} for ({V}, {I}), {P} in ps]) + {V} + 2 * {V2} for {V}, {V2} in zip(xs, ys)])', 'T'),
    ('sh-d2b', 'sum([sum([{V2} * {P} for ({I}, {V2}), {P} in ps]) + {V} + 2 * {V2} for {V}, {V2} in zip(xs, ys)])',
     'T'),
    ('sh-d3', 'sum([sum([{V} * {T} for (({V}, {I}), {P}), {T} in rs]) + {V} + 2 * {V2} '
              'for {V}, {V2} in zip(xs, ys)])', 'T'),
    ('sh-d3b', 'sum([sum([{V2} * {T} for (({I}, {V2}), {P}), {T} in rs]) + {V} + 2 * {V2} '
               'for {V}, {V2} in zip(xs, ys)])', 'T'),
    ('sh-ez', 'sum([sum([{V} * {I} + {P} for {I}, ({V}, {P}) in enumerate(zip(ys, xs))]) + {V} + 2 * {V2} '
              'for {V}, {V2} in zip(xs, ys)])', False),
    ('sh-list-d2', '[sum([{V} * {P} for ({V}, {I}), {P} in ps]) + {V2} for {V}, {V2} in zip(xs, ys)]', 'T'),
    ('shE-d2', 'sum([sum([{V2} * {P} for ({V2}, {I}), {P} in ps]) + {V} * {V2} for {V}, {V2} in enumerate(xs)])',
     'T'),
    ('shE-d3', 'sum([sum([{V2} * {T} for (({I}, {V2}), {P}), {T} in rs]) + {V} * {V2} '
               'for {V}, {V2} in enumerate(xs)])', 'T'),
    ('shE-flat', 'sum([sum([{V2} * {I} for {I}, {V2} in qs]) + {V} * {V2} for {V}, {V2} in enumerate(xs)])', 'T'),
    ('shEZ-d2', 'sum([sum([{V} * {P} for ({V}, {T}), {P} in ps]) + {I} * {V} + {V2} '
                'for {I}, ({V}, {V2}) in enumerate(zip(xs, ys))])', 'T'),
    ('shEZ-ez', 'sum([sum([{V2} * {T} + {W} for {T}, ({W}, {V2}) in enumerate(zip(ys, xs))]) + {I} * {V} + {V2} '
                'for {I}, ({V}, {V2}) in enumerate(zip(xs, ys))])', False),
    # the same index / element / source name at two levels: an accessor substituted for the outer target
    # must not be captured by the inner binding (the outer element is used inside the inner one)
    ('cap-idx', '[[{V2} * {W} + {V} for {V}, {W} in enumerate(ys)] for {V}, {V2} in enumerate(xs)]', 'C'),
    ('cap-idx-plain', '[[{V2} * {W} + {V} for {V} in ys for {W} in xs] for {V}, {V2} in enumerate(xs)]', 'C'),
    ('cap-idx-stage', '[{V2} + {V} + 2 * {W} for {V}, {V2} in enumerate(xs) for {V}, {W} in enumerate(ys)]', 'C'),
    ('cap-elt', '[sum([{V2} * {V} for {V}, {V2} in enumerate(ys)]) + {V2} * {V} for {V}, {V2} in enumerate(xs)]', 'C'),
    ('cap-ez-idx', '[[{V} * {W} + {I} for {I}, {W} in enumerate(ys)] '
                   'for {I}, ({V}, {V2}) in enumerate(zip(xs, ys))]', 'C'),
    ('cap-zip-elt', '[sum([{V} * {V2} for {V}, {V2} in zip(ys, ys)]) + {V} + 2 * {V2} '
                    'for {V}, {V2} in zip(xs, ys)]', 'C'),
    ('cap-zip-stage', '[{V} + 2 * {V2} for {V}, {V2} in zip(xs, ys) for {V} in ys]', 'C'),
    ('cap-src', '[[{V2} * {W} + xs for xs in ys for {W} in ys] for {V}, {V2} in enumerate(xs)]', 'C'),
    ('cap-src-zip', '[[{V} * {W} + 2 * {V2} + ys for ys in xs for {W} in xs] for {V}, {V2} in zip(xs, ys)]', 'C'),
    ('shW-d2', 'sum([sum([{P} * {W} for ({P}, {I}), {W} in ps]) + {P}[0] + 2 * {P}[1] for {P} in zip(xs, ys)])', 'T'),
    ('effect', 'sum([bumpv(xs, {V}) + {V2} for {V}, {V2} in zip(xs, ys)])', True),
    ('effect-enum', 'sum([bumpv(xs, {V2}) + {V} for {V}, {V2} in enumerate(xs)])', True),
]

EPOS = [
    ('assign', ['{A} = {M}'], 'return ({A}, xs)'),
    ('return', [], 'return ({M}, {C})'),
    ('for-body', ['{A} = {A} - 1', 'for {X} in ys:', '    {A} = {M}', '    {C} = {C} + 1'], 'return ({A}, {C}, xs)'),
    ('after-mut', ['for {X} in ys:', '    xs[len(xs) - 1] = {X} + {C}', '    {C} = {C} + 1', '{A} = {M}'],
     'return ({A}, {C}, xs)'),
    # the counter steps under the exact integer context so the loop ends under any ambient context
    ('while-body', ['{K} = 0', '{A} = {M}', 'while {K} < 3 and len(xs) > 0:', '    with fp.INTEGER:',
                    '        {K} = {K} + 1', '    xs[0] = xs[0] + 1', '    {A} = {M}'], 'return ({A}, {K}, xs)'),
]


def comp_programs():
    full = True
    out = []
    for pkey, lines, epi in EPOS:
        for ckey, comp, flag in ECOMPS:
            tuples = flag == 'T'
            capture = flag == 'C'
            helper = flag is True
            for scheme in ('iter', 'plain', 'loop') + (('num',) if full else ()):
                for wrap in (None, 'fix2') + (('p2',) if full else ()):
                    names = SCHEMES[scheme]
                    body = [ln.replace('{M}', comp) for ln in lines]
                    src = _assemble(['{A} = KF - 3', '{C} = 1'], body, [epi.replace('{M}', comp)], names,
                                    helpers=helper, wrap=None if wrap is None else NARROW[wrap],
                                    sig=SIG_TUPLES if tuples else None)
                    if wrap is not None and not lines:
                        continue     # nothing to wrap
                    tags = {'family': 'E', 'header': ckey, 'iter': 'comprehension', 'position': pkey,
                            'scheme': scheme, 'ctx': wrap or 'ambient', 'mut': 'y' if helper else 'n',
                            'site': 'comp', 'body': ckey, 'features': 'effect' if helper else '-'}
                    core = (scheme == 'iter' and wrap is None) or (scheme == 'plain' and wrap == 'fix2'
                                                                    and pkey == 'assign')
                    if capture:
                        tags['elt'] = 'capture-source' if ckey.startswith('cap-src') else 'capture'
                        core = (scheme == 'plain' and wrap is None and pkey == 'assign') or \
                               (scheme == 'iter' and wrap is None and pkey == 'return')
                    if ckey.startswith('sh') and ckey != 'shadowed':
                        # the shadowing comprehensions: every one at the assignment, the for-body and the
                        # return position under one scheme; all the rest is thorough
                        core = (scheme == 'plain' and wrap is None and pkey in ('assign', 'for-body')) or \
                               (scheme == 'iter' and wrap is None and pkey == 'return')
                    out.append((Prog('E', src, tags), core))
    return out


# ---------------------------------------------------------------------------

def all_programs(tier: str, seed: int = 0):
    """The declared program space of a tier, in a fixed order.

    thorough: everything.  quick: the core (same for every seed) plus a slice of
    the rest that rotates with the seed."""
    everything = []
    for fam in (for_programs, while_programs, reduce_programs, comp_programs):
        everything.extend(fam())
    seen = set()
    progs = []
    rest = []
    for p, core in everything:
        if p.src in seen:
            continue
        seen.add(p.src)
        if tier != 'quick' or core:
            progs.append(p)
        else:
            rest.append(p)
    extra = []
    if tier == 'quick' and rest:
        m = max(1, len(rest) // 40)          # ~40 extra programs
        extra = [p for i, p in enumerate(rest) if i % m == seed % m]
        for p in extra:
            p.tags = dict(p.tags, slice='seed')
    return progs, extra


def inputs(tier: str, nested: bool = False):
    """(xs, ys) pairs.  Programs without a nested loop: every length 0..9 (thorough: a second value
    pattern, lengths 1..9).  Programs with a nested loop (quadratic cost): lengths 0..6 and 8
    (thorough: second pattern, lengths 1..4)."""
    out = []
    for n in ((0, 1, 2, 3, 4, 5, 6, 8) if nested else range(10)):
        out.append((PI[:n], E_[:n]))
    if tier != 'quick':
        a, b = [1, 6, 1, 8, 0, 3, 3, 9, 8], [5, 0, 2, 8, 8, 4, 1, 9, 7]
        for n in ((1, 2, 3, 4) if nested else range(1, 10)):
            out.append((a[:n], b[:n]))
    return out
