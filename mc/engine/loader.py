"""
Source text -> module file -> objects (e.g. `@fp.fpy` Functions).

`@fp.fpy` needs real source, so generated code is written to a scratch module
file, registered in `sys.modules` *before* execution (otherwise fpy2's
`getfunclines` cannot find the source module) and executed.  The scratch
directory is per process and removed at exit.
"""

import atexit
import importlib.util
import itertools
import os
import shutil
import sys
import tempfile

_DIR = None
_COUNTER = itertools.count()

PRELUDE = "import fpy2 as fp\nfrom fpy2 import *\n"


def scratch_dir() -> str:
    global _DIR
    if _DIR is None or not os.path.isdir(_DIR) or _PID != os.getpid():
        _new_dir()
    return _DIR


_PID = None


def _new_dir():
    global _DIR, _PID
    _PID = os.getpid()
    _DIR = tempfile.mkdtemp(prefix=f'vfmod_{_PID}_')
    d = _DIR
    pid = _PID

    def _cleanup():
        if os.getpid() == pid:
            shutil.rmtree(d, ignore_errors=True)
    atexit.register(_cleanup)
    # pool workers are terminated without running atexit handlers
    try:
        from multiprocessing import util as _mpu
        _mpu.Finalize(None, _cleanup, exitpriority=10)
    except Exception:
        pass


def load_source(src: str, prelude: str = PRELUDE, keep: bool = False):
    """Executes `prelude + src` as a fresh module and returns the module.
    Raises whatever the module body raises (e.g. FPySyntaxError from @fp.fpy).
    The file is deleted right after loading unless `keep` (fpy2 reads the
    source during decoration only)."""
    d = scratch_dir()
    name = f'vfgen_{os.getpid()}_{next(_COUNTER)}'
    path = os.path.join(d, name + '.py')
    with open(path, 'w') as f:
        f.write(prelude)
        f.write(src)
        if not src.endswith('\n'):
            f.write('\n')
    spec = importlib.util.spec_from_file_location(name, path)
    mod = importlib.util.module_from_spec(spec)
    sys.modules[name] = mod
    try:
        spec.loader.exec_module(mod)
    finally:
        sys.modules.pop(name, None)
        if not keep:
            try:
                os.unlink(path)
            except OSError:
                pass
            # compiled cache
            shutil.rmtree(os.path.join(d, '__pycache__'), ignore_errors=True)
    return mod


def load_function(src: str, name: str = 'f', prelude: str = PRELUDE):
    return getattr(load_source(src, prelude), name)


def drop_interpreter_cache():
    """fpy2's default interpreter keeps every compiled function (and with it the AST and its source
    tokens) in `func_cache` for the life of the process; checks that load thousands of generated
    programs call this between programs, and the runner calls it after every shard."""
    fpy2 = sys.modules.get('fpy2')
    if fpy2 is None:
        return
    try:
        rt = fpy2.get_default_interpreter()
    except Exception:       # noqa: BLE001
        return
    cache = getattr(rt, 'func_cache', None)
    if cache is not None:
        cache.clear()
