"""
Bounded-exhaustive program enumerator for C13 (and reusable by C14).

Four families, each a finite grammar enumerated completely up to a size bound
(deterministic order, simplest first inside a family):

  J  joins        scalar definitions on one/both branches, re-definition in
                  for/while loops, tuple pack/unpack, `with` blocks, early
                  return; constants that fold under a pinned function context
  V  value class  ladders of class tests (isnan / isinf / isfinite / x == 0 /
                  comparisons and their negations, and/or) over an argument, a
                  local copy or a phi, with arms reading the tested variable
                  through exact (REAL) and rounding operations
  L  list routes  every route of the alias table: binding, indexing, slicing,
                  construction, tuple field, `for row in xss`, comprehension
                  variable, if-expression, enumerate/zip, element stores
  P  loop consts  names initialised to constants and re-defined in a loop body by tuple
                  destructuring / plain assignment, read in the body and after the loop
  T  tuple rows   lists of tuples holding lists / tuples of lists through every alias route
  Z  sizes        zip / assert / slices with constant and symbolic bounds /
                  range / comprehensions / helper calls, under branches, loops
                  and early returns

  S  shadowing    a comprehension target that shadows a name already in scope (parameter or
                  earlier local; real, bool or list), with that name read again later in the SAME
                  statement (sibling operand, later tuple element, second comprehension, if-expression
                  arm, while condition, return value) and in the next statement

A program is `Prog(fam, src, args, tag)`: `src` is the text of one module
(helpers + `f`), `args` the names of f's parameters (a subset of ARG_TYPES, in
canonical order).  `inputs(prog)` is the complete product of the per-family
argument pools restricted to the parameters used.
"""

from __future__ import annotations

import itertools
import re
from typing import Iterator

ARG_ORDER = ('u', 'v', 'n', 'us', 'vs', 'uss')
ARG_TYPES = {
    'u': 'fp.Real', 'v': 'fp.Real', 'n': 'fp.Real',
    'us': 'list[fp.Real]', 'vs': 'list[fp.Real]', 'uss': 'list[list[fp.Real]]',
}
_ARG_RE = re.compile(r'\b(u|v|n|us|vs|uss)\b')

FCTX = 'fp.IEEEContext(3, 8, fp.RM.RTZ)'        # p = 5: 1/3 is inexact, folding is context sensitive
WCTX = 'fp.IEEEContext(2, 6, fp.RM.RTP)'        # p = 4, rounds the other way

HELPERS = '''
@fp.fpy
def g_two():
    return [1.0, 2.0]

@fp.fpy
def g_id(xs: list[fp.Real]):
    return xs

@fp.fpy
def g_len(xs: list[fp.Real]):
    return len(xs)

'''


class Prog:
    __slots__ = ('fam', 'src', 'args', 'tag')

    def __init__(self, fam: str, src: str, args: tuple[str, ...], tag: str):
        self.fam = fam
        self.src = src
        self.args = args
        self.tag = tag


def make_prog(fam: str, body: list[str], tag: str, deco: str = '@fp.fpy', helpers: bool = False) -> Prog:
    text = '\n'.join(body)
    used = set(_ARG_RE.findall(text))
    args = tuple(a for a in ARG_ORDER if a in used)
    sig = ', '.join(f'{a}: {ARG_TYPES[a]}' for a in args)
    src = (HELPERS if helpers else '') + f'{deco}\ndef f({sig}):\n' + '\n'.join('    ' + ln for ln in body) + '\n'
    return Prog(fam, src, args, tag)


def indent(lines: list[str]) -> list[str]:
    return ['    ' + ln for ln in lines]


# ----------------------------------------------------------------------
# generic block enumerator

class Grammar:
    """stmt(env, budget, flags) yields (lines, env_after, cost, terminates)."""

    def stmt(self, env: frozenset, budget: int, flags: dict) -> Iterator[tuple[list[str], frozenset, int, bool]]:
        raise NotImplementedError

    def block(self, env: frozenset, budget: int, flags: dict, min_len: int = 1):
        """every statement sequence of total cost <= budget (>= min_len statements)"""
        def rec(env, budget, acc, n, used):
            if n >= min_len:
                yield acc, env, used
            if budget <= 0:
                return
            for lines, env2, cost, term in self.stmt(env, budget, flags):
                if term:
                    # nothing may follow a statement that always returns
                    yield acc + lines, env2, used + cost
                else:
                    yield from rec(env2, budget - cost, acc + lines, n + 1, used + cost)
        yield from rec(env, budget, [], 0, 0)


# ----------------------------------------------------------------------
# Family J

class JGrammar(Grammar):
    TARGETS = ('a', 'b')

    def exprs(self, env, tgt, flags):
        out = ['u', '1']
        other = 'b' if tgt == 'a' else 'a'
        if tgt in env:
            out.append(f'{tgt} + 1')
            out.append(f'{tgt} / 3')
        if other in env:
            out.append(other)
        if flags.get('loopvar'):
            out.append('x')
        return out

    def conds(self, env):
        out = ['u > 0']
        if 'a' in env:
            out.append('a == 1')
        return out

    def stmt(self, env, budget, flags):
        depth = flags.get('depth', 0)
        for tgt in self.TARGETS:
            for e in self.exprs(env, tgt, flags):
                yield [f'{tgt} = {e}'], env | {tgt}, 1, False
        if 'a' in env and 'b' in env:
            yield ['a, b = (b, a)'], env, 1, False
        yield ['a, b = (u, 1)'], env | {'a', 'b'}, 1, False
        if budget >= 2 and depth < 2:
            inner = dict(flags, depth=depth + 1)
            for c in self.conds(env):
                # one-armed if
                for body, _, cost in self.block(env, budget - 1, inner):
                    yield [f'if {c}:'] + indent(body), env, 1 + cost, False
                # two-armed if: a name introduced by both arms survives
                if budget >= 3:
                    for b1, e1, c1 in self.block(env, budget - 2, inner):
                        for b2, e2, c2 in self.block(env, budget - 1 - c1, inner):
                            yield ([f'if {c}:'] + indent(b1) + ['else:'] + indent(b2),
                                   env | (e1 & e2), 1 + c1 + c2, False)
            # for loop (loop variable readable in the body only)
            if not flags.get('loopvar'):
                for body, _, cost in self.block(env, budget - 1, dict(inner, loopvar=True)):
                    yield ['for x in us:'] + indent(body), env, 1 + cost, False
            # while loop with a dedicated counter (one per program)
            if not flags.get('inwhile') and depth == 0 and 'k' not in env:
                for body, _, cost in self.block(env | {'k'}, budget - 1, dict(inner, inwhile=True)):
                    yield (['k = 0', 'while k < n:'] + indent(body + ['k = k + 1']),
                           env | {'k'}, 1 + cost, False)
            # with block: names defined inside stay visible
            if not flags.get('inwith'):
                for body, e1, cost in self.block(env, budget - 1, dict(inner, inwith=True)):
                    yield [f'with {WCTX}:'] + indent(body), e1, 1 + cost, False
        # early return (top level or inside a loop body, not as the very first thing)
        if 'a' in env and depth <= 1 and not flags.get('inwith'):
            yield ['if u > 0:', '    return (a, a)'], env, 1, False


def family_J(size: int, exact: bool = False) -> Iterator[Prog]:
    g = JGrammar()
    n = 0
    for body, env, cost in g.block(frozenset(), size, {}):
        if 'a' not in env or (exact and cost != size):
            continue
        ret = 'return (a, b)' if 'b' in env else 'return (a, a)'
        yield make_prog('J', body + [ret], f'J{cost}', deco=f'@fp.fpy(ctx={FCTX})')
        n += 1


# ----------------------------------------------------------------------
# Family V

V_CONDS = [
    'isnan({x})', 'isinf({x})', 'isfinite({x})', 'isnormal({x})',
    '{x} == 0', '0 == {x}', '{x} != 0', '{x} == 1', '{x} != 1', '{x} < 0', '{x} >= 1', '{x} == v', '{x} < v',
    '0 < {x} < v',
    'not isnan({x})', 'not isinf({x})', 'not ({x} == 0)', 'not ({x} != 0)', 'not ({x} < 0)',
    'isnan({x}) or isinf({x})', 'isnan({x}) or {x} == 0', 'not isnan({x}) and not isinf({x})',
    '{x} == 0 and v == 0', 'not (isnan({x}) or {x} == 0)',
]
V_CONDS_CORE = ['isnan({x})', 'isinf({x})', '{x} == 0', '{x} != 0', 'not isnan({x})', 'not ({x} == 0)',
                'isfinite({x})', '{x} < 0']
V_ARMS = ['{x}', '-{x}', 'abs({x})', '{x} + v', '{x} - {x}', '{x} * v', '{x} * 0', 'logb({x})',
          'min({x}, v)', 'max({x}, 1)', '({x} if v > 0 else v)', '2 ** {x}', 'round({x})', '{x} / v',
          'fma({x}, v, 1)']
V_ARMS_CORE = ['{x}', '{x} + v', '{x} * v', 'logb({x})', 'min({x}, v)']
V_CTXS = [None, 'fp.REAL', 'fp.MPFixedContext(-2)']


def _v_wrap(body: list[str], ctx) -> list[str]:
    return body if ctx is None else [f'with {ctx}:'] + indent(body)


def family_V(tier: str) -> Iterator[Prog]:
    quick = tier == 'quick'
    conds = V_CONDS
    # (1) two-level ladder, same arm expression in every arm, tested variable = argument / copy / phi
    subjects = [('u', []), ('a', ['a = u']), ('a', ['if v > 0:', '    a = u', 'else:', '    a = 0'])]
    for ctx in V_CTXS:
        for x, pre in subjects:
            arms = V_ARMS if x == 'u' else V_ARMS_CORE
            c1s = conds if x == 'u' else (V_CONDS_CORE if quick else conds)
            c2s = conds if (x == 'u' and ctx != 'fp.MPFixedContext(-2)' and not quick) else V_CONDS_CORE
            for c1 in c1s:
                for c2 in c2s:
                    if c1 == c2:
                        continue
                    for arm in arms:
                        if quick and arm not in V_ARMS_CORE and not (c1 in V_CONDS_CORE[:4] and c2 in V_CONDS_CORE[:4]):
                            continue
                        e = arm.format(x=x)
                        lad = [f'if {c1.format(x=x)}:', f'    r = {e}',
                               f'elif {c2.format(x=x)}:', f'    r = {e}',
                               'else:', f'    r = {e}']
                        body = pre + _v_wrap(lad, ctx) + [f'return (r, {x})']
                        yield make_prog('V', body, 'V-ladder2')
    # (2) the three-level ladder isnan / isinf / == 0 and all its permutations and negations
    tests3 = ['isnan({x})', 'isinf({x})', '{x} == 0', 'not isfinite({x})', '{x} != 0', 'not isnan({x})']
    for ctx in (None, 'fp.REAL'):
        for x, pre in subjects[:2]:
            for c1, c2, c3 in itertools.permutations(tests3, 3):
                for arm in ('{x}', 'logb({x})', '{x} * v'):
                    if quick and (x == 'a') != (arm == 'logb({x})'):
                        continue
                    e = arm.format(x=x)
                    lad = [f'if {c1.format(x=x)}:', f'    r = {e}',
                           f'elif {c2.format(x=x)}:', f'    r = {e}',
                           f'elif {c3.format(x=x)}:', f'    r = {e}',
                           'else:', f'    r = {e}', '    s = logb(' + x + ')']
                    body = pre + _v_wrap(lad, ctx) + [f'return (r, {x})']
                    yield make_prog('V', body, 'V-ladder3')
    # (3) nested if (refinements must compose), if-expression, one-armed if with re-definition, loops
    for ctx in (None, 'fp.REAL'):
        for c1 in conds:
            for c2 in (V_CONDS_CORE[:4] if quick else V_CONDS_CORE):
                for arm in (V_ARMS_CORE[:3] if quick else V_ARMS_CORE):
                    e = arm.format(x='u')
                    nest = [f'r = {e}', f'if {c1.format(x="u")}:', f'    if {c2.format(x="u")}:', f'        r = {e}',
                            '    else:', f'        r = {e}', 'else:', f'    if {c2.format(x="u")}:', f'        r = {e}',
                            '    s = u']
                    yield make_prog('V', _v_wrap(nest, ctx) + ['return (r, u)'], 'V-nested')
                    ife = [f'r = ({e} if {c1.format(x="u")} else ({e} if {c2.format(x="u")} else {e}))']
                    yield make_prog('V', _v_wrap(ife, ctx) + ['return (r, u)'], 'V-ifexpr')
            for arm in V_ARMS_CORE:
                e = arm.format(x='a')
                # re-definition inside the arm: the refinement must not follow the new value
                redef = ['a = u', f'if {c1.format(x="a")}:', '    a = v', f'    r = {e}', 'else:', f'    r = {e}',
                         f't = {e}']
                yield make_prog('V', _v_wrap(redef, ctx) + ['return (r, t, a)'], 'V-redef')
                one = ['a = u', 'r = v', f'if {c1.format(x="a")}:', f'    r = {e}', '    a = 0', f't = {e}']
                yield make_prog('V', _v_wrap(one, ctx) + ['return (r, t, a)'], 'V-if1')
                loop = ['a = u', 'r = v', 'k = 0', f'while k < n and ({c1.format(x="a")}):', f'    r = {e}',
                        '    a = a * v', '    k = k + 1', f't = {e}']
                yield make_prog('V', _v_wrap(loop, ctx) + ['return (r, t, a)'], 'V-while')
                forl = ['a = u', 'r = v', 'for x in us:', f'    if {c1.format(x="a")}:', f'        r = {e}',
                        '    a = x', f't = {e}']
                yield make_prog('V', _v_wrap(forl, ctx) + ['return (r, t, a)'], 'V-for')


# (4) chained comparisons: every operator in every position, a literal (0 and a non-zero constant) at either
# end or in the middle, in both polarities.  A chain that *fails* says nothing about which link broke, so both
# tested variables are read in both arms (`abs` under REAL keeps the class of its operand).
V_OPS = ('==', '!=', '<', '<=', '>', '>=')
V_CHAIN_POOL = [float('nan'), float('inf'), float('-inf'), 0.0, -0.0, 1.0, 2.0, -3.0]


def v_chain_conds() -> Iterator[str]:
    for lit in ('0', '1'):
        for o1 in V_OPS:
            for o2 in V_OPS:
                yield f'{lit} {o1} u {o2} v'            # literal first
                yield f'u {o1} {lit} {o2} v'            # literal in the middle
                yield f'u {o1} v {o2} {lit}'            # literal last
                for o3 in ('!=', '<='):
                    yield f'{lit} {o1} u {o2} v {o3} 2'  # three links


def family_V_chain() -> Iterator[Prog]:
    arm = '(abs(u), abs(v))'
    for c in v_chain_conds():
        body = ['with fp.REAL:', f'    if {c}:', f'        r = {arm}', '    else:', f'        r = {arm}', 'return r']
        yield make_prog('V', body, 'V-chain')
        body = ['with fp.REAL:', f'    if not ({c}):', f'        r = {arm}', '    else:', f'        r = {arm}', 'return r']
        yield make_prog('V', body, 'V-chain')
        body = ['with fp.REAL:', f'    r = ({arm} if {c} else {arm})', f'    s = ({arm} if not ({c}) else {arm})',
                'return (r, s)']
        yield make_prog('V', body, 'V-chain')


# ----------------------------------------------------------------------
# Family P: loop-carried constants.  Names initialised to constants before a loop and re-defined in its body
# by tuple-destructuring (swap, Fibonacci step, partial `a, _ = ...`) and plain assignments, read later in the
# body and after the loop, under a pinned context so that the first pass of a loop fixpoint *can* fold them.
# Whatever a later pass can no longer fold must not stay recorded as a constant.

P_STMTS = [
    ['a, b = (b, a)'],
    ['a, b = (b, a + b)'],
    ['a, b = (a + 1, b)'],
    ['b, a = (a, b + 1)'],
    ['a, _ = (b, a)'],
    ['a, b = (b, 1)'],
    ['s = s + a'],
    ['s = b'],
    ['a = a + 1'],
    ['if u > 0:', '    a, b = (b, a + b)'],
    ['if u > 0:', '    a, b = (b, a)', 'else:', '    s = s + b'],
]
P_INITS = [('1', '1'), ('1', '2'), ('0', '1')]


def family_P() -> Iterator[Prog]:
    bodies = [[x] for x in P_STMTS] + [[x, y] for x in P_STMTS for y in P_STMTS]
    for ia, ib in P_INITS:
        for body in bodies:
            lines = [ln for st in body for ln in st]
            pre = [f'a = {ia}', f'b = {ib}', 's = 0']
            post = ['t = a + b', 'return (a, b, s, t)']
            yield make_prog('P', pre + ['for i in range(n):'] + indent(lines) + post, 'P-for',
                            deco=f'@fp.fpy(ctx={FCTX})')
            yield make_prog('P', pre + ['k = 0', 'while k < n:'] + indent(lines + ['k = k + 1']) + post, 'P-while',
                            deco=f'@fp.fpy(ctx={FCTX})')


# ----------------------------------------------------------------------
# Family L

class LGrammar(Grammar):
    """env holds the defined local names; kinds are fixed by name:
    xs ys row : list[real]    xss yss : list[list[real]]    t : tuple[list, list]    a : real"""

    L1_VARS = ('xs', 'ys', 'row')
    L2_VARS = ('xss', 'yss')

    def __init__(self, core: bool):
        self.core = core

    def l1_sources(self, env):
        return (['us'] if self.core else ['us', 'vs']) + [v for v in self.L1_VARS if v in env]

    def l2_sources(self, env):
        return ['uss'] + [v for v in self.L2_VARS if v in env]

    def l1_exprs(self, env, tgt):
        l1 = [s for s in self.l1_sources(env)]
        l2 = self.l2_sources(env)
        out = []
        for s in l1:
            if s != tgt or True:
                out.append(s)                                   # binding
        for s2 in l2:
            out.append(f'{s2}[0]')                               # indexing
            if not self.core:
                out.append(f'{s2}[1]')
        out.append('[1, 2]')                                     # constant construction
        if not self.core:
            out.append('[u, 1]')
        for s in l1[-1:] if self.core else l1:
            out.append(f'{s}[:]')                                # slicing (fresh spine)
            if not self.core:
                out.append(f'{s}[1:]')
                out.append(f'[x for x in {s}]')
        if 't' in env:
            out.append('fst(t)')                                 # tuple field
            if not self.core:
                out.append('snd(t)')
        # if-expression
        if len(l1) >= 2:
            out.append(f'({l1[-1]} if u > 0 else {l1[0]})')
            if not self.core and len(l1) >= 3:
                out.append(f'({l1[-1]} if u > 0 else {l1[-2]})')
        return out

    def l2_exprs(self, env, tgt):
        l1 = self.l1_sources(env)
        l2 = self.l2_sources(env)
        out = list(l2)                                           # binding
        out.append(f'[{l1[-1]}, {l1[0]}]')                       # construction
        if not self.core:
            out.append(f'[{l1[-1]}, {l1[-1]}]')
            out.append(f'[{l1[-1]}]')
        for s2 in l2:
            out.append(f'{s2}[0:1]')                             # slice: fresh spine, same rows
            out.append(f'[r for r in {s2}]')                     # comprehension variable
            if not self.core:
                out.append(f'{s2}[:]')
                out.append(f'[[x for x in r] for r in {s2}]')    # fresh rows
                out.append(f'[r for i, r in enumerate({s2})]')
                out.append(f'[p for p, q in zip({s2}, {s2})]')
                out.append(f'({s2} if u > 0 else [{l1[0]}])')
        return out

    def stmt(self, env, budget, flags):
        depth = flags.get('depth', 0)
        l1 = self.l1_sources(env)
        l2 = self.l2_sources(env)
        for tgt in ('xs', 'ys'):
            if tgt == 'ys' and 'xs' not in env:
                continue            # symmetry: the two names are interchangeable
            for e in self.l1_exprs(env, tgt):
                if e == tgt:
                    continue
                yield [f'{tgt} = {e}'], env | {tgt}, 1, False
        for tgt in ('xss', 'yss'):
            if tgt == 'yss' and 'xss' not in env:
                continue
            for e in self.l2_exprs(env, tgt):
                if e == tgt:
                    continue
                yield [f'{tgt} = {e}'], env | {tgt}, 1, False
        # tuple pack / unpack
        yield [f't = ({l1[-1]}, {l1[0]})'], env | {'t'}, 1, False
        if 't' in env:
            yield ['xs, ys = t'], env | {'xs', 'ys'}, 1, False
        if not self.core:
            yield [f'xs, ys = ({l1[0]}, {l1[-1]})'], env | {'xs', 'ys'}, 1, False
        # element stores
        for s in l1:
            yield [f'{s}[0] = 5'], env, 1, False
        for s2 in l2:
            yield [f'{s2}[0] = {l1[-1]}'], env, 1, False
            if not self.core:
                yield [f'{s2}[0][0] = 7'], env, 1, False
        # iteration
        if budget >= 2 and depth < 1:
            inner = dict(flags, depth=depth + 1)
            for s2 in l2:
                for body, _, cost in self.block(env | {'row'}, budget - 1, inner):
                    yield [f'for row in {s2}:'] + indent(body), env, 1 + cost, False
            if not self.core:
                for body, _, cost in self.block(env | {'row'}, budget - 1, inner):
                    yield ['for i, row in enumerate(uss):'] + indent(body), env, 1 + cost, False
                for body, _, cost in self.block(env | {'row'}, budget - 1, inner):
                    yield ['for row, q in zip(uss, uss):'] + indent(body), env, 1 + cost, False
            # branches (list-valued phis)
            for body, _, cost in self.block(env, budget - 1, inner):
                yield ['if u > 0:'] + indent(body), env, 1 + cost, False
            if budget >= 3:
                for b1, e1, c1 in self.block(env, budget - 2, inner):
                    for b2, e2, c2 in self.block(env, budget - 1 - c1, inner):
                        yield (['if u > 0:'] + indent(b1) + ['else:'] + indent(b2),
                               env | (e1 & e2), 1 + c1 + c2, False)


def _l_return(env) -> str:
    names = [v for v in ('xs', 'ys', 'xss', 'yss', 't') if v in env]
    names += ['us', 'vs', 'uss']
    return 'return (' + ', '.join(names) + ')'


def family_L(size: int, core: bool, exact: bool = False) -> Iterator[Prog]:
    g = LGrammar(core)
    for body, env, cost in g.block(frozenset(), size, {}):
        if exact and cost != size:
            continue
        # `row` defined by a loop is not readable afterwards
        yield make_prog('L', body + [_l_return(env - {'row'})], f'L{cost}{"c" if core else ""}')


# ----------------------------------------------------------------------
# Family T: lists whose elements are *tuples holding lists* (and tuples of lists), pushed through every alias
# route.  base -> route -> reach the inner list through the routed value -> reach it through the base under
# another name; both names stay live, so the `is` oracle sees one object held by two definitions.

# (construction of ps, projection that yields the inner list, destructuring pattern with `{x}` the list)
T_BASES = [
    ('ps = [(us, 1), (vs, 2)]', 'fst', '{x}, w'),                # list of (list, scalar)
    ('ps = [(1, us), (2, vs)]', 'snd', 'w, {x}'),                # list of (scalar, list)
    ('ps = zip(uss, us)', 'fst', '{x}, w'),                      # rows paired with scalars
    ('ps = enumerate(uss)', 'snd', 'w, {x}'),                    # (index, row)
    ('ps = [(r, 1) for r in uss]', 'fst', '{x}, w'),             # comprehension-built tuples
    ('ps = [(us, vs), (vs, us)]', 'fst', '{x}, w'),              # list of tuples of lists
    ('ps = [(us, vs), (vs, us)]', 'snd', 'w, {x}'),
]
T_ROUTES = [
    'qs = ps', 'qs = ps[0:1]', 'qs = ps[:]', 'qs = ps[1:]', 'qs = [p for p in ps]', 'qs = [ps[0]]',
    'qs = (ps if u > 0 else ps[0:1])', 'qs = (ps[0:1] if u > 0 else ps[:])', 'qs = ps[0:2][0:1]',
    'qs = [p for p in ps[0:1]]', 'qs = [(fst(p), snd(p)) for p in ps]', 'qs = [p for i, p in enumerate(ps[:])]',
    'qs = [p for p, q in zip(ps[0:1], ps[0:1])]',
]


def _t_reach(src: str, x: str, proj: str, pat: str) -> list[list[str]]:
    """ways to bind the inner list of `src` (a list of tuples) to the name `x`"""
    return [
        [f'{x} = {proj}({src}[0])'],                                      # index + field
        [f'{pat.format(x=x)} = {src}[0]'],                                # destructuring assignment
        [f't{x} = {src}[0]', f'{x} = {proj}(t{x})'],                      # tuple name, then field
        [f'{x} = [{proj}(p) for p in {src}][0]'],                         # comprehension variable + field
        [f'{x} = [{x} for {pat.format(x=x)} in {src}][0]'],               # destructuring comprehension target
        [f'for {pat.format(x=x)} in {src}:', f'    a{x} = len({x})'],    # destructuring for target
        [f'{x}s = {src}[0:1]', f'{x} = {proj}({x}s[0])'],                 # one more slice on the way
    ]


def family_T() -> Iterator[Prog]:
    for base, proj, pat in T_BASES:
        for route in T_ROUTES:
            for r1 in _t_reach('qs', 'xs', proj, pat):
                for r2 in _t_reach('ps', 'ys', proj, pat)[:4] + [[]]:
                    for store in ([], ['us[0] = 5']):
                        if store and r2:
                            continue
                        body = [base, route] + r1 + r2 + store + ['return len(us) + len(vs)']
                        yield make_prog('T', body, 'T')


# ----------------------------------------------------------------------
# Family Z

class ZGrammar(Grammar):
    """xs ys : list[real]; zs : list of pairs; i : real"""

    def __init__(self, core: bool):
        self.core = core

    def lists(self, env):
        return ['us', 'vs'] + [v for v in ('xs', 'ys') if v in env]

    def list_exprs(self, env):
        ls = self.lists(env)
        out = []
        for s in ([x for x in ls if x != 'vs'] if self.core else ls):
            out.append(s)
            out.append(f'{s}[:]')
            out.append(f'{s}[1:]')
            out.append(f'{s}[0:2]')
            out.append(f'{s}[n:n + 2]')
            out.append(f'[x + 1 for x in {s}]')
            if not self.core:
                out.append(f'{s}[n + 1:n + 2]')
                out.append(f'{s}[1:len({s})]')
                out.append(f'range(len({s}))')
                out.append(f'g_id({s})')
        out += ['[1, 2, 3]', 'range(n)', 'range(3)', 'range(1, 3)', 'g_two()']
        a, b = ls[-1], ls[0]
        out.append(f'[p + q for p, q in zip({a}, {b})]')
        out.append('[x + y for x in us for y in vs]')      # arguments only: iterating it on a local squares the length
        out.append(f'({a} if u > 0 else {b})')
        out.append(f'({a} if u > 0 else [p for p, q in zip({a}, {b})])')
        if not self.core:
            out += ['range(0, n, 2)', 'range(n, 3)', f'[i for i, x in enumerate({a})]',
                    f'[[x, y] for x, y in zip({a}, {b})][0]']
        return out

    def stmt(self, env, budget, flags):
        depth = flags.get('depth', 0)
        ls = self.lists(env)
        for tgt in ('xs', 'ys'):
            if tgt == 'ys' and 'xs' not in env:
                continue            # symmetry: the two names are interchangeable
            for e in self.list_exprs(env):
                if e == tgt:
                    continue
                yield [f'{tgt} = {e}'], env | {tgt}, 1, False
        a, b = ls[-1], ls[0]
        pairs = [(a, b)] if self.core else [(a, b), (ls[-1], ls[-2]), ('us', 'vs')]
        seen = set()
        for p, q in pairs:
            if (p, q) in seen or p == q:
                continue
            seen.add((p, q))
            yield [f'zs = zip({p}, {q})'], env | {'zs'}, 1, False
            yield [f'assert len({p}) == len({q})'], env, 1, False
            if not self.core:
                yield [f'assert len({p}) == len({q}) and len({q}) == 2'], env, 1, False
        yield [f'assert len({a}) == 2'], env, 1, False
        yield [f'zs = enumerate({a})'], env | {'zs'}, 1, False
        if not flags.get('inreal') and budget >= 2:
            for body, e1, cost in self.block(env, budget - 1, dict(flags, inreal=True)):
                yield ['with fp.REAL:'] + indent(body), e1, 1 + cost, False
        if depth == 0:
            yield ['if u > 0:', '    return 0'], env, 1, False
            if not self.core:
                yield ['if len(us) != len(vs):', '    return 0'], env, 1, False
        if budget >= 2 and depth < 1:
            inner = dict(flags, depth=depth + 1)
            for body, _, cost in self.block(env, budget - 1, inner):
                yield ['if u > 0:'] + indent(body), env, 1 + cost, False
                yield ['for x in us:'] + indent(body), env, 1 + cost, False
                if not self.core:
                    yield ['k = 0', 'while k < n:'] + indent(body + ['k = k + 1']), env, 1 + cost, False
            if budget >= 3:
                for b1, e1, c1 in self.block(env, budget - 2, inner):
                    for b2, e2, c2 in self.block(env, budget - 1 - c1, inner):
                        yield (['if u > 0:'] + indent(b1) + ['else:'] + indent(b2),
                               env | (e1 & e2), 1 + c1 + c2, False)


def _z_return(env) -> str:
    terms = [f'len({v})' for v in ('xs', 'ys', 'zs') if v in env] + ['len(us)', 'len(vs)']
    return 'return ' + ' + '.join(terms)


def family_Z(size: int, core: bool, exact: bool = False) -> Iterator[Prog]:
    g = ZGrammar(core)
    for body, env, cost in g.block(frozenset(), size, {}):
        if exact and cost != size:
            continue
        yield make_prog('Z', body + [_z_return(env)], f'Z{cost}{"c" if core else ""}', helpers=True)


# ----------------------------------------------------------------------
# inputs

# ----------------------------------------------------------------------
# Family S: comprehension targets that shadow a visible name
#
# The comprehension's binding ends with the comprehension: every read of the shadowed name that
# follows it -- in the same expression, the same statement or the next one -- observes the outer
# definition again (and has the outer definition's type / class / constant).

# (prelude, shadowed name N, kind of N, iterables whose element type equals / differs from N's type)
S_BINDINGS = [
    ([], 'u', 'real', ['us', 'bs', 'zip(us, vs)']),                       # parameter
    (['x = u + 1'], 'x', 'real', ['us', 'bs', 'zip(us, vs)']),           # earlier local
    (['x = u > 0'], 'x', 'bool', ['bs', 'us', 'zip(bs, us)']),           # earlier local, bool
    ([], 'us', 'list', ['uss', 'us', 'bs']),                              # list parameter (also its own iterable)
]
S_ELTS = ['{n}', '0']          # the element reads the target / does not
# how a value of each kind is used as an operand next to `len(C)` and as a loop guard
S_SIBLING = {'real': 'len({c}) + {n}', 'bool': 'len({c}) > 0 and {n}', 'list': 'len({c}) + len({n})'}
S_GUARD = {'real': '{n} < 100', 'bool': '{n}', 'list': 'len({n}) > 0'}


def _s_shapes(n: str, kind: str, c: str, it: str) -> Iterator[tuple[str, list[str]]]:
    tail = [f'r = {n}', 'return (t, r)']
    yield 'sibling', [f't = {S_SIBLING[kind].format(c=c, n=n)}'] + tail
    yield 'tuple', [f't = (len({c}), {n})'] + tail
    yield 'comp2', [f't = (len({c}), [{n} for w in {it}])'] + tail
    yield 'ifexpr', [f't = ({n} if len({c}) > 0 else {n})'] + tail
    yield 'return', [f'return (len({c}), {n})']
    yield 'while', ['i = 0', f't = {n}', f'while i < len({c}) and {S_GUARD[kind].format(n=n)}:',
                    f'    t = {n}', '    i = i + 1'] + tail


def family_S() -> Iterator[Prog]:
    for prelude, n, kind, its in S_BINDINGS:
        for it in its:
            pat = f'{n}, w' if it.startswith('zip') else n
            pre = (['bs = [u > 0, v > 0]'] if 'bs' in it else []) + prelude
            for elt in S_ELTS:
                c = f'[{elt.format(n=n)} for {pat} in {it}]'
                for shape, body in _s_shapes(n, kind, c, it):
                    yield make_prog('S', pre + body, 'S-' + shape)


NAN, INF = float('nan'), float('inf')

POOLS = {
    'J': {'u': [-1.0, 0.0, 2.0], 'v': [1.0], 'n': [0, 1, 2], 'us': [[], [1.0], [1.0, -2.0]],
          'vs': [[1.0]], 'uss': [[[1.0]]]},
    'V': {'u': [NAN, INF, -INF, 0.0, -0.0, 1.0, 1.5, -2.0, 5e-324], 'v': [NAN, INF, 0.0, 1.0, -3.0],
          'n': [0, 2], 'us': [[], [0.0, NAN]], 'vs': [[1.0]], 'uss': [[[1.0]]]},
    'P': {'u': [-1.0, 1.0], 'v': [1.0], 'n': [0, 1, 2, 3, 4], 'us': [[1.0]], 'vs': [[1.0]], 'uss': [[[1.0]]]},
    'T': {'u': [-1.0, 1.0], 'v': [1.0], 'n': [0], 'us': [[1.0, 2.0]], 'vs': [[7.0, 8.0, 9.0]],
          'uss': [[[3.0], [4.0, 5.0]]]},
    'L': {'u': [-1.0, 1.0], 'v': [1.0], 'n': [0, 1],
          'us': [[1.0, 2.0]], 'vs': [[7.0, 8.0, 9.0]],
          'uss': [[[3.0], [4.0, 5.0]], [[3.0, 6.0]]]},
    'S': {'u': [-1.0, 3.0], 'v': [1.0], 'n': [0], 'us': [[], [7.0, 8.0]], 'vs': [[5.0, 6.0]],
          'uss': [[[3.0], [4.0, 5.0]]]},
    'Z': {'u': [-1.0, 1.0], 'v': [1.0], 'n': [0, 1, 2],
          'us': [[1.0, 2.0], [1.0, 2.0, 3.0]], 'vs': [[7.0, 8.0], [9.0]],
          'uss': [[[1.0]]]},
}


V_QUICK_V = [NAN, INF, 0.0, -3.0]      # one value per class


def inputs(prog: Prog, tier: str = 'thorough') -> list[tuple]:
    pool = POOLS[prog.fam]
    if prog.tag == 'V-chain':
        # equal pairs (both zero, both non-zero, both infinite), pairs where only a later link fails, NaNs
        pool = dict(pool, u=V_CHAIN_POOL, v=V_CHAIN_POOL)
    elif tier == 'quick' and prog.fam == 'V':
        pool = dict(pool, v=V_QUICK_V)
    return list(itertools.product(*[pool[a] for a in prog.args]))


# ----------------------------------------------------------------------
# value <-> JSON (replay files)

def enc(v):
    if isinstance(v, list):
        return [enc(x) for x in v]
    if isinstance(v, tuple):
        return {'tuple': [enc(x) for x in v]}
    if isinstance(v, bool):
        return {'bool': v}
    if isinstance(v, int):
        return {'int': v}
    if isinstance(v, float):
        if v != v:
            return {'float': 'nan'}
        return {'float': v.hex() if v not in (INF, -INF) else ('inf' if v > 0 else '-inf')}
    raise TypeError(v)


def dec(j):
    if isinstance(j, list):
        return [dec(x) for x in j]
    if 'tuple' in j:
        return tuple(dec(x) for x in j['tuple'])
    if 'bool' in j:
        return bool(j['bool'])
    if 'int' in j:
        return int(j['int'])
    s = j['float']
    if s in ('nan', 'inf', '-inf'):
        return float(s)
    return float.fromhex(s)


# ----------------------------------------------------------------------
# the declared space per tier

def space(tier: str, seed: int = 0):
    """list of (label, generator factory, slice) -- slice is None (whole) or (k, m)"""
    if tier == 'quick':
        return [
            ('J<=3', lambda: family_J(3), None),
            ('J=4', lambda: family_J(4, True), (seed % 16, 16)),
            ('P', family_P, None),
            ('Vquick', lambda: family_V('quick'), None),
            ('Vchain', family_V_chain, None),
            ('L<=2', lambda: family_L(2, False), None),
            ('L=3core', lambda: family_L(3, True, True), None),
            ('T', family_T, None),
            ('S', family_S, None),
            ('Z<=2', lambda: family_Z(2, False), None),
            ('Z=3core', lambda: family_Z(3, True, True), (seed % 8, 8)),
        ]
    return [
        ('J<=4', lambda: family_J(4), None),
        ('P', family_P, None),
        ('V', lambda: family_V('thorough'), None),
        ('Vchain', family_V_chain, None),
        ('L<=3', lambda: family_L(3, False), None),
        ('T', family_T, None),
        ('S', family_S, None),
        ('Z<=2', lambda: family_Z(2, False), None),
        ('Z=3core', lambda: family_Z(3, True, True), None),
    ]


if __name__ == '__main__':
    import sys
    import time
    for tier in sys.argv[1:] or ['quick', 'thorough']:
        for label, fac, sl in space(tier):
            t = time.time()
            n = 0
            last = None
            for p in fac():
                n += 1
                last = p
            print(tier, label, n, sl, f'{time.time() - t:.1f}s')
            if last is not None and '-v' in sys.argv:
                print(last.src)
