"""
Bounded-exhaustive program enumerator for C11 (compiled C++ == interpreter).

Every program is a module of one or two `@fp.fpy` functions whose entry `f`
takes exactly two parameters:

    (u, v)     two scalars              arg kinds  s32 | s64
    (us, v)    a list and a scalar      arg kinds  l32 | l64 | l64#3 (static length 3)
    (uss, v)   a list of lists + scalar arg kind   ll64

The alphabet is what the C++ backend accepts *and* a C++ toolchain rounds
correctly: + - * / sqrt fma neg abs min max, the six comparisons, and/or/not,
explicit `round` between binary32/binary64 under RNE/RTZ/RTP/RTN `with`
blocks, integer contexts (values kept far from the type's range: signed
overflow and out-of-range float->int conversion are undefined in C++), REAL
arithmetic whose exact result fits a machine type, for/while loops, branches,
early returns, tuples, lists (nested, aliased), helper calls.

The C++ backend refuses an implicit lossy conversion, so generation is
type-directed: each scalar name has a width (32, 64, or 'i' for an integer
context) and an operand wider than the active context is wrapped in `round`.

The space is a finite union of families; each family is a product of small
pools, enumerated in a fixed order.  Each family has a `core` (part of the
quick tier for every seed) and a `full` product (the thorough tier); the quick
tier adds the slice `index % QUICK_SLICE == seed % QUICK_SLICE` of the full
space on top of the core.

A program is described by a JSON-able tuple `(family, *params)`;
`build(desc)` returns the Program (source text, arg kinds, caller context).
"""

from __future__ import annotations

import itertools
import re

# ---------------------------------------------------------------------------
# contexts

RMS = ['E', 'Z', 'P', 'N']
RM_NAME = {'E': 'RNE', 'Z': 'RTZ', 'P': 'RTP', 'N': 'RTN'}
FCTX = [f'F{w}{m}' for w in (64, 32) for m in RMS]          # F64E … F32N
CTX_TEXT = {f'F{w}{m}': f'fp.IEEEContext({11 if w == 64 else 8}, {w}, fp.RM.{RM_NAME[m]})'
            for w in (64, 32) for m in RMS}
ICTX = ['SINT8', 'SINT16', 'SINT32', 'SINT64', 'UINT8', 'UINT16', 'UINT32', 'UINT64', 'INTEGER']
for _n in ICTX:
    CTX_TEXT[_n] = f'fp.{_n}'
CTX_TEXT['REAL'] = 'fp.REAL'

MODULE_PRELUDE = ('from fpy2.libraries import matrix as mx, vector as vx\n'
                  + ''.join(f'{n} = {t}\n' for n, t in CTX_TEXT.items()) + '\n')


def width(c: str) -> int:
    return int(c[1:3])


def rm_of(c: str) -> str:
    """fesetround macro the caller must deliver for an entry context."""
    return {'E': 'FE_TONEAREST', 'Z': 'FE_TOWARDZERO', 'P': 'FE_UPWARD', 'N': 'FE_DOWNWARD'}[c[3]]


def rot(seq, k):
    k %= len(seq)
    return list(seq[k:]) + list(seq[:k])


# ---------------------------------------------------------------------------
# type-directed expressions

BIN = {'add': '{0} + {1}', 'sub': '{0} - {1}', 'mul': '{0} * {1}', 'div': '{0} / {1}',
       'min': 'min({0}, {1})', 'max': 'max({0}, {1})'}
UNA = {'sqrt': 'sqrt({0})', 'neg': '-{0}', 'abs': 'abs({0})'}
OPS10 = ['add', 'sub', 'mul', 'div', 'min', 'max', 'sqrt', 'neg', 'abs', 'fma']
OPS4 = ['add', 'mul', 'div', 'fma']
CMPS = ['<', '<=', '>', '>=', '==', '!=']

# literal pool: (text when the active context is 64 wide, text when 32 wide)
LITS = {
    '1.5': ('1.5', '1.5'),
    '3': ('3', '3'),
    'r0.1': ('round(0.1)', 'round(0.1)'),
    '16777217': ('16777217', 'round(16777217)'),
    'r1e-310': ('round(1e-310)', 'round(1e-310)'),
    '-0.0': ('-0.0', '-0.0'),
    '0.5': ('0.5', '0.5'),
}


class Env:
    """name -> width (32 | 64 | 'i')"""

    def __init__(self, **kw):
        self.w = dict(kw)

    def o(self, name: str, W: int, force: bool = False) -> str:
        """operand text for `name` under a context of width W"""
        if name in LITS:
            return LITS[name][0 if W == 64 else 1]
        w = self.w[name]
        if force:
            return f'round({name})'
        if w == 'i':
            return f'round({name})' if W == 32 else name
        if w > W:
            return f'round({name})'
        return name


def ex(op: str, env: Env, W: int, x: str, y: str, z: str | None = None, force=False) -> str:
    """one operation on operands x, y (z for fma) under width W"""
    if op in BIN:
        return BIN[op].format(env.o(x, W, force), env.o(y, W, force))
    if op in UNA:
        return UNA[op].format(env.o(x, W, force))
    if op == 'fma':
        return 'fma({0}, {1}, {2})'.format(env.o(x, W, force), env.o(y, W, force),
                                           env.o(z or x, W, force))
    raise KeyError(op)


# ---------------------------------------------------------------------------
# program record

ANN = {'s': 'fp.Real', 'l': 'list[fp.Real]', 'll': 'list[list[fp.Real]]'}


def kind_base(k: str) -> str:
    return 'll' if k.startswith('ll') else k[0]


def kind_width(k: str) -> int:
    return int(k.lstrip('ls').split('#')[0])


def kind_size(k: str):
    return int(k.split('#')[1]) if '#' in k else None


def fn(name: str, params: list[tuple[str, str]], body: list[str]) -> str:
    ps = ', '.join(f'{n}: {ANN[kind_base(k)]}' for n, k in params)
    return f'@fp.fpy\ndef {name}({ps}):\n' + ''.join('    ' + ln + '\n' for ln in body) + '\n'


def ind(lines, n=1):
    return ['    ' * n + ln for ln in lines]


class Program:
    __slots__ = ('desc', 'family', 'shape', 'src', 'args', 'ctx', 'wrapper', 'sig')

    def __init__(self, desc, family, shape, src, args, ctx, sig=None):
        self.desc = desc
        self.sig = sig              # optional structural keys that replace diff/shape in a violation signature
        self.family = family
        self.shape = shape          # names the program *class* (goes into violation signatures)
        self.src = src              # functions only; MODULE_PRELUDE is prepended by the loader
        self.args = args            # arg kinds of f, e.g. ['l64', 's64']
        self.ctx = ctx              # context name passed as `ctx=` and to Module.add
        # FPy caller used to learn what a caller sees in its list argument after the call
        self.wrapper = None
        if kind_base(args[0]) != 's':
            p0 = 'us' if kind_base(args[0]) == 'l' else 'uss'
            self.wrapper = fn('w', [(p0, args[0]), ('v', args[1])],
                              [f'r = f({p0}, v)', f'return r, {p0}'])

    def to_json(self):
        return {'desc': list(self.desc), 'family': self.family, 'shape': self.shape, 'src': self.src,
                'args': self.args, 'ctx': self.ctx, 'wrapper': self.wrapper, 'sig': self.sig}


def prog_from_json(d) -> Program:
    p = Program.__new__(Program)
    p.desc = tuple(d['desc'])
    p.family = d['family']
    p.shape = d['shape']
    p.src = d['src']
    p.args = list(d['args'])
    p.ctx = d['ctx']
    p.wrapper = d.get('wrapper')
    p.sig = d.get('sig')
    return p


def scal_env(args) -> Env:
    return Env(u=kind_width(args[0]), v=kind_width(args[1]))


# ---------------------------------------------------------------------------
# families.  Each `fam_X(full: bool)` yields descriptors; `build_X(*params)`
# builds the program.  full=False yields the core (a subset of full=True).

FAMILIES = {}


def family(name):
    def deco(pair_factory):
        gen, build = pair_factory()
        FAMILIES[name] = (gen, build)
        return pair_factory
    return deco


SS = [['s64', 's64'], ['s32', 's32'], ['s32', 's64']]
OUTER = ['F64E', 'F32E', 'F64Z', 'F32P']


@family('A1')          # one operation under one context
def _a1():
    def gen(full):
        if full:
            for c, op, ai, oc in itertools.product(FCTX, OPS10, range(3), OUTER[:3]):
                yield ('A1', c, op, ai, oc)
        else:
            for c, op in itertools.product(FCTX, OPS10):
                yield ('A1', c, op, 0, 'F64E')

    def build(c, op, ai, oc):
        args = SS[ai]
        env = scal_env(args)
        W = width(c)
        body = [f'with {c}:', f'    a = {ex(op, env, W, "u", "v", "u")}', 'return a']
        return Program(('A1', c, op, ai, oc), 'A', f'A1:{op}:w{W}', fn('f', [('u', args[0]), ('v', args[1])], body),
                       args, oc)
    return gen, build


@family('A2')          # two blocks and a tail under the caller's context (mode restored?)
def _a2():
    def gen(full):
        if full:
            for c1, c2, o1, o2, oc in itertools.product(FCTX, FCTX, OPS4, OPS4, ['F64E', 'F32Z']):
                yield ('A2', c1, c2, o1, o2, oc)
        else:
            for i, c1 in enumerate(FCTX):
                c2 = FCTX[(i + 3) % 8]
                for o2 in ('add', 'div'):
                    yield ('A2', c1, c2, 'mul', o2, 'F64E')

    def build(c1, c2, o1, o2, oc):
        args = ['s64', 's64']
        env = scal_env(args)
        W1, W2, WO = width(c1), width(c2), width(oc)
        body = [f'with {c1}:', f'    a = {ex(o1, env, W1, "u", "v", "r0.1")}']
        env.w['a'] = W1
        body += [f'with {c2}:', f'    b = {ex(o2, env, W2, "a", "v", "u")}']
        env.w['b'] = W2
        body += [f'return {ex("add", env, WO, "b", "u")}']
        return Program(('A2', c1, c2, o1, o2, oc), 'A', f'A2:{o1}:{o2}:w{W1}>w{W2}>w{WO}',
                       fn('f', [('u', 's64'), ('v', 's64')], body), args, oc)
    return gen, build


@family('A3')          # nested with: leaving the inner block must return to the outer block's mode
def _a3():
    def gen(full):
        if full:
            for c1, c2, op in itertools.product(FCTX, FCTX, OPS4):
                yield ('A3', c1, c2, op)
        else:
            for i, c1 in enumerate(FCTX):
                yield ('A3', c1, FCTX[(i + 5) % 8], 'add')

    def build(c1, c2, op):
        args = ['s64', 's64']
        env = scal_env(args)
        W1, W2 = width(c1), width(c2)
        body = [f'with {c1}:', f'    a = {ex("mul", env, W1, "u", "v")}']
        env.w['a'] = W1
        body += [f'    with {c2}:', f'        b = {ex(op, env, W2, "a", "v", "u")}']
        env.w['b'] = W2
        body += [f'    c = {ex(op, env, W1, "b", "a", "r0.1")}']
        env.w['c'] = W1
        body += [f'return {ex("div", env, 64, "c", "u")}']
        return Program(('A3', c1, c2, op), 'A', f'A3:{op}:w{W1}>w{W2}', fn('f', [('u', 's64'), ('v', 's64')], body),
                       args, 'F64E')
    return gen, build


@family('A4')          # literal operands, also nested inside an expression
def _a4():
    lits = ['1.5', '3', 'r0.1', '16777217', 'r1e-310', '-0.0']

    def gen(full):
        if full:
            for c, lit, o1, o2, ai in itertools.product(FCTX, lits, OPS4, ['', 'add', 'mul'], (0, 1)):
                yield ('A4', c, lit, o1, o2, ai)
        else:
            for c, lit in itertools.product(['F32E', 'F32Z', 'F64P', 'F32N'], lits):
                yield ('A4', c, lit, 'add', '', 0)
            for c, lit in itertools.product(['F32E', 'F32P', 'F64Z'], ['1.5', 'r0.1', '3']):
                yield ('A4', c, lit, 'mul', 'add', 1)
            for c in ('F32Z', 'F32E', 'F64N'):          # an inexact inner result feeds the outer operation
                yield ('A4', c, '1.5', 'add', 'mul', 1)
            for c in ('F64P', 'F32N'):                  # a product with a signed-zero literal (NaN for inf/NaN operands)
                yield ('A4', c, '-0.0', 'mul', 'add', 0)

    def build(c, lit, o1, o2, ai):
        args = SS[ai]
        env = scal_env(args)
        W = width(c)
        inner = ex(o1, env, W, 'u', lit, 'v')
        if o2:
            e = BIN[o2].format('(' + inner + ')', env.o('3' if lit != '3' else '0.5', W))
        else:
            e = inner
        body = [f'with {c}:', f'    a = {e}', 'return a']
        return Program(('A4', c, lit, o1, o2, ai), 'A', f'A4:{o1}:{o2 or "-"}:lit{lit}:w{W}',
                       fn('f', [('u', args[0]), ('v', args[1])], body), args, 'F64E')
    return gen, build


@family('A5')          # rounds that may or may not be identities (round elimination)
def _a5():
    def gen(full):
        if full:
            for c1, c2, op, ai in itertools.product(FCTX, FCTX, ['add', 'mul', 'sqrt'], range(3)):
                yield ('A5', c1, c2, op, ai)
        else:
            for i, c1 in enumerate(FCTX):
                yield ('A5', c1, FCTX[(i + 4) % 8], 'add', 1)

    def build(c1, c2, op, ai):
        args = SS[ai]
        env = scal_env(args)
        W1, W2 = width(c1), width(c2)
        body = [f'with {c1}:', f'    a = {ex(op, env, W1, "u", "v", force=True)}', '    b = round(a)']
        body += [f'with {c2}:', '    c = round(b)', '    d = round(c) + round(round(u))']
        body += ['return round(d), c']
        return Program(('A5', c1, c2, op, ai), 'A', f'A5:{op}:w{W1}>w{W2}',
                       fn('f', [('u', args[0]), ('v', args[1])], body), args, 'F64E')
    return gen, build


@family('A6')          # expression trees of depth 2 in one statement
def _a6():
    def gen(full):
        if full:
            for c, o1, o2, ai in itertools.product(FCTX, OPS10, OPS4, (0, 1)):
                yield ('A6', c, o1, o2, ai)
        else:
            for c, o1 in itertools.product(['F32Z', 'F64N'], ['mul', 'div', 'fma', 'sqrt']):
                yield ('A6', c, o1, 'add', 0)

    def build(c, o1, o2, ai):
        args = SS[ai]
        env = scal_env(args)
        W = width(c)
        inner = '(' + ex(o1, env, W, 'u', 'v', 'u') + ')'
        if o2 == 'fma':
            e = f'fma({inner}, {env.o("v", W)}, {env.o("u", W)})'
        else:
            e = BIN[o2].format(inner, env.o('v', W))
        body = [f'with {c}:', f'    return {e}']
        return Program(('A6', c, o1, o2, ai), 'A', f'A6:{o1}:{o2}:w{W}',
                       fn('f', [('u', args[0]), ('v', args[1])], body), args, 'F64E')
    return gen, build


# ---- B: branches, early returns, comparisons ------------------------------

@family('B1')          # early return from inside a with block; tail under the caller's mode
def _b1():
    def gen(full):
        if full:
            for c, cmp_, oc in itertools.product(FCTX, CMPS, ['F64E', 'F64P']):
                yield ('B1', c, cmp_, oc)
        else:
            for c, cmp_ in itertools.product(['F32Z', 'F64P'], CMPS):
                yield ('B1', c, cmp_, 'F64E')

    def build(c, cmp_, oc):
        args = ['s64', 's64']
        env = scal_env(args)
        W = width(c)
        body = [f'with {c}:',
                f'    if u {cmp_} v:',
                f'        return {ex("div", env, W, "u", "v")}',
                f'    a = {ex("mul", env, W, "u", "r0.1")}']
        env.w['a'] = W
        body += [f'return {ex("add", env, 64, "a", "u")}']
        return Program(('B1', c, cmp_, oc), 'B', f'B1:early-return:w{W}', fn('f', [('u', 's64'), ('v', 's64')], body),
                       args, oc)
    return gen, build


@family('B2')          # phi of two branches computed at different formats
def _b2():
    cs = ['F32Z', 'F64E', 'F64N', 'F32P']

    def gen(full):
        if full:
            for c1, c2, cmp_ in itertools.product(cs, cs, CMPS):
                yield ('B2', c1, c2, cmp_)
        else:
            for c1, c2 in [('F32Z', 'F64N'), ('F64E', 'F32P'), ('F32P', 'F32Z'), ('F64N', 'F64E')]:
                yield ('B2', c1, c2, '<')

    def build(c1, c2, cmp_):
        args = ['s64', 's64']
        env = scal_env(args)
        W1, W2 = width(c1), width(c2)
        body = [f'if u {cmp_} v:', f'    with {c1}:', f'        a = {ex("add", env, W1, "u", "v")}',
                'else:', f'    with {c2}:', f'        a = {ex("div", env, W2, "u", "v")}',
                'return a * u']
        return Program(('B2', c1, c2, cmp_), 'B', f'B2:phi:w{W1}|w{W2}', fn('f', [('u', 's64'), ('v', 's64')], body),
                       args, 'F64E')
    return gen, build


@family('B3')          # if-expressions, and / or / not, booleans returned
def _b3():
    def gen(full):
        if full:
            for c, c1, c2 in itertools.product(['F64E', 'F32Z', 'F64P', 'F32N'], CMPS, CMPS):
                yield ('B3', c, c1, c2)
        else:
            for i, c1 in enumerate(CMPS):
                yield ('B3', 'F64P', c1, CMPS[(i + 2) % 6])

    def build(c, c1, c2):
        args = ['s64', 's64']
        env = scal_env(args)
        W = width(c)
        body = [f'with {c}:',
                f'    a = {ex("div", env, W, "u", "v")} if (u {c1} v and not (v {c2} 1.5)) else {ex("mul", env, W, "u", "v")}',
                f'    p = u {c1} v or not (v {c2} u)',
                f'return a, p, not p, u {c1} v {c2} 1.5']
        return Program(('B3', c, c1, c2), 'B', f'B3:ifexp-bool:w{W}', fn('f', [('u', 's64'), ('v', 's64')], body),
                       args, 'F64E')
    return gen, build


@family('B4')          # early return two scopes deep; fall-through continues in the outer scope
def _b4():
    def gen(full):
        if full:
            for c1, c2, cmp_ in itertools.product(FCTX, FCTX, ['<', '!=']):
                yield ('B4', c1, c2, cmp_)
        else:
            for i, c1 in enumerate(FCTX):
                yield ('B4', c1, FCTX[(i + 3) % 8], '<')

    def build(c1, c2, cmp_):
        args = ['s64', 's64']
        env = scal_env(args)
        W1, W2 = width(c1), width(c2)
        body = [f'with {c1}:',
                f'    with {c2}:',
                f'        b = {ex("mul", env, W2, "u", "r0.1")}',
                f'        if u {cmp_} v:',
                '            return b']
        env.w['b'] = W2
        body += [f'    a = {ex("add", env, W1, "b", "v")}']
        env.w['a'] = W1
        body += [f'return {ex("div", env, 64, "a", "v")}']
        return Program(('B4', c1, c2, cmp_), 'B', f'B4:nested-early-return:w{W1}>w{W2}',
                       fn('f', [('u', 's64'), ('v', 's64')], body), args, 'F64E')
    return gen, build


# ---- C: loops --------------------------------------------------------------

LK = ['l64', 'l32', 'l64#3']


@family('C1')          # fold over a list
def _c1():
    ops = ['add', 'mul', 'fma', 'max', 'sub', 'div']

    def gen(full):
        if full:
            for c, op, lk, form in itertools.product(FCTX, ops, LK, ('each', 'index')):
                yield ('C1', c, op, lk, form)
        else:
            for c, op in itertools.product(['F64E', 'F32Z', 'F64P', 'F32N'], ['add', 'fma']):
                yield ('C1', c, op, 'l64', 'each')
            yield ('C1', 'F64Z', 'mul', 'l64#3', 'index')
            yield ('C1', 'F32E', 'add', 'l32', 'index')

    def build(c, op, lk, form):
        args = [lk, 's64']
        W = width(c)
        env = Env(v=64, x=kind_width(lk), acc=W)
        body = [f'with {c}:', f'    acc = {env.o("v", W)}']
        if form == 'each':
            body += ['    for x in us:', f'        acc = {ex(op, env, W, "acc", "x", "acc")}']
        else:
            body += ['    for i in range(len(us)):', '        x = us[i]',
                     f'        acc = {ex(op, env, W, "acc", "x", "acc")}']
        body += ['    return acc']
        return Program(('C1', c, op, lk, form), 'C', f'C1:fold-{form}:{op}:w{W}:{lk}',
                       fn('f', [('us', lk), ('v', 's64')], body), args, 'F64E')
    return gen, build


@family('C2')          # with-block inside a loop body (save/restore per iteration)
def _c2():
    def gen(full):
        if full:
            for c1, c2, op in itertools.product(FCTX, FCTX, ['add', 'mul']):
                yield ('C2', c1, c2, op)
        else:
            for i, c1 in enumerate(FCTX[::2]):
                yield ('C2', c1, FCTX[(2 * i + 3) % 8], 'add')

    def build(c1, c2, op):
        args = ['l64', 's64']
        W1, W2 = width(c1), width(c2)
        env = Env(v=64, x=64, acc=W1, t=W2)
        body = [f'with {c1}:', f'    acc = {env.o("v", W1)}',
                '    for x in us:',
                f'        with {c2}:',
                f'            t = {ex(op, env, W2, "acc", "x")}',
                f'        acc = {ex("add", env, W1, "t", "r0.1")}',
                '    return acc']
        return Program(('C2', c1, c2, op), 'C', f'C2:with-in-loop:{op}:w{W1}>w{W2}',
                       fn('f', [('us', 'l64'), ('v', 's64')], body), args, 'F64E')
    return gen, build


@family('C3')          # while loop with a counter computed in the float context
def _c3():
    def gen(full):
        for c in (FCTX if full else ['F64E', 'F32P']):
            yield ('C3', c)

    def build(c):
        args = ['s64', 's64']
        W = width(c)
        env = Env(u=64, v=64, acc=W)
        body = [f'with {c}:', '    k = 0.0', f'    acc = {env.o("v", W)}',
                '    while k < 3:',
                f'        acc = acc * {env.o("u", W)} + acc',
                '        k = k + 1',
                '    return acc, k']
        return Program(('C3', c), 'C', f'C3:while:w{W}', fn('f', [('u', 's64'), ('v', 's64')], body), args, 'F64E')
    return gen, build


@family('C4')          # early return from inside a loop inside a with block
def _c4():
    def gen(full):
        if full:
            for c, cmp_, oc in itertools.product(FCTX, ['<', '>=', '!='], ['F64E', 'F64N']):
                yield ('C4', c, cmp_, oc)
        else:
            for c, cmp_ in [('F32Z', '<'), ('F64P', '>='), ('F64N', '!='), ('F32E', '<')]:
                yield ('C4', c, cmp_, 'F64E')

    def build(c, cmp_, oc):
        args = ['l64', 's64']
        W = width(c)
        env = Env(v=64, x=64, acc=W)
        body = [f'with {c}:', f'    acc = {env.o("r0.1", W)}',
                '    for x in us:',
                f'        if x {cmp_} v:',
                '            return acc',
                f'        acc = {ex("add", env, W, "acc", "x")}']
        body += [f'return {ex("mul", env, 64, "acc", "v")}']
        return Program(('C4', c, cmp_, oc), 'C', f'C4:loop-early-return:w{W}',
                       fn('f', [('us', 'l64'), ('v', 's64')], body), args, oc)
    return gen, build


@family('C5')          # comprehension, then in-place update in an index loop; list returned
def _c5():
    def gen(full):
        if full:
            for c, op, lk in itertools.product(FCTX, OPS4, LK):
                yield ('C5', c, op, lk)
        else:
            for c, op, lk in [('F64E', 'mul', 'l64'), ('F32Z', 'add', 'l64'), ('F64P', 'div', 'l64#3'),
                              ('F32N', 'fma', 'l32')]:
                yield ('C5', c, op, lk)

    def build(c, op, lk):
        args = [lk, 's64']
        W = width(c)
        env = Env(v=64, x=kind_width(lk), y=W)
        body = [f'with {c}:',
                f'    ys = [{ex(op, env, W, "x", "v", "x")} for x in us]',
                '    for i in range(len(ys)):',
                f'        ys[i] = ys[i] - {"round(us[i])" if kind_width(lk) > W else "us[i]"}',
                '    return ys, len(ys)']
        return Program(('C5', c, op, lk), 'C', f'C5:comprehension:{op}:w{W}:{lk}',
                       fn('f', [('us', lk), ('v', 's64')], body), args, 'F64E')
    return gen, build


# ---- D: tuples -------------------------------------------------------------

@family('D1')
def _d1():
    shapes = ['nest', 'destructure', 'ifexp', 'zip', 'listof', 'sum', 'enumerate']

    def gen(full):
        if full:
            for sh, c, op in itertools.product(shapes, FCTX, ['add', 'div']):
                yield ('D1', sh, c, op)
        else:
            for i, sh in enumerate(shapes):
                yield ('D1', sh, FCTX[(3 * i + 1) % 8], 'add')
                yield ('D1', sh, FCTX[(3 * i + 6) % 8], 'div')

    def build(sh, c, op):
        W = width(c)
        if sh in ('sum', 'enumerate'):
            lk = 'l32' if W == 32 else 'l64'
            env = Env(v=64, x=W, acc=W)
            if sh == 'sum':
                body = [f'with {c}:', f'    return sum(us), sum([{ex(op, env, W, "x", "v")} for x in us])']
            else:
                body = [f'with {c}:', f'    acc = {env.o("v", W)}', '    k = 0',
                        '    for i, x in enumerate(us):',
                        f'        acc = {ex(op, env, W, "acc", "x")}', '        k = i',
                        '    return acc, k']
            return Program(('D1', sh, c, op), 'D', f'D1:{sh}:w{W}', fn('f', [('us', lk), ('v', 's64')], body),
                           [lk, 's64'], 'F64E')
        if sh in ('zip', 'listof'):
            args = ['l64', 's64']
            env = Env(v=64, x=64, y=64)
            if sh == 'zip':
                body = [f'with {c}:', f'    acc = {env.o("v", W)}',
                        '    for x, y in zip(us, us):',
                        f'        acc = acc + {ex(op, env, W, "x", "y")}',
                        '    return acc, len(us)']
            else:
                body = [f'with {c}:',
                        f'    ts = [({env.o("x", W)}, {ex(op, env, W, "x", "v")}) for x in us]',
                        '    return ts']
            return Program(('D1', sh, c, op), 'D', f'D1:{sh}:w{W}', fn('f', [('us', 'l64'), ('v', 's64')], body),
                           args, 'F64E')
        args = ['s64', 's64']
        env = scal_env(args)
        e1 = ex(op, env, W, 'u', 'v')
        e2 = ex('mul', env, W, 'u', 'r0.1')
        if sh == 'nest':
            body = [f'with {c}:', f'    t = ({e1}, ({e2}, u < v))', '    return t, u == v']
        elif sh == 'destructure':
            body = [f'with {c}:', f'    t = ({e1}, {e2})', '    p, q = t', '    return q, p, (q, p)']
        else:
            body = [f'with {c}:', f'    a = {e1}', f'    b = {e2}',
                    '    t = (a, b) if u <= v else (b, a)', '    p, q = t', '    return p - q, t']
        return Program(('D1', sh, c, op), 'D', f'D1:{sh}:w{W}', fn('f', [('u', 's64'), ('v', 's64')], body),
                       args, 'F64E')
    return gen, build


# ---- D2: an alias of a whole aggregate (`s = t`), then `t` is REBOUND on a path that joins the first definition ----

D2_AGG = {
    # kind: (initial value, rebind from the parts of the alias, read the alias -> scalar expressions, parts binding)
    'tup': dict(init='({U}, {V})', parts='p, q = s', new='(q, {Epq})', rd='a, b = s', vals=('a', 'b'),
                new2='({Euv}, {U})', cur='c, d = t', curvals=('c', 'd')),
    'tuplist': dict(init='([{U}, {V}], {U})', parts='ps, q = s', new='([q, {Ep0q}], ps[1])', rd='aa, b = s',
                    vals=('aa[0]', 'b'), new2='([{Euv}, {V}], {V})', cur='cc, d = t', curvals=('cc[1]', 'd')),
    'list': dict(init='[{U}, {V}]', parts='', new='[s[1], {Es}]', rd='', vals=('s[0]', 's[1]'),
                 new2='[{Euv}, {U}]', cur='', curvals=('t[0]', 't[1]')),
}
D2_CTRL = ['for', 'while', 'for-outer', 'if', 'ifelse']


@family('D2')
def _d2():
    def gen(full):
        if full:
            for agg, ctl, c, op in itertools.product(D2_AGG, D2_CTRL, ['F64E', 'F32Z', 'F64P', 'F32N'], ['add', 'mul']):
                yield ('D2', agg, ctl, c, op)
        else:
            for agg, ctl in itertools.product(D2_AGG, D2_CTRL):
                yield ('D2', agg, ctl, 'F64E', 'add')

    def build(agg, ctl, c, op):
        W = width(c)
        env = Env(u=64, v=64, p=W, q=W)
        env.w['ps[0]'] = W
        env.w['s[0]'] = W
        env.w['s[1]'] = W
        sub = {'U': env.o('u', W), 'V': env.o('v', W), 'Euv': ex(op, env, W, 'u', 'v'),
               'Epq': ex(op, env, W, 'p', 'q'), 'Ep0q': ex(op, env, W, 'ps[0]', 'q'), 'Es': ex(op, env, W, 's[0]', 's[1]')}
        A = {k: (v.format(**sub) if isinstance(v, str) else v) for k, v in D2_AGG[agg].items()}
        opt = lambda ln: [ln] if ln else []          # noqa: E731
        step = ['s = t'] + opt(A['parts']) + [f't = {A["new"]}'] + opt(A['rd']) + [f'acc = acc + {A["vals"][0]}']
        if ctl == 'for':
            lines = [f't = {A["init"]}', f'acc = {sub["V"]}', 'for _ in range(3):'] + ind(step) + \
                    opt(A['cur']) + [f'return acc, {A["curvals"][0]}, {A["curvals"][1]}']
        elif ctl == 'while':
            lines = [f't = {A["init"]}', f'acc = {sub["V"]}', 'k = 0.0', 'while k < 3:'] + ind(step + ['k = k + 1']) + \
                    opt(A['cur']) + [f'return acc, {A["curvals"][0]}, {A["curvals"][1]}']
        elif ctl == 'for-outer':
            inner = (['s2 = t'] + opt(A['parts'].replace('= s', '= s2'))
                     + ['t = ' + re.sub(r'\bs\[', 's2[', A['new'])])
            lines = [f't = {A["init"]}', 's = t', 'for _ in range(2):'] + ind(inner) + \
                    opt(A['rd']) + opt(A['cur']) + \
                    [f'return {A["vals"][0]}, {A["vals"][1]}, {A["curvals"][0]}, {A["curvals"][1]}']
        else:
            lines = [f't = {A["init"]}', 's = t', 'if u < v:', f'    t = {A["new2"]}']
            if ctl == 'ifelse':
                lines += ['else:', f'    t = {A["init"].replace(sub["U"], "__X__").replace(sub["V"], sub["U"]).replace("__X__", sub["V"])}']
            lines += opt(A['rd']) + opt(A['cur']) + \
                [f'return {A["vals"][0]}, {A["vals"][1]}, {A["curvals"][0]}, {A["curvals"][1]}']
        body = [f'with {c}:'] + ind(lines)
        return Program(('D2', agg, ctl, c, op), 'D', f'D2:{agg}:{ctl}:{op}:w{W}',
                       fn('f', [('u', 's64'), ('v', 's64')], body), ['s64', 's64'], 'F64E',
                       sig={'aggregate': agg, 'rebind': ctl})
    return gen, build


# ---- E: lists (aliasing, nesting) -------------------------------------------

E_SHAPES = {
    # name: (first arg base kind, body lines with {C} ctx, {E} expression over (x=old value, v), {V} = v operand)
    'literal': ('s', ['xs = [{U}, {V}, {Euv}]', 'return xs, len(xs)']),
    'alias-param-read': ('l', ['ys = us', 'ys[0] = {E0}', 'return us[0]']),
    'alias-param-ret': ('l', ['ys = us', 'ys[0] = {E0}', 'return us']),
    'alias-local': ('s', ['xs = [{U}, {V}, {U}]', 'ys = xs', 'ys[1] = {Euv}', 'return xs[1], ys']),
    'alias-cond': ('s', ['xs = [{U}, {V}]', 'zs = [{V}, {U}]', 'ys = xs if u < v else zs', 'ys[0] = {Euv}',
                         'return xs[0], zs[0]']),
    'slice-copy': ('l', ['ys = us[0:2]', 'ys[0] = {E0}', 'return ys[0], us[0], len(ys)']),
    'write-rebind': ('l', ['us[0] = {E0}', 'if v > 1:', '    us = [{V}, {V}]', 'us[1] = {V}', 'return us[0] + us[1]']),
    'swap': ('l', ['a = us[0]', 'us[0] = us[1]', 'us[1] = a', 'return us[0] - us[1]']),
    'row-alias': ('ll', ['row = uss[0]', 'row[0] = {Er}', 'return uss[0][0], len(uss)']),
    'row-alias-ret': ('ll', ['row = uss[0]', 'row[0] = {Er}', 'return uss']),
    'nest-from-param': ('l', ['xss = [us, us]', 'xss[0][0] = {E0}', 'return us[0], xss[1][0]']),
    'nest-local': ('s', ['xss = [[{U}, {V}], [{V}, {U}]]', 'row = xss[1]', 'row[0] = {Euv}', 'xss[0] = row',
                         'return xss']),
    'row-loop': ('ll', ['for row in uss:', '    row[0] = {Er}', 'return uss[0][0]']),
    'row-index-loop': ('ll', ['for i in range(len(uss)):', '    uss[i][0] = {Ei}', 'return uss']),
    'rows-comp': ('ll', ['rows = [row for row in uss]', 'rows[0][0] = {V}', 'return uss[0][0]']),
    'param-or-literal': ('l', ['if v > 0:', '    return us', 'return [{V}]']),
}


@family('E1')
def _e1():
    def variants(base, full):
        if base == 's':
            return [['s64', 's64'], ['s32', 's32']] if full else [['s64', 's64']]
        if base == 'l':
            return [['l64', 's64'], ['l32', 's64'], ['l64#3', 's64']] if full else [['l64', 's64']]
        return [['ll64', 's64']]

    def gen(full):
        for sh, (base, _b) in E_SHAPES.items():
            if full:
                for c, op, args in itertools.product(['F64E', 'F32Z', 'F64P', 'F32N'], ['mul', 'add'],
                                                     variants(base, True)):
                    yield ('E1', sh, c, op, args[0], args[1])
            else:
                yield ('E1', sh, 'F64E', 'mul', variants(base, False)[0][0], 's64')
        if not full:
            for sh in ('alias-param-ret', 'swap', 'write-rebind'):
                yield ('E1', sh, 'F64E', 'mul', 'l64#3', 's64')
            for sh in ('alias-param-read', 'nest-from-param'):
                yield ('E1', sh, 'F32Z', 'add', 'l32', 's64')

    def build(sh, c, op, k0, k1):
        base, tmpl = E_SHAPES[sh]
        W = width(c)
        args = [k0, k1]
        ew = kind_width(k0)             # element width of the list argument (or of u)
        env = Env(u=kind_width(k0), v=kind_width(k1))
        env.w['us[0]'] = ew
        env.w['row[0]'] = ew
        env.w['uss[i][0]'] = ew
        # a value written into a list of `ew`-wide elements must fit `ew`
        subst = {
            'U': env.o('u', W) if base == 's' else '',
            'V': env.o('v', min(W, ew) if base != 's' else W),
            'Euv': ex(op, env, W, 'u', 'v') if base == 's' else '',
            'E0': ex(op, env, min(W, ew), 'us[0]', 'v'),
            'Er': ex(op, env, min(W, ew), 'row[0]', 'v'),
            'Ei': ex(op, env, min(W, ew), 'uss[i][0]', 'v'),
        }
        inner = [ln.format(**subst) for ln in tmpl]
        cc = c if (base == 's' or ew >= W) else ('F32' + c[3])
        body = [f'with {cc}:'] + ind(inner)
        p0 = {'s': 'u', 'l': 'us', 'll': 'uss'}[base]
        return Program(('E1', sh, c, op, k0, k1), 'E', f'E1:{sh}:{op}:w{width(cc)}:{k0}',
                       fn('f', [(p0, k0), ('v', k1)], body), args, 'F64E')
    return gen, build


# ---- E2: list constructors beyond literals, then per-row writes and reads of a DIFFERENT row ------

E2_SHAPES = {
    # name: (first arg base kind, body); {U} {V} operands, {Euv} = u op v, {X00} = xss[0][0] op v, {X0} = xs[0] op v
    'empty1': ('s', ['xs = empty(3)', 'xs[0] = {U}', 'xs[1] = {V}', 'xs[2] = {Euv}', 'xs[1] = {X0}',
                     'return xs[0], xs[2], xs']),
    'empty2': ('s', ['xss = empty(2, 2)', 'xss[0][0] = {U}', 'xss[0][1] = {V}', 'xss[1][0] = {Euv}',
                     'xss[1][1] = {U}', 'xss[1][0] = {X00}', 'return xss[0][0], xss[0][1], xss']),
    'empty2-rows-loop': ('s', ['xss = empty(3, 2)', 'for i in range(3):', '    xss[i][0] = {U}', '    xss[i][1] = {V}',
                               'xss[2][1] = {X00}', 'xss[1][0] = {Euv}', 'return xss[0][1], xss[0][0], xss']),
    'empty2-len': ('l', ['xss = empty(len(us), 2)', 'for i in range(len(us)):', '    xss[i][0] = {US}',
                         '    xss[i][1] = {V}', 'for i in range(len(us)):', '    xss[i][1] = {XI0}',
                         'return xss']),
    'empty3': ('s', ['xsss = empty(2, 2, 2)', 'xsss[0][0][0] = {U}', 'xsss[0][1][0] = {V}', 'xsss[1][0][0] = {Euv}',
                     'xsss[1][1][0] = {U}', 'xsss[1][0][0] = {X000}',
                     'return xsss[0][0][0], xsss[0][1][0], xsss[1][0][0], xsss[1][1][0]']),
    'comp2': ('s', ['xss = [[{V} for _ in range(2)] for _ in range(2)]', 'xss[1][0] = {Euv}', 'xss[0][1] = {X00}',
                    'return xss[0][0], xss[1][1], xss']),
    'comp2-len': ('l', ['xss = [[x, {V}] for x in us]', 'for i in range(len(us)):', '    xss[i][1] = {XI0}',
                        'return xss, us']),
    'comp-shared-row': ('s', ['row = [{U}, {V}]', 'xss = [row for _ in range(2)]', 'xss[1][0] = {Euv}',
                              'return xss[0][0], row[0], xss[1][1]']),
    'lit-shared-row': ('s', ['row = [{U}, {V}]', 'xss = [row, row]', 'xss[1][0] = {Euv}',
                             'return xss[0][0], row[0], xss']),
    'lib-zeros2': ('s', ['xss = mx.zeros(2, 2)', 'xss[1][0] = {Euv}', 'xss[0][1] = {X00}',
                         'return xss[0][0], xss[1][1], xss']),
    'lib-zeros1': ('s', ['xs = vx.zeros(3)', 'xs[1] = {Euv}', 'xs[2] = {X0}', 'return xs[0], xs']),
    'empty1-alias': ('s', ['xs = empty(2)', 'ys = xs', 'ys[0] = {U}', 'xs[1] = {V}', 'ys[1] = {X0}', 'return xs, ys[0]']),
}


@family('E2')
def _e2():
    def gen(full):
        for sh, (base, _b) in E2_SHAPES.items():
            if full:
                for c, op in itertools.product(['F64E', 'F32Z', 'F64P', 'F32N'], ['mul', 'add']):
                    yield ('E2', sh, c, op)
            else:
                yield ('E2', sh, 'F64E', 'add')
        if not full:
            for sh in ('empty2', 'comp2', 'empty3'):
                yield ('E2', sh, 'F32Z', 'mul')

    def build(sh, c, op):
        base, tmpl = E2_SHAPES[sh]
        W = width(c)
        k0 = 's64' if base == 's' else 'l64'
        env = Env(u=64, v=64)
        for nm in ('xs[0]', 'xss[0][0]', 'xss[i][0]', 'xsss[0][0][0]'):
            env.w[nm] = W
        env.w['us[i]'] = 64
        subst = {'U': env.o('u', W) if base == 's' else '', 'V': env.o('v', W),
                 'Euv': ex(op, env, W, 'u', 'v') if base == 's' else '',
                 'X0': ex(op, env, W, 'xs[0]', 'v'), 'X00': ex(op, env, W, 'xss[0][0]', 'v'),
                 'X000': ex(op, env, W, 'xsss[0][0][0]', 'v'), 'XI0': ex(op, env, W, 'xss[i][0]', 'v'),
                 'US': env.o('us[i]', W)}
        body = [f'with {c}:'] + ind([ln.format(**subst) for ln in tmpl])
        if sh == 'comp2-len' and W == 32:
            body[1] = '    xss = [[round(x), round(v)] for x in us]'
        p0 = 'u' if base == 's' else 'us'
        return Program(('E2', sh, c, op), 'E', f'E2:{sh}:{op}:w{W}', fn('f', [(p0, k0), ('v', 's64')], body),
                       [k0, 's64'], 'F64E')
    return gen, build


# ---- E3: three-level lists, projections held in locals, list-valued stores into / around the projected slot ----

E3_BUILD = {
    'lit': ['xsss = [[[{U}, {V}], [{V}, {U}]], [[{Euv}, {U}], [{V}, {V}]]]'],
    'comp': ['xsss = [[[{U}, {V}] for _ in range(2)] for _ in range(2)]'],
    'rows': ['r0 = [{U}, {V}]', 'r1 = [{V}, {U}]', 'xsss = [[r0, r1], [[{Euv}, {U}], [{V}, {V}]]]'],
}
E3_PROJ = {
    # name: (projection statement, reads through the projection, write through the projection)
    'p2': ('cell = xsss[0][1]', 'cell[0], cell[1]', 'cell[1] = {L}'),
    'p1': ('plane = xsss[0]', 'plane[1][0], plane[0][1]', 'plane[1][1] = {L}'),
}
E3_STORE = {
    # number of indices and which slot relative to xsss[0][1] / xsss[0]
    's1-slot0': 'xsss[0] = [[{N}, {L}], [{L}, {N}]]',
    's1-sibling': 'xsss[1] = [[{N}, {L}], [{L}, {N}]]',
    's2-slot01': 'xsss[0][1] = [{N}, {L}]',
    's2-sibling00': 'xsss[0][0] = [{N}, {L}]',
    's2-sibling11': 'xsss[1][1] = [{N}, {L}]',
    's3-elem': 'xsss[0][1][0] = {N}',
}


@family('E3')
def _e3():
    def gen(full):
        if full:
            for b, pr, st, wt, c, op in itertools.product(E3_BUILD, E3_PROJ, E3_STORE, (0, 1, 2),
                                                           ['F64E', 'F32Z', 'F64P'], ['add', 'mul']):
                yield ('E3', b, pr, st, wt, c, op)
        else:
            for b, pr, st in itertools.product(['lit', 'comp'], E3_PROJ, E3_STORE):
                yield ('E3', b, pr, st, 0, 'F64E', 'add')
            for pr, st in (('p2', 's2-slot01'), ('p1', 's1-slot0'), ('p2', 's1-slot0'), ('p1', 's2-slot01')):
                yield ('E3', 'lit', pr, st, 1, 'F64E', 'add')
                yield ('E3', 'lit', pr, st, 2, 'F64E', 'add')
                yield ('E3', 'rows', pr, st, 0, 'F64E', 'add')

    def build(b, pr, st, wt, c, op):
        W = width(c)
        env = Env(u=64, v=64)
        subst = {'U': env.o('u', W), 'V': env.o('v', W), 'Euv': ex(op, env, W, 'u', 'v'),
                 'N': ex(op, env, W, 'u', '3'), 'L': env.o('1.5', W)}
        proj, reads, wthru = E3_PROJ[pr]
        # wt: 0 = read only, 1 = also write through the projection after the store, 2 = also return the container
        lines = E3_BUILD[b] + [proj, E3_STORE[st]] + ([wthru] if wt == 1 else [])
        lines += [f'return {reads}, xsss[0][1][0], xsss[0][1][1], xsss[0][0][1], xsss[1][1][0]'
                  + (', xsss' if wt == 2 else '')]
        body = [f'with {c}:'] + ind([ln.format(**subst) for ln in lines])
        return Program(('E3', b, pr, st, wt, c, op), 'E', f'E3:{b}:{pr}:{st}:wt{wt}:{op}:w{W}',
                       fn('f', [('u', 's64'), ('v', 's64')], body), ['s64', 's64'], 'F64E',
                       sig={'projection': pr, 'store': st})
    return gen, build


# ---- F: two-function modules -------------------------------------------------

CALLEES = {
    # name: (first param base kind, body lines); {C2} callee context, {Ez..} new element values, {T} = t fitted
    'write': ('l', ['with {C2}:', '    zs[0] = {Ez}', '    return zs[0]']),
    'alias-write': ('l', ['with {C2}:', '    ys = zs', '    ys[0] = {T}', '    return {T}']),
    'write-rebind': ('l', ['with {C2}:', '    zs[0] = {Ez}', '    if t > 1:', '        zs = [{T}, {T}]',
                           '    zs[1] = {T}', '    return zs[0]']),
    'ret-arg': ('l', ['with {C2}:', '    zs[0] = {T}', '    return zs']),
    'with-early': ('l', ['with {C2}:', '    if t < 1.5:', '        return {Ez}', '    zs[0] = {Ez}', 'return zs[0]']),
    # no context of its own: runs under the context active at the call site (one specialisation per context)
    'noctx': ('l', ['zs[0] = {En}', 'return {En2}']),
    'loop': ('l', ['with {C2}:', '    for i in range(len(zs)):', '        zs[i] = {Ezi}', '    return zs[0]']),
    'nested': ('ll', ['with {C2}:', '    zss[0][0] = {Ezz}', '    return zss[0][0]']),
    'readonly': ('l', ['with {C2}:', '    return {Ez}']),
}

CALLERS = {
    # name: (f's first arg base kind, callee param kind it fits, body)
    'direct': ('l', 'l', ['a = g(us, v)', 'return {A} + {U0}']),
    'alias': ('l', 'l', ['ys = us', 'a = g(ys, v)', 'return {U0} * {A}']),
    'local': ('s', 'l', ['xs = [{U}, {V}, {U}]', 'a = g(xs, v)', 'return xs, a']),
    'row': ('ll', 'l', ['a = g(uss[0], v)', 'return {UU} + {A}']),
    'slice': ('l', 'l', ['a = g(us[0:2], v)', 'return {U0} + {A}']),
    'twice': ('l', 'l', ['with {C1}:', '    a = g(us, v)', 'with {C3}:', '    b = g(us, v)', 'return a - b']),
    'in-expr': ('l', 'l', ['return {U0} + {G}']),
    'in-expr-rev': ('l', 'l', ['return {G} + {U0}']),
    'in-loop': ('l', 'l', ['acc = {V}', 'for x in us:', '    acc = acc + {Gx}', 'return acc, us']),
    'nested-direct': ('ll', 'll', ['a = g(uss, v)', 'return {A} + {UU}, uss']),
    'nested-local': ('l', 'll', ['xss = [us, [{Vl}, {Vl}]]', 'a = g(xss, v)', 'return {U0} + {A}']),
    'tail-mode': ('l', 'l', ['a = g(us, v)', 'return {A} * {V} + {U0} / {V}']),
    # the callee writes a row (or element) of a list built by a constructor; the caller reads ANOTHER row
    'ctor-row': ('s', 'l', ['xss = empty(2, 2)', 'xss[0][0] = {U}', 'xss[0][1] = {V}', 'xss[1][0] = {V}',
                            'xss[1][1] = {U}', 'a = g(xss[1], v)', 'return xss[0][0], xss[1][0], a']),
    'ctor-nested': ('s', 'll', ['xss = empty(2, 2)', 'xss[0][0] = {U}', 'xss[0][1] = {V}', 'xss[1][0] = {V}',
                                'xss[1][1] = {U}', 'a = g(xss, v)', 'return xss[1][0], xss[0][0], a']),
    'comp-row': ('s', 'l', ['xss = [[{U}, {V}] for _ in range(2)]', 'a = g(xss[0], v)', 'return xss[1][0], xss[0][0], a']),
}


@family('F1')
def _f1():
    def pairs():
        for cn, (fb, need, _b) in CALLERS.items():
            for gn, (gb, _gb) in CALLEES.items():
                if gb != need:
                    continue
                if gn == 'ret-arg':
                    continue
                yield cn, gn

    ctxs_full = [('F64E', 'F64E'), ('F32Z', 'F64E'), ('F64P', 'F32N'), ('F64N', 'F64Z'), ('F32E', 'F32P')]

    def ok(cn, gn, c1, lk):
        ew = int(lk.split('#')[0])
        if CALLERS.get(cn, ('l',))[0] != 'l' and lk != '64':
            return False
        if gn == 'noctx' and CALLERS.get(cn, ('l',))[0] != 's' and width(c1) > ew:
            return False            # the callee would store a binary64 result into a binary32 list
        return True

    def gen(full):
        if full:
            for (cn, gn), (c1, c2), lk in itertools.product(list(pairs()), ctxs_full, ['64', '32', '64#3']):
                if ok(cn, gn, c1, lk):
                    yield ('F1', cn, gn, c1, c2, lk)
            for (c1, c2), lk in itertools.product(ctxs_full, ['64', '64#3']):
                yield ('F1', 'ret-alias', 'ret-arg', c1, c2, lk)
        else:
            for i, (cn, gn) in enumerate(pairs()):
                if gn in ('write', 'with-early', 'nested', 'noctx') or cn in ('direct',):
                    yield ('F1', cn, gn, *ctxs_full[i % 3], '64')
            yield ('F1', 'ret-alias', 'ret-arg', 'F64E', 'F64E', '64')
            yield ('F1', 'direct', 'write', 'F64E', 'F64E', '64#3')
            yield ('F1', 'direct', 'write', 'F64P', 'F32N', '32')
            yield ('F1', 'alias', 'noctx', 'F32Z', 'F64E', '32')
            # second call under a wider context: the callee specialised there stores binary64 into the
            # binary32 list, so a backend must refuse (or convert) at the call site under every unbox mode
            yield ('F1', 'twice', 'noctx', 'F32Z', 'F64E', '32')
            for cn, gn in (('ctor-row', 'write'), ('ctor-row', 'alias-write'), ('ctor-nested', 'nested'),
                           ('comp-row', 'write'), ('comp-row', 'loop')):
                yield ('F1', cn, gn, 'F64E', 'F64E', '64')

    def build(cn, gn, c1, c2, lk):
        W1 = width(c1)
        fb = 'l' if cn == 'ret-alias' else CALLERS[cn][0]
        # element width of the list the callee receives
        ew = W1 if CALLERS.get(cn, ('l',))[0] == 's' else int(lk.split('#')[0])
        W2 = min(width(c2), ew)
        cc2 = c2 if width(c2) <= ew else 'F32' + c2[3]
        gb, gtmpl = CALLEES[gn]
        env = Env(t=64)
        for nm in ('zs[0]', 'zs[i]', 'zss[0][0]'):
            env.w[nm] = ew
        subst = {'C2': cc2,
                 'T': env.o('t', W2),
                 'Ez': ex('mul', env, W2, 'zs[0]', 't'),
                 'Ezi': ex('add', env, W2, 'zs[i]', 't'),
                 'Ezz': ex('mul', env, W2, 'zss[0][0]', 't'),
                 'En': f'{env.o("zs[0]", W1)} * {env.o("t", W1)} + {env.o("zs[0]", W1)}',
                 'En2': f'{env.o("zs[0]", W1)} / {env.o("t", W1)}'}
        gbody = [ln.format(**subst) for ln in gtmpl]
        gp = 'zs' if gb == 'l' else 'zss'
        gk = ('l' if gb == 'l' else 'll') + str(ew)
        gsrc = fn('g', [(gp, gk), ('t', 's64')], gbody)
        if cn == 'ret-alias':
            ftmpl = ['ys = g(us, v)', 'ys[0] = ys[0] + {Vl}', 'return us[0], len(ys)']
        else:
            ftmpl = CALLERS[cn][2]
        c3 = FCTX[(FCTX.index(c1) + 3) % 8]
        fenv = Env(u=64, v=64, a=64, x=ew)
        fenv.w['us[0]'] = ew
        fenv.w['uss[0][0]'] = 64
        fs = {'C1': c1, 'C3': c3,
              'A': fenv.o('a', W1), 'U0': fenv.o('us[0]', W1), 'UU': fenv.o('uss[0][0]', W1),
              'U': fenv.o('u', W1), 'V': fenv.o('v', W1), 'Vl': fenv.o('v', min(W1, ew)),
              'G': 'g(us, v)' if W1 == 64 else 'round(g(us, v))',
              'Gx': 'g(us, x)' if W1 == 64 else 'round(g(us, x))'}
        fbody = [ln.format(**fs) for ln in ftmpl]
        if cn != 'twice':
            cc1 = c1
            if cn in ('ret-alias', 'nested-local') and W1 > ew:
                cc1 = 'F32' + c1[3]
            fbody = [f'with {cc1}:'] + ind(fbody)
        k0 = {'s': 's64', 'l': 'l' + lk, 'll': 'll64'}[fb]
        p0 = {'s': 'u', 'l': 'us', 'll': 'uss'}[fb]
        fsrc = fn('f', [(p0, k0), ('v', 's64')], fbody)
        return Program(('F1', cn, gn, c1, c2, lk), 'F', f'F1:{cn}>{gn}:w{W1}>w{width(cc2)}:{k0}',
                       gsrc + fsrc, [k0, 's64'], 'F64E')
    return gen, build


# ---- F2: one helper, several call sites whose numeric arguments have DIFFERENT machine formats ----------------

F2_HELPERS = {
    # name: (helper source, call text with {X} = numeric argument and {i} = site number, caller prologue)
    'bool': (['@fp.fpy', 'def h(neg: bool, x: fp.Real):', '    r = x * x + x', '    if neg:', '        r = -r',
              '    return r', ''], 'h({B}, {X})', []),
    'boolexp': (['@fp.fpy', 'def h(neg: bool, x: fp.Real):', '    r = x * x + x', '    if neg:', '        r = -r',
                 '    return r', ''], 'h(u < {X}, {X})', []),
    'int': (['@fp.fpy', 'def h(k: fp.Real, x: fp.Real):', '    return x * x + x * k', ''], 'h(k, {X})',
            ['with SINT32:', '    k = round(u) + 2']),      # run only where |u| < 30 (see build)
}
F2_SEQ = {'nw': 'uv', 'wn': 'vu', 'nn': 'uu', 'ww': 'vv', 'nwn': 'uvu', 'wnw': 'vuv'}   # u: binary32, v: binary64


@family('F2')
def _f2():
    def gen(full):
        if full:
            for hk, seq, place, c in itertools.product(F2_HELPERS, F2_SEQ, ('one', 'two'), ['F64E', 'F64Z', 'F64P']):
                yield ('F2', hk, seq, place, c)
        else:
            for hk, seq in itertools.product(F2_HELPERS, ('nw', 'wn', 'nn', 'nwn')):
                yield ('F2', hk, seq, 'one', 'F64E')
            for hk in F2_HELPERS:
                yield ('F2', hk, 'nw', 'two', 'F64Z')

    def build(hk, seq, place, c):
        hsrc, call, pro = F2_HELPERS[hk]
        names = ['s', 't', 'w']
        calls = [f'{names[i]} = ' + call.format(B=('True' if i % 2 else 'False'), X=x)
                 for i, x in enumerate(F2_SEQ[seq])]
        used = names[:len(calls)]
        c3 = FCTX[(FCTX.index(c) + 1) % 4]           # another binary64 context
        if place == 'one':
            lines = pro + [f'with {c}:'] + ind(calls + [f'return {" + ".join(used)}, {", ".join(used)}'])
        else:
            lines = pro + [f'with {c}:'] + ind(calls[:1]) + [f'with {c3}:'] + ind(calls[1:]) + \
                    [f'return {" + ".join(used)}, {", ".join(used)}']
        if pro:
            # float -> integer conversion is defined in C++ only in range: guard it
            lines = ['if abs(u) < 30:'] + ind(lines) + ['return ' + ', '.join(['v'] * (len(used) + 1))]
        src = '\n'.join(hsrc) + '\n' + fn('f', [('u', 's32'), ('v', 's64')], lines)
        return Program(('F2', hk, seq, place, c), 'F', f'F2:{hk}:{seq}:{place}:{c}', src, ['s32', 's64'], 'F64E',
                       sig={'helper': hk, 'sites': seq, 'contexts': place})
    return gen, build


# ---- G: integer contexts and REAL ---------------------------------------------

@family('G1')          # integer loop arithmetic on small values
def _g1():
    ops = {'mul3': 's + k * 3', 'submul': 's - k * k', 'div': 's + (k * 7) / 2', 'neg': '-(s + k)'}

    def gen(full):
        if full:
            for ic, op, oc in itertools.product(ICTX, ops, ['F64E', 'F32Z']):
                yield ('G1', ic, op, oc)
        else:
            for i, ic in enumerate(ICTX):
                yield ('G1', ic, list(ops)[i % 4], 'F64E')

    def build(ic, op, oc):
        args = ['l64', 's64']
        e = ops[op]
        if ic.startswith('UINT') and op in ('submul', 'neg'):
            e = 's + k * k'          # no negative values under an unsigned context
        body = [f'with {ic}:', '    k = 0', '    s = 0', '    n = len(us)',
                '    while k < n:', f'        s = {e}', '        k = k + 1',
                f'with {oc}:', f'    return round(s) + {"round(v)" if width(oc) == 32 else "v"}, k']
        return Program(('G1', ic, op, oc), 'G', f'G1:int-loop:{op}:{ic}', fn('f', [('us', 'l64'), ('v', 's64')], body),
                       args, 'F64E')
    return gen, build


@family('G2')          # float -> integer round (guarded into range), integer div/neg, back to float
def _g2():
    ops = {'div2': 'k / 2', 'neg': '-k', 'affine': 'k * 3 - 7', 'abs': 'abs(k)', 'minmax': 'min(k, 5) + max(k, 2)'}
    ics = ['SINT8', 'SINT16', 'SINT32', 'SINT64', 'INTEGER']

    def gen(full):
        if full:
            for ic, op, oc in itertools.product(ics, ops, ['F64E', 'F64N']):
                yield ('G2', ic, op, oc)
        else:
            for i, op in enumerate(ops):
                yield ('G2', ics[(i + 2) % 5], op, 'F64E')

    def build(ic, op, oc):
        args = ['s64', 's64']
        body = ['if abs(u) < 30:', f'    with {ic}:', '        k = round(u)', f'        j = {ops[op]}',
                f'    with {oc}:', '        return round(j) + v, k', 'return v, 0']
        return Program(('G2', ic, op, oc), 'G', f'G2:float-to-int:{op}:{ic}', fn('f', [('u', 's64'), ('v', 's64')], body),
                       args, 'F64E')
    return gen, build


@family('G3')          # REAL arithmetic whose exact result fits a machine type
def _g3():
    shapes = {
        'mul32': (['s32', 's32'], ['with REAL:', '    a = u * v', 'with {C}:', '    return a + 1.5']),
        'neg-abs': (['s32', 's32'], ['with REAL:', '    a = -u', '    b = abs(v)', 'with {C}:', '    return a / b']),
        'minmax': (['s32', 's32'], ['with REAL:', '    a = min(u, v)', '    b = max(u, v)', 'with {C}:',
                                    '    return a - b, a']),
        'mul-lit': (['s32', 's32'], ['with REAL:', '    a = u * 3', 'with {C}:', '    return a + v']),
        'range-affine': (['l64', 's64'], ['acc = v', 'for i in range(4):', '    with REAL:', '        k = i * 2 + 1',
                                          '    with {C}:', '        acc = acc * k + v', 'return acc']),
        # range() with a non-unit step: the exit value start + len*step lies past `stop`, on the far side of an
        # int8 / int16 limit in the first and third shape (the second is the aligned control)
        'range-step-i8': (['l64', 's64'], ['acc = v', 'for i in range(0, 127, 3):', '    with REAL:', '        k = i + 1',
                                           '    with {C}:', '        acc = acc + k', 'return acc']),
        'range-step-i8-aligned': (['l64', 's64'], ['acc = v', 'for i in range(0, 126, 3):', '    with REAL:',
                                                   '        k = i + 1', '    with {C}:', '        acc = acc + k',
                                                   'return acc']),
        'range-step-i16': (['l64', 's64'], ['acc = v', 'for _ in range(5, 32767, 5):', '    with {C}:',
                                            '        acc = acc + 1', 'return acc']),
        'real-in-ctx': (['s32', 's32'], ['with {C32}:', '    a = u + v', '    with REAL:', '        b = a * u',
                                         'with {C}:', '    return b - a']),
        'real-round': (['s32', 's32'], ['with REAL:', '    a = u * v', 'with {C32}:', '    return round(a)']),
        # exact arithmetic on values of a small integer format: the result needs the next wider machine integer
        'int8-real': (['s64', 's64'], ['if abs(u) < 30:', '    with SINT8:', '        k = round(u) * 50', '    with REAL:',
                                       '        m = k + k + k', '        n = k * k', '    with {C}:',
                                       '        return m + v, n', 'return v, 0']),
        'int16-real': (['s64', 's64'], ['if abs(u) < 30:', '    with SINT16:', '        k = round(u) * 15000',
                                        '    with REAL:', '        m = k + k + k', '        n = k * k - k',
                                        '    with {C}:', '        return m + v, n', 'return v, 0']),
    }

    def gen(full):
        for sh in shapes:
            for c in (FCTX[:4] if full else ['F64E', 'F64Z']):
                yield ('G3', sh, c)

    def build(sh, c):
        args, tmpl = shapes[sh]
        body = [ln.format(C=c, C32='F32' + c[3]) for ln in tmpl]
        p0 = 'u' if args[0][0] == 's' else 'us'
        return Program(('G3', sh, c), 'G', f'G3:real:{sh}', fn('f', [(p0, args[0]), ('v', args[1])], body), args, 'F64E')
    return gen, build


# ---------------------------------------------------------------------------
# the declared space

QUICK_SLICE = 80


def enumerate_space(tier: str, seed: int) -> list[tuple]:
    """All program descriptors of a tier, in a fixed order, without duplicates."""
    core, full = [], []
    for name, (gen, _b) in FAMILIES.items():
        core.extend(gen(False))
        full.extend(gen(True))
    full_set = set(full)
    for d in core:                      # the core is, by construction, part of the full product
        assert d in full_set, d
    if tier == 'thorough':
        return list(dict.fromkeys(full))
    out = list(dict.fromkeys(core))
    seen = set(core)
    r = seed % QUICK_SLICE
    for i, d in enumerate(full):
        if i % QUICK_SLICE == r and d not in seen:
            out.append(d)
            seen.add(d)
    return out


def build(desc) -> Program:
    desc = tuple(desc)
    return FAMILIES[desc[0]][1](*desc[1:])


def space_sizes() -> dict:
    return {name: {'core': sum(1 for _ in gen(False)), 'full': sum(1 for _ in gen(True))}
            for name, (gen, _b) in FAMILIES.items()}
